#!/venv/bin/python
"""try_seed.py <seed dir> [<id>]: confirm a seeded change (suite passes, demo 1/0), run the property's quick check
against /repo with the patch applied, and undo.  With <id>, store it as /verif/seeded/<id>/."""
import json, os, shutil, subprocess, sys
src = sys.argv[1]
sid = sys.argv[2] if len(sys.argv) > 2 else None
meta = json.load(open(os.path.join(src, "meta.json")))
pid = meta.get("property") or (sid or "").split("-")[0]
meta["property"] = pid
patch = os.path.join(src, "patch.diff")
def sh(cmd, **kw):
    return subprocess.run(cmd, shell=True, capture_output=True, text=True, **kw)
assert sh("git -C /repo status --short").stdout.strip() == "", "repo not clean"
r = sh("/venv/bin/python %s/demo.py" % src, env=dict(os.environ, BACPYPES_SRC="/repo/py34"))
clean_rc = r.returncode
a = sh("git -C /repo apply %s" % patch)
if a.returncode:
    print("APPLY FAILED", a.stderr); sys.exit(2)
try:
    r = sh("/venv/bin/python %s/demo.py" % src, env=dict(os.environ, BACPYPES_SRC="/repo/py34"))
    patched_rc = r.returncode
    t = sh("cd /repo && PYTHONPATH=/repo/py34 /venv/bin/python -m pytest -q -p no:cacheprovider -x -n 8 2>&1 | tail -1")
    suite = t.stdout.strip()
    results = {}
    props = [pid] + [p for p in sys.argv[3:]]
    for p in props:
        c = sh("cd /verif && /venv/bin/python -m bacverif check %s --no-evidence" % p)
        lines = [l for l in c.stdout.split("\n") if l.startswith(("FINDING", "ANALYSIS-ERROR", "VIOLATION"))]
        results[p] = {"rc": c.returncode, "lines": [l[:300] for l in lines[:6]]}
    # all properties quick scan for collateral detection
    allp = {}
    c = sh("cd /verif && /venv/bin/python -m bacverif checkall")          # one process for the other nineteen
    for line in c.stdout.split("\n"):
        parts = line.split(" ", 2)
        if len(parts) >= 2 and parts[1] == "rc=1" and parts[0] not in results:
            allp[parts[0]] = [parts[2][:300] if len(parts) > 2 else ""]
finally:
    sh("git -C /repo checkout -- .")
print("seed", src, "property", pid, "| demo clean rc", clean_rc, "patched rc", patched_rc, "| suite:", suite)
for p, r in results.items():
    print("  check %s rc=%d" % (p, r["rc"]))
    for l in r["lines"]: print("     ", l)
for p, l in allp.items():
    print("  also fires in", p, l)
if sid:
    dst = os.path.join("/verif/seeded", sid)
    os.makedirs(dst, exist_ok=True)
    for f in ("patch.diff", "demo.py"):
        shutil.copy(os.path.join(src, f), os.path.join(dst, f))
    meta["confirmed"] = {"demo_rc_clean": clean_rc, "demo_rc_patched": patched_rc, "suite_with_patch": suite,
                         "ran": ["git -C /repo apply patch.diff", "BACPYPES_SRC=/repo/py34 /venv/bin/python demo.py", "PYTHONPATH=/repo/py34 pytest -n 8", "/venv/bin/python -m bacverif check %s" % pid, "git -C /repo checkout -- ."]}
    meta["detected_by"] = {p: (r["rc"] == 1) for p, r in results.items()}
    meta["detected_lines"] = {p: r["lines"] for p, r in results.items()}
    if allp: meta["also_detected_by"] = allp
    json.dump(meta, open(os.path.join(dst, "meta.json"), "w"), indent=1)
