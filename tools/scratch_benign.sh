#!/bin/sh
# scratch_benign.sh <benign id> <dir>: scratch copy of /repo/py34 with the stored refactoring applied (for debugging a check)
rm -rf "$2"; mkdir -p "$2"; git -C /repo archive HEAD py34 | tar -x -C "$2"
patch -p1 -s -F3 --no-backup-if-mismatch -d "$2" -i /verif/benign/$1/patch.diff && echo "$2/py34/bacpypes"
