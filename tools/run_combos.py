#!/venv/bin/python
"""run_combos.py: every /verif/selftest_patches/<id> (a stored refactoring plus one breaking edit) must be reported by the
check of its property; exits 1 if one is missed"""
import json, os, shutil, subprocess, sys, tempfile
from concurrent.futures import ThreadPoolExecutor
B = "/verif/selftest_patches"


def one(cid):
    meta = json.load(open(os.path.join(B, cid, "meta.json")))
    tmp = tempfile.mkdtemp(prefix="bacverif-combo-")
    try:
        subprocess.run("git -C /repo archive HEAD py34 | tar -x -C %s" % tmp, shell=True, check=True)   # the committed tree: /repo\'s working tree may carry a seeded patch under test
        a = subprocess.run(["patch", "-p1", "-s", "-F3", "--no-backup-if-mismatch", "-d", tmp, "-i", os.path.join(B, cid, "patch.diff")], capture_output=True, text=True)
        if a.returncode:
            return cid, "STALE", ""
        c = subprocess.run(["/venv/bin/python", "-m", "bacverif", "check", meta["property"], "--no-evidence", "--root", os.path.join(tmp, "py34", "bacpypes")], capture_output=True, text=True, cwd="/verif")
        f = [l.split(" ", 4)[3:5] for l in c.stdout.split("\n") if l.startswith("FINDING")]
        return cid, "detected" if c.returncode == 1 else "MISSED(rc%d)" % c.returncode, "; ".join(" ".join(x)[:90] for x in f[:2])
    finally:
        shutil.rmtree(tmp, ignore_errors=True)


ids = sorted(x for x in os.listdir(B) if not sys.argv[1:] or any(x.startswith(a) for a in sys.argv[1:]))
with ThreadPoolExecutor(max_workers=8) as ex:
    res = list(ex.map(one, ids))
bad = 0
for cid, st, det in res:
    print("%-8s %-12s %s" % (cid, st, det))
    bad += st != "detected"
sys.exit(1 if bad else 0)
