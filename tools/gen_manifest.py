#!/venv/bin/python
"""Regenerates /verif/MANIFEST.json from the rule registry and the table below."""
import json, os, sys
HERE = os.path.dirname(os.path.dirname(os.path.abspath(__file__)))
sys.path.insert(0, HERE)
from bacverif import report, rules  # noqa

BASELINE = json.load(open("/root/.vp/BASELINE.json"))["cmd"].replace("--junitxml=<file>", "").strip()

TEXT = {}   # property -> (level text, technique) ; filled from claims.py
from bacverif.claims import CLAIMS, NOT_APPLICABLE

checks = []
for pid in sorted(report.RULES):
    if pid not in CLAIMS:
        continue
    cl = CLAIMS[pid]
    checks.append({
        "property_id": pid,
        "quick_cmd": "/venv/bin/python -m bacverif check %s --tier quick" % pid,
        "thorough_cmd": "/venv/bin/python -m bacverif check %s --tier thorough" % pid,
        "evidence_file": "/verif/evidence/%s.json" % pid,
        "replay_cmd_template": "/venv/bin/python -m bacverif replay {path}",
        "engine": "bacverif",
        "level_claimed": {"category": "other", "text": cl["text"], "design_ref": "DESIGN.md section 3, %s" % pid},
        "level_note": cl["note"],
        "technique": cl["technique"],
    })
man = {
    "version": 1,
    "setup_cmd": "/venv/bin/python -m bacverif --self-check",
    "hooks": {
        "guard": "BACPYPES_VERIF",
        "enable": "none needed: the checks are static analysis of /repo/py34/bacpypes and use no instrumentation; the guard is unused",
        "baseline_off_cmd": BASELINE,
        "source_commits": [],
        "add_only": True,
    },
    "engines": [{
        "name": "bacverif",
        "path": "/verif/bacverif",
        "serves_properties": [c["property_id"] for c in checks],
        "kind_free_text": "repository-specific static analysis on CPython ast: resolved class/MRO model, structured path enumeration with effect summaries, guard normal form (value sets), declarative wire-table evaluator, codec layout extraction; no code of the target is executed",
    }],
    "checks": checks,
    "not_applicable": [{"property_id": p, "reason": r} for p, r in sorted(NOT_APPLICABLE.items()) if p not in {c["property_id"] for c in checks}],
    "notes": "Every claim is for the structural clauses named in DESIGN.md section 3 (necessary conditions of the behavioural property, decided for every path / table entry of the current source). Exit codes: 0 held, 1 violation, 2 analysis error. Known genuine defects are listed in known_findings.json and printed as KNOWN-FINDING lines.",
}
json.dump(man, open(os.path.join(HERE, "MANIFEST.json"), "w"), indent=1)
print("wrote MANIFEST.json with %d checks, %d not_applicable" % (len(checks), len(man["not_applicable"])))
