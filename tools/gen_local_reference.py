#!/venv/bin/python
"""Regenerate spec/local_names.json (the reference of function-local names used by bacverif/alpha.py) from the
reviewed tree /repo/py34/bacpypes.  Run only after a reviewed change of /repo (fix commits)."""
import ast, json, os, sys
ROOT = os.path.dirname(os.path.dirname(os.path.abspath(__file__)))
sys.path.insert(0, ROOT)
from bacverif import alpha
from bacverif.model import _StripDebug
if len(sys.argv) > 1:
    src = sys.argv[1]
else:
    # the committed (reviewed) tree, not the working tree: a seeded patch may be applied there while checks are tried
    import subprocess, tempfile, atexit, shutil
    _tmp = tempfile.mkdtemp(prefix="bacverif-ref-")
    atexit.register(shutil.rmtree, _tmp, True)
    subprocess.run("git -C /repo archive HEAD py34 | tar -x -C %s" % _tmp, shell=True, check=True)
    src = os.path.join(_tmp, "py34", "bacpypes")
out = {}
n = 0
for root, _, files in os.walk(src):
    for f in sorted(files):
        if not f.endswith(".py"):
            continue
        p = os.path.join(root, f)
        rel = os.path.relpath(p, src)[:-3].replace(os.sep, ".")
        if rel.endswith("__init__"):
            rel = rel[:-9] or "__init__"
        try:
            tree = _StripDebug().visit(ast.parse(open(p).read()))
        except SyntaxError:
            continue
        allref = alpha.reference_of(tree)
        ref = {q: b for q, b in allref.items() if b}
        n += sum(len(b) for b in ref.values())
        ref["__functions__"] = sorted(allref)
        from bacverif import normalize
        comps = {}
        for q, fn in alpha.functions_with_qualnames(tree):
            sg = normalize.comprehension_signatures(fn)
            if sg:
                comps[q] = sg
        ref["__comprehensions__"] = comps
        cons = {}
        for q, fn in alpha.functions_with_qualnames(tree):
            cs = normalize.construct_signatures(fn)
            if cs:
                cons[q] = cs
        ref["__constructs__"] = cons
        ref["__ifexps__"] = {q: sg for q, sg in ((q, normalize.ifexp_signatures(fn)) for q, fn in alpha.functions_with_qualnames(tree)) if sg}
        from bacverif import dispatch
        ref["__globals__"] = dispatch.global_names(tree)
        out[rel] = ref
json.dump(out, open(os.path.join(ROOT, "spec", "local_names.json"), "w"), indent=0, sort_keys=True)
print("reference of %d locals in %d modules written" % (n, len(out)))
