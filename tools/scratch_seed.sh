#!/bin/sh
# scratch_seed.sh <seed dir or id> <dir>: scratch copy of /repo/py34 (HEAD, not the working tree) with the seeded patch applied
d="$1"; [ -d "$d" ] || d=/verif/seeded/$1
rm -rf "$2"; mkdir -p "$2"; git -C /repo archive HEAD py34 | tar -x -C "$2"
patch -p1 -s -F3 --no-backup-if-mismatch -d "$2" -i $d/patch.diff && echo "$2/py34/bacpypes"
