#!/venv/bin/python
"""rebase_seed.py <seed id> [<edited tree>]: refresh a stored seed whose patch no longer applies because /repo moved on
(fix commits).  The old patch is applied with fuzz to a scratch copy of /repo/py34 (or, if that fails, an already edited
copy is given as second argument), a new patch.diff is produced, checked with `git apply --check` against /repo, and the
seed's demo must still exit 1 on the patched copy and 0 on the clean tree.  Nothing is written to /repo."""
import difflib, json, os, shutil, subprocess, sys, tempfile
sid = sys.argv[1]
d = os.path.join("/verif/seeded", sid)
tmp = tempfile.mkdtemp(prefix="bacverif-rebase-")
try:
    if len(sys.argv) > 2:
        shutil.copytree(sys.argv[2], os.path.join(tmp, "py34"), ignore=shutil.ignore_patterns("__pycache__", "*.pyc", "*.rej", "*.orig"))
    else:
        shutil.copytree("/repo/py34", os.path.join(tmp, "py34"), ignore=shutil.ignore_patterns("__pycache__", "*.pyc"))
        r = subprocess.run(["patch", "-p1", "-F3", "-s", "--no-backup-if-mismatch", "-d", tmp, "-i", os.path.join(d, "patch.diff")], capture_output=True, text=True)
        if r.returncode:
            print("patch does not apply even with fuzz:\n" + r.stdout + r.stderr); sys.exit(2)
    out = []
    for root, _, files in os.walk(os.path.join(tmp, "py34")):
        for fn in files:
            if not fn.endswith(".py"):
                continue
            p = os.path.join(root, fn)
            rel = os.path.relpath(p, tmp)
            orig = os.path.join("/repo", rel)
            a = open(orig).read().splitlines(True) if os.path.exists(orig) else []
            b = open(p).read().splitlines(True)
            if a != b:
                out.extend(difflib.unified_diff(a, b, "a/" + rel, "b/" + rel))
    text = "".join(out)
    if not text:
        print("no difference left"); sys.exit(2)
    newp = os.path.join(tmp, "new.diff")
    open(newp, "w").write(text)
    c = subprocess.run(["git", "-C", "/repo", "apply", "--check", newp], capture_output=True, text=True)
    if c.returncode:
        print("new patch rejected by git apply --check:", c.stderr); sys.exit(2)
    demo = os.path.join(d, "demo.py")
    # the demos put dirname(SRC) on the path for `tests`: give the scratch copy a link to the suite
    os.symlink("/repo/tests", os.path.join(tmp, "tests"))
    rp = subprocess.run(["/venv/bin/python", demo], env=dict(os.environ, BACPYPES_SRC=os.path.join(tmp, "py34")), capture_output=True, text=True).returncode
    rc = subprocess.run(["/venv/bin/python", demo], env=dict(os.environ, BACPYPES_SRC="/repo/py34"), capture_output=True, text=True).returncode
    print("%s: demo patched rc=%s clean rc=%s" % (sid, rp, rc))
    if rp != 1 or rc != 0:
        print("NOT refreshed: the demonstration no longer separates the trees"); sys.exit(1)
    shutil.copy(newp, os.path.join(d, "patch.diff"))
    m = json.load(open(os.path.join(d, "meta.json")))
    m["rebased_on"] = subprocess.run(["git", "-C", "/repo", "rev-parse", "--short", "HEAD"], capture_output=True, text=True).stdout.strip()
    json.dump(m, open(os.path.join(d, "meta.json"), "w"), indent=1)
    print("refreshed", sid)
finally:
    shutil.rmtree(tmp, ignore_errors=True)
