#!/venv/bin/python
"""Writes spec/property_reference.json from the current tree (run on the reviewed state)."""
import json, os, sys
HERE = os.path.dirname(os.path.dirname(os.path.abspath(__file__)))
sys.path.insert(0, HERE)
from bacverif.model import Program
from bacverif.report import Ctx
from bacverif.rules.c15 import current_properties
ctx = Ctx(Program(sys.argv[1] if len(sys.argv) > 1 else None))
cur = current_properties(ctx)
json.dump(cur, open(os.path.join(HERE, "spec", "property_reference.json"), "w"), indent=0, sort_keys=True)
print(len(cur), sum(len(v) for v in cur.values()))
