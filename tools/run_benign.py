#!/venv/bin/python
"""run_benign.py: re-run the property checks against every stored behaviour-preserving refactoring (/verif/benign/*).
Each patch is applied to a scratch copy of /repo/py34 and all checks are run with --root; exits 1 if any check fires
or errors on a refactoring that is recorded as behaviour preserving."""
import json, os, shutil, subprocess, sys, tempfile
from concurrent.futures import ProcessPoolExecutor
B = "/verif/benign"


ONLY = None


def one(bid):
    d = os.path.join(B, bid)
    tmp = tempfile.mkdtemp(prefix="bacverif-benign-")
    try:
        subprocess.run("git -C /repo archive HEAD py34 | tar -x -C %s" % tmp, shell=True, check=True)   # the committed tree: /repo\'s working tree may carry a seeded patch under test
        a = subprocess.run(["patch", "-p1", "-s", "-F3", "--no-backup-if-mismatch", "-d", tmp, "-i", os.path.join(d, "patch.diff")], capture_output=True, text=True)
        if a.returncode:
            return bid, "STALE", []
        root = os.path.join(tmp, "py34", "bacpypes")
        try:
            import py_compile
            for r, _, fs in os.walk(root):
                for f in fs:
                    if f.endswith(".py"):
                        py_compile.compile(os.path.join(r, f), doraise=True, cfile=os.path.join(tmp, "x.pyc"))
        except Exception:
            return bid, "STALE", []
        bad = []
        c = subprocess.run(["/venv/bin/python", "-m", "bacverif", "checkall", "--root", root] + (["--only", ONLY] if ONLY else []), capture_output=True, text=True, cwd="/verif")
        seen = 0
        for line in c.stdout.split("\n"):
            parts = line.split(" ", 2)
            if len(parts) >= 2 and parts[1].startswith("rc="):
                seen += 1
                if parts[1] != "rc=0":
                    bad.append("%s(%s)" % (parts[0], parts[1].replace("=", "")))
        if seen < (len(ONLY.split(",")) if ONLY else 20):
            bad.append("checkall-failed(%s)" % (c.stdout + c.stderr)[-200:].replace("\n", " "))
        return bid, "silent" if not bad else "FIRES", bad
    finally:
        shutil.rmtree(tmp, ignore_errors=True)


def _init(only):
    global ONLY
    ONLY = only


def main():
    """run_benign.py [id-prefix ...] [--only C04,C11]"""
    global ONLY
    args = sys.argv[1:]
    if "--only" in args:
        ONLY = args[args.index("--only") + 1]
        del args[args.index("--only"):args.index("--only") + 2]
    ids = sorted(x for x in os.listdir(B) if os.path.isdir(os.path.join(B, x)) and (not args or any(x.startswith(a) for a in args)))
    with ProcessPoolExecutor(max_workers=14, initializer=_init, initargs=(ONLY,)) as ex:
        res = list(ex.map(one, ids))
    n = 0
    for bid, st, bad in res:
        if st != "silent":
            print(bid, st, " ".join(bad))
        n += st == "FIRES"
    print("%d refactorings, %d silent, %d stale, %d fire" % (len(res), sum(1 for r in res if r[1] == "silent"), sum(1 for r in res if r[1] == "STALE"), n))
    return 1 if n else 0


if __name__ == "__main__":
    sys.exit(main())
