#!/venv/bin/python
"""rename_locals.py <src root> <dst root> [module ...]: behaviour-preserving transformation for robustness testing of the
checks: every function-local variable (assigned in the function's own scope, not a parameter, not global/nonlocal, not
mentioned by a nested scope, not shadowing a name the function also reads from outside before assigning) is renamed
v -> v_<n>.  The module is re-emitted with ast.unparse.  Only the listed modules (default: all) are transformed."""
import ast, os, shutil, sys


def own_scope_nodes(fn):
    todo = list(ast.iter_child_nodes(fn))
    while todo:
        n = todo.pop()
        yield n
        if isinstance(n, (ast.FunctionDef, ast.AsyncFunctionDef, ast.ClassDef, ast.Lambda, ast.ListComp, ast.SetComp, ast.DictComp, ast.GeneratorExp)):
            continue
        todo.extend(ast.iter_child_nodes(n))


def nested_scopes(fn):
    for n in own_scope_nodes(fn):
        if isinstance(n, (ast.FunctionDef, ast.AsyncFunctionDef, ast.ClassDef, ast.Lambda, ast.ListComp, ast.SetComp, ast.DictComp, ast.GeneratorExp)):
            yield n


def transform(tree):
    count = 0
    for fn in [n for n in ast.walk(tree) if isinstance(n, (ast.FunctionDef, ast.AsyncFunctionDef))]:
        params = {a.arg for a in fn.args.args + fn.args.kwonlyargs + getattr(fn.args, "posonlyargs", [])}
        if fn.args.vararg:
            params.add(fn.args.vararg.arg)
        if fn.args.kwarg:
            params.add(fn.args.kwarg.arg)
        declared = set()
        stored = set()
        for n in own_scope_nodes(fn):
            if isinstance(n, (ast.Global, ast.Nonlocal)):
                declared |= set(n.names)
            if isinstance(n, ast.Name) and isinstance(n.ctx, (ast.Store, ast.Del)):
                stored.add(n.id)
            if isinstance(n, ast.ExceptHandler) and n.name:
                stored.add(n.name)
            if isinstance(n, (ast.Import, ast.ImportFrom)):
                for a in n.names:
                    declared.add((a.asname or a.name).split(".")[0])
        inner = set()
        for sc in nested_scopes(fn):
            for x in ast.walk(sc):
                if isinstance(x, ast.Name):
                    inner.add(x.id)
                if isinstance(x, ast.arg):
                    inner.add(x.arg)
        cand = stored - params - declared - inner
        cand = {c for c in cand if not c.startswith("__")}
        if not cand:
            continue
        ren = {c: "%s_%d" % (c, len(c)) for c in cand}
        for n in own_scope_nodes(fn):
            if isinstance(n, ast.Name) and n.id in ren:
                n.id = ren[n.id]
            if isinstance(n, ast.ExceptHandler) and n.name in ren:
                n.name = ren[n.name]
        count += len(ren)
    return count


def main():
    src, dst = sys.argv[1], sys.argv[2]
    mods = set(sys.argv[3:])
    if os.path.exists(dst):
        shutil.rmtree(dst)
    shutil.copytree(src, dst, ignore=shutil.ignore_patterns("__pycache__", "*.pyc"))
    total = 0
    for root, _, files in os.walk(dst):
        for f in files:
            if not f.endswith(".py"):
                continue
            p = os.path.join(root, f)
            rel = os.path.relpath(p, dst)[:-3].replace(os.sep, ".")
            if mods and rel not in mods:
                continue
            tree = ast.parse(open(p).read())
            n = transform(tree)
            total += n
            open(p, "w").write(ast.unparse(tree) + "\n")
    print("renamed %d locals" % total)


if __name__ == "__main__":
    main()
