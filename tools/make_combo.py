#!/venv/bin/python
"""make_combo.py <prop> <id> <benign id> <file under py34/> <old text> <new text> <what>:
a refactoring of /verif/benign plus one breaking edit inside the refactored code = a change written in the new style that
breaks the property.  Stored as /verif/selftest_patches/<id>/ (patch.diff against /repo, meta.json); the self-test of the
property must report it.  These check that the load-time normalisation does not hide a break."""
import json, os, shutil, subprocess, sys, tempfile
prop, cid, bid, rel, old, new, what = sys.argv[1:8]
tmp = tempfile.mkdtemp(prefix="bacverif-combo-")
try:
    a = os.path.join(tmp, "a"); b = os.path.join(tmp, "b")
    os.makedirs(a); os.makedirs(b)
    shutil.copytree("/repo/py34", os.path.join(a, "py34"), ignore=shutil.ignore_patterns("__pycache__", "*.pyc"))
    shutil.copytree("/repo/py34", os.path.join(b, "py34"), ignore=shutil.ignore_patterns("__pycache__", "*.pyc"))
    r = subprocess.run(["patch", "-p1", "-s", "--no-backup-if-mismatch", "-d", b, "-i", "/verif/benign/%s/patch.diff" % bid], capture_output=True, text=True)
    if r.returncode:
        sys.exit("benign patch does not apply: " + r.stdout + r.stderr)
    p = os.path.join(b, "py34", rel)
    s = open(p).read()
    if s.count(old) != 1:
        sys.exit("old text occurs %d times" % s.count(old))
    open(p, "w").write(s.replace(old, new))
    import py_compile
    py_compile.compile(p, doraise=True, cfile=os.path.join(tmp, "x.pyc"))
    d = subprocess.run(["diff", "-ruN", "a/py34", "b/py34"], cwd=tmp, capture_output=True, text=True).stdout
    dst = "/verif/selftest_patches/%s" % cid
    os.makedirs(dst, exist_ok=True)
    open(os.path.join(dst, "patch.diff"), "w").write(d)
    json.dump({"property": prop, "based_on": "benign/%s" % bid, "what": what, "edit": {"file": rel, "old": old, "new": new}}, open(os.path.join(dst, "meta.json"), "w"), indent=1)
    print("stored", dst)
finally:
    shutil.rmtree(tmp, ignore_errors=True)
