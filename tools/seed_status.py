#!/venv/bin/python
"""seed_status.py [pattern]: stored seeds, whether their own property's check detected them (from meta.json)"""
import json, os, glob, sys
pat = sys.argv[1] if len(sys.argv) > 1 else "*"
for d in sorted(glob.glob('/verif/seeded/%s' % pat)):
    m = json.load(open(d + '/meta.json'))
    pid = m.get('property')
    det = m.get('detected_by', {})
    oth = [k for k, v in det.items() if v and k != pid]
    print("%-9s %-8s %-14s %s" % (os.path.basename(d), "DETECTED" if det.get(pid) else "MISSED", ",".join(oth), m.get('title', '')[:100]))
