#!/venv/bin/python
"""Writes spec/wire_reference.json from the current tree (run once on the reviewed state;
entries known to be wrong are replaced by hand afterwards, see DESIGN.md 2.3)."""
import json, os, sys
HERE = os.path.dirname(os.path.dirname(os.path.abspath(__file__)))
sys.path.insert(0, HERE)
from bacverif.model import Program
from bacverif.report import Ctx
from bacverif.rules.c03 import current_wire
ctx = Ctx(Program(sys.argv[1] if len(sys.argv) > 1 else None))
cur = current_wire(ctx)
json.dump(cur, open(os.path.join(HERE, "spec", "wire_reference.json"), "w"), indent=0, sort_keys=True)
print({k: len(v) for k, v in cur.items()})
