#!/venv/bin/python
"""show_fn.py <root> <module> <qualname>: the function as the rules see it (after the load-time normalisation)"""
import ast, sys
sys.path.insert(0, "/verif")
from bacverif import model
P = model.Program(sys.argv[1])
m = P.module(sys.argv[2])
fn = P.func(sys.argv[2], sys.argv[3])
print(ast.unparse(fn))
print(m.normalized)
