#!/venv/bin/python
"""try_benign.py <dir with patch.diff + meta.json> <id> [--no-suite]: a behaviour-preserving refactoring produced by a
sub-agent.  The patch is applied to a scratch copy of /repo/py34 (never to /repo), the test suite is run against the copy,
then ALL twenty property checks are run with --root.  Any VIOLATION is a false alarm of the checker, an ANALYSIS-ERROR a
robustness problem.  The change is stored as /verif/benign/<id>/ with the outcome."""
import json, os, re, shutil, subprocess, sys, tempfile
from concurrent.futures import ThreadPoolExecutor
src, bid = sys.argv[1], sys.argv[2]
tmp = tempfile.mkdtemp(prefix="bacverif-benign-")
try:
    subprocess.run("git -C /repo archive HEAD py34 | tar -x -C %s" % tmp, shell=True, check=True)   # the committed tree: /repo\'s working tree may carry a seeded patch under test
    a = subprocess.run(["patch", "-p1", "-s", "--no-backup-if-mismatch", "-d", tmp, "-i", os.path.join(src, "patch.diff")], capture_output=True, text=True)
    if a.returncode:
        print(bid, "patch does not apply:", (a.stdout + a.stderr)[:300]); sys.exit(2)
    suite = "skipped"
    if "--no-suite" not in sys.argv:
        t = subprocess.run("cd /repo && PYTHONPATH=%s/py34 /venv/bin/python -m pytest -q -p no:cacheprovider -x -n 6 2>&1 | tail -1" % tmp, shell=True, capture_output=True, text=True)
        suite = t.stdout.strip()
    root = os.path.join(tmp, "py34", "bacpypes")

    def run(p):
        c = subprocess.run(["/venv/bin/python", "-m", "bacverif", "check", p, "--no-evidence", "--root", root], capture_output=True, text=True, cwd="/verif")
        lines = [l[:400] for l in c.stdout.split("\n") if l.startswith(("FINDING", "ANALYSIS-ERROR"))]
        return p, c.returncode, lines
    with ThreadPoolExecutor(max_workers=10) as ex:
        res = list(ex.map(run, ["C%02d" % i for i in range(1, 21)]))
    bad = {p: (rc, lines) for p, rc, lines in res if rc != 0}
    meta = json.load(open(os.path.join(src, "meta.json")))
    meta["suite"] = suite
    meta["checks"] = {p: {"rc": rc, "lines": lines[:4]} for p, (rc, lines) in bad.items()}
    meta["silent"] = not bad
    dst = os.path.join("/verif/benign", bid)
    os.makedirs(dst, exist_ok=True)
    shutil.copy(os.path.join(src, "patch.diff"), os.path.join(dst, "patch.diff"))
    json.dump(meta, open(os.path.join(dst, "meta.json"), "w"), indent=1)
    print("%s | %s | suite: %s | %s" % (bid, meta.get("title", "")[:70], suite[:40], "SILENT" if not bad else "FIRES " + " ".join("%s(rc%d)" % (p, rc) for p, (rc, _) in bad.items())))
    for p, (rc, lines) in bad.items():
        for l in lines[:3]:
            print("     ", l[:300])
finally:
    shutil.rmtree(tmp, ignore_errors=True)
