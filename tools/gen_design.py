#!/venv/bin/python
"""Fill the <!-- RULES:Cxx --> blocks of DESIGN.md from the rule registry."""
import os, re, sys
ROOT = os.path.dirname(os.path.dirname(os.path.abspath(__file__)))
sys.path.insert(0, ROOT)
from bacverif import report, rules  # noqa: F401

p = os.path.join(ROOT, "DESIGN.md")
s = open(p).read()
for pid in sorted(report.RULES):
    lines = []
    for r in sorted(report.RULES[pid], key=lambda r: (len(r.id), r.id)):
        lines.append("* **%s**%s — %s.  *(%s; floor %d)*" % (r.id, " (advisory)" if r.advisory else "", r.clause, r.engines, r.floor))
    block = "<!-- RULES:%s -->\n%s\n<!-- /RULES:%s -->" % (pid, "\n".join(lines), pid)
    s, n = re.subn(r"<!-- RULES:%s -->.*?<!-- /RULES:%s -->" % (pid, pid), lambda m: block, s, flags=re.S)
    if n != 1:
        print("marker for", pid, "not found"); sys.exit(1)
open(p, "w").write(s)
print("DESIGN.md rule lists refreshed")
