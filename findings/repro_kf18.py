#!/venv/bin/python
"""KF-18: local/schedule.py LocalScheduleInterpreter.eval returns None when the
date is outside the effective period; process_task unpacks two values ->
TypeError, and the interpreter is never scheduled again."""
import sys, logging
sys.path[:0] = ['/repo/py34', '/repo']
from bacpypes.primitivedata import Null, Real
from bacpypes.constructeddata import ArrayOf
from bacpypes.basetypes import DailySchedule, DateRange, TimeValue
from bacpypes.app import Application
from bacpypes.local.device import LocalDeviceObject
from bacpypes.local.schedule import LocalScheduleObject
import tests.time_machine as tm

if not tm.time_machine:
    tm.TimeMachine()
tm.reset_time_machine(start_time="1970-01-01")

logged = []
class Grab(logging.Handler):
    def emit(self, record):
        logged.append(record.exc_info[1] if record.exc_info else record.getMessage())
logging.getLogger('bacpypes').addHandler(Grab(logging.ERROR))
for h in logging.getLogger('bacpypes').handlers:
    if isinstance(h, logging.StreamHandler): h.setLevel(logging.CRITICAL + 1)

app = Application(LocalDeviceObject(objectName="dev", objectIdentifier=('device', 1),
    maxApduLengthAccepted=1024, segmentationSupported='segmentedBoth', vendorIdentifier=999))
so = LocalScheduleObject(
    objectIdentifier=('schedule', 1), objectName='sched', presentValue=Real(-1.0),
    # effective from 3-Jan-1970; the clock starts on 1-Jan-1970
    effectivePeriod=DateRange(startDate=(70, 1, 3, 255), endDate=(70, 12, 31, 255)),
    weeklySchedule=ArrayOf(DailySchedule)([DailySchedule(daySchedule=[
        TimeValue(time=(8, 0, 0, 0), value=Real(8)),
        TimeValue(time=(17, 0, 0, 0), value=Null()),
        ])] * 7),
    scheduleDefault=Real(0.0),
    )
app.add_object(so)
print("schedule effective 1970-01-03 .. 1970-12-31, every day 08:00 -> 8.0, 17:00 -> default 0.0; clock starts 1970-01-01 00:00")

tm.run_time_machine(stop_time="1970-01-01 12:00:00")
print("1970-01-01 12:00 (before the effective period): presentValue=%r, interpreter scheduled=%r"
      % (so.presentValue.value, so._task.isScheduled))
print("  logged by the task machinery: %r" % logged)
tm.run_time_machine(stop_time="1970-01-03 09:00:00")
pv = so.presentValue.value
print("1970-01-03 09:00 (inside the effective period, after the 08:00 entry): presentValue=%r (expected 8.0), scheduled=%r"
      % (pv, so._task.isScheduled))

type_errors = [e for e in logged if isinstance(e, TypeError)]
if type_errors or pv != 8.0:
    print("DEFECT PRESENT: %s; the schedule never started although its effective period began"
          % (("process_task raised %r" % type_errors[0]) if type_errors else "no TypeError"))
    sys.exit(1)
print("OK: outside the effective period was handled and the schedule started on 3-Jan")
sys.exit(0)
