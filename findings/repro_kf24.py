#!/venv/bin/python
"""KF-24: BIPForeign.unregister() leaves registrationStatus at -2 ("unbinding")
and register() never resets it, so after unregister -> register every
acknowledgement from the BBMD is ignored: the BBMD lists and serves the device,
but the device drops what it is sent and refuses to broadcast."""
import sys
sys.path[:0] = ['/repo/py34', '/repo']
from bacpypes.comm import Client, Server, bind
from bacpypes.pdu import Address, LocalBroadcast, PDU, unpack_ip_addr
from bacpypes.task import FunctionTask
from bacpypes.vlan import IPNetwork, IPRouter, IPNode
from bacpypes.bvllservice import BIPSimple, BIPForeign, BIPBBMD, AnnexJCodec
from tests import time_machine as tm
from tests.time_machine import TimeMachine, reset_time_machine, run_time_machine


def at(when, fn, *args):
    FunctionTask(fn, *args).install_task(when=when)


class Mux(Client, Server):
    def __init__(self, addr, lan):
        Client.__init__(self)
        Server.__init__(self)
        self.unicast_tuple = addr.addrTuple
        self.broadcast_tuple = addr.addrBroadcastTuple
        self.node = IPNode(addr, lan)
        bind(self, self.node)

    def indication(self, pdu):
        dest = self.broadcast_tuple if pdu.pduDestination.addrType == Address.localBroadcastAddr else unpack_ip_addr(pdu.pduDestination.addrAddr)
        self.request(PDU(pdu, source=self.unicast_tuple, destination=dest))

    def confirmation(self, pdu):
        dest = LocalBroadcast() if pdu.pduDestination == self.broadcast_tuple else Address(pdu.pduDestination)
        self.response(PDU(pdu, source=Address(pdu.pduSource), destination=dest))


class NetLayer(Client):
    def __init__(self):
        Client.__init__(self)
        self.got = []

    def confirmation(self, pdu):
        self.got.append(bytes(pdu.pduData))


class Station:
    def __init__(self, addr, lan, bip):
        self.address = Address(addr)
        self.net = NetLayer()
        self.bip = bip
        bind(self.net, bip, AnnexJCodec(), Mux(self.address, lan))


TimeMachine()
reset_time_machine()
router = IPRouter()
net1, net2 = IPNetwork("192.168.1.0/24"), IPNetwork("192.168.2.0/24")
router.add_network(Address("192.168.1.1/24"), net1)
router.add_network(Address("192.168.2.1/24"), net2)
bbmd_addr = Address("192.168.1.2/24")
bbmd = Station("192.168.1.2/24", net1, BIPBBMD(bbmd_addr))
bbmd.bip.add_peer(Address("192.168.1.2/32:47808"))
n = Station("192.168.1.3/24", net1, BIPSimple())
f = Station("192.168.2.2/24", net2, BIPForeign())

seen = {}
def snap(tag):
    seen[tag] = (f.bip.registrationStatus, [str(e.fdAddress) for e in bbmd.bip.bbmdFDT])

at(0.0, f.bip.register, bbmd_addr, 20)
at(5.0, snap, "first registration")
at(10.0, f.bip.unregister)
at(15.0, f.bip.register, bbmd_addr, 20)
at(17.0, snap, "second registration")
at(18.0, lambda: n.net.request(PDU(b'from-N', destination=LocalBroadcast())))
at(19.0, lambda: f.net.request(PDU(b'from-F', destination=LocalBroadcast())))
run_time_machine(25.0)

for tag in ("first registration", "second registration"):
    print("%-20s F.registrationStatus=%r  BBMD foreign device table=%s" % (tag, seen[tag][0], seen[tag][1]))
print("broadcast from N at t=18: handed to F %d time(s)" % f.net.got.count(b'from-N'))
print("broadcast from F at t=19: handed to N %d time(s), to the BBMD %d time(s)" % (n.net.got.count(b'from-F'), bbmd.net.got.count(b'from-F')))
if seen["first registration"][0] != 0 or not seen["first registration"][1]:
    print("UNDECIDED: the first registration did not work"); sys.exit(2)
if seen["second registration"][0] != 0 or f.net.got.count(b'from-N') != 1 or n.net.got.count(b'from-F') != 1:
    print("DEFECT PRESENT: registered again and listed by the BBMD, but the device still thinks it is unbinding (-2) and is not served")
    sys.exit(1)
print("OK: the re-registration is acknowledged and the device is served in both directions")
sys.exit(0)
