#!/venv/bin/python
"""KF-10: a received SegmentAck whose actual-window-size is outside 1..127 is
stored into actualWindowSize unchecked (appservice.ServerSSM.segmented_response
/ ClientSSM.segmented_request)."""
import sys, logging
sys.path[:0] = ['/repo/py34', '/repo']

from bacpypes.primitivedata import CharacterString
from bacpypes.constructeddata import Any
from bacpypes.comm import bind
from bacpypes.pdu import Address, LocalBroadcast
from bacpypes.vlan import Network, Node
from bacpypes.npdu import NPDU
from bacpypes.apdu import APDU, ConfirmedPrivateTransferRequest, ConfirmedPrivateTransferACK
from bacpypes.app import Application
from bacpypes.appservice import StateMachineAccessPoint, ApplicationServiceAccessPoint, SSM
from bacpypes.netservice import NetworkServiceAccessPoint, NetworkServiceElement
from bacpypes.local.device import LocalDeviceObject
import tests.time_machine as tm

if not tm.time_machine:
    tm.TimeMachine()
for h in logging.getLogger('bacpypes').handlers:
    if isinstance(h, logging.StreamHandler): h.setLevel(logging.CRITICAL + 1)


class TamperNetwork(Network):
    """rewrites the window-size octet of the FIRST SegmentAck on the wire, as a
    misbehaving peer would send it (NPCI is 2 octets, SegmentAck = type,id,seq,win)"""
    def __init__(self, win, **kw):
        Network.__init__(self, **kw)
        self.win, self.tampered, self.after = win, False, []
    def process_pdu(self, pdu):
        npdu = NPDU(); npdu.decode(pdu.__class__(pdu.pduData, source=pdu.pduSource, destination=pdu.pduDestination))
        apdu = APDU(); apdu.decode(npdu)
        if self.tampered:
            self.after.append((str(pdu.pduSource), apdu.apduType, apdu.apduSeq, apdu.apduAbortRejectReason))
        if apdu.apduType == 4 and not self.tampered:
            data = bytearray(pdu.pduData); data[5] = self.win
            pdu.pduData = type(pdu.pduData)(data)
            self.tampered = True
        Network.process_pdu(self, pdu)


class App(Application):
    def __init__(self, dev, vlan):
        self.address = Address(dev.objectIdentifier[1])
        Application.__init__(self, dev)
        self.asap = ApplicationServiceAccessPoint()
        self.smap = StateMachineAccessPoint(dev)
        self.smap.deviceInfoCache = self.deviceInfoCache
        self.nsap = NetworkServiceAccessPoint()
        self.nse = NetworkServiceElement()
        bind(self.nse, self.nsap)
        bind(self, self.asap, self.smap, self.nsap)
        self.node = Node(self.address, vlan)
        self.nsap.bind(self.node)
        self.result, self.got = None, []
    def confirmation(self, apdu):
        self.got.append(apdu)
    def do_ConfirmedPrivateTransferRequest(self, apdu):
        ack = ConfirmedPrivateTransferACK(context=apdu)
        ack.vendorID, ack.serviceNumber, ack.resultBlock = 999, 1, self.result
        self.response(ack)


def device(name, inst):
    return LocalDeviceObject(objectName=name, objectIdentifier=("device", inst),
        maxApduLengthAccepted=50, segmentationSupported='segmentedBoth',
        maxSegmentsAccepted=1000, vendorIdentifier=999)


def run(win, nchars):
    tm.reset_time_machine()
    vlan = TamperNetwork(win, broadcast_address=LocalBroadcast())
    client, server = App(device("client", 10), vlan), App(device("server", 20), vlan)
    payload = "y" * nchars
    server.result = Any(CharacterString(payload))
    client.request(ConfirmedPrivateTransferRequest(vendorID=999, serviceNumber=1, destination=server.address))
    states = []
    for _ in range(8):                      # sample the server SSM once per second
        tm.run_time_machine(1.0)
        states += [(SSM.transactionLabels[t.state], t.actualWindowSize) for t in server.smap.serverTransactions]
    tm.run_time_machine(60.0)
    from_server = [f for f in vlan.after if f[0] == '20']
    all_after = vlan.after
    got_data = any(isinstance(a, ConfirmedPrivateTransferACK) for a in client.got)
    aborted_on_wire = any(f[1] == 7 for f in from_server)
    print("SegmentAck window rewritten to %d:" % win)
    print("  server SSM (state, actualWindowSize) sampled each second: %r" % sorted(set(states)))
    print("  frames the server sent afterwards: %d segments, %d aborts" %
          (sum(1 for f in from_server if f[1] == 3), sum(1 for f in from_server if f[1] == 7)))
    print("  client application received: %r" % [type(a).__name__ +
          (":%r" % a.apduAbortRejectReason if a.apduAbortRejectReason is not None else "") for a in client.got])
    return states, all_after, got_data, aborted_on_wire, vlan.tampered

s0, f0, data0, abort0, t0 = run(0, 400)
s1, f1, data1, abort1, t1 = run(200, 8000)
if not (t0 and t1):
    print("UNDECIDED: no SegmentAck seen"); sys.exit(2)

stored0 = any(w == 0 for _, w in s0)
# longest burst of segments the server sent without waiting for an ack (limit is 127)
burst = best = 0
for f in f1:
    burst = burst + 1 if (f[0] == '20' and f[1] == 3) else 0
    best = max(best, burst)
stored200 = best > 127
print("window 0 stored: %r; after the window-200 ack the server sent %d segments back-to-back (legal maximum 127)"
      % (stored0, best))
if stored0 or stored200:
    print("DEFECT PRESENT: out-of-range window size accepted; with 0 the sender sits in SEGMENTED_RESPONSE "
          "sending nothing (range(0)) until it silently gives up, client gets noResponse(65)")
    sys.exit(1)
if (abort0 or data0) and (abort1 or data1):
    print("OK: out-of-range window sizes were refused (abort) or clamped"); sys.exit(0)
print("UNDECIDED"); sys.exit(2)
