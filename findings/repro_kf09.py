#!/venv/bin/python
"""KF-9: appservice.py uses the peer's max-APDU-length-accepted as the segment
DATA size, so every segmented APDU exceeds that maximum by its header octets."""
import sys, logging
sys.path[:0] = ['/repo/py34', '/repo']

from bacpypes.primitivedata import CharacterString
from bacpypes.constructeddata import Any
from bacpypes.comm import bind
from bacpypes.pdu import Address, LocalBroadcast
from bacpypes.vlan import Network, Node
from bacpypes.npdu import NPDU
from bacpypes.apdu import (APDU, ConfirmedPrivateTransferRequest, ConfirmedPrivateTransferACK,
    decode_max_apdu_length_accepted)
from bacpypes.app import Application
from bacpypes.appservice import StateMachineAccessPoint, ApplicationServiceAccessPoint
from bacpypes.netservice import NetworkServiceAccessPoint, NetworkServiceElement
from bacpypes.local.device import LocalDeviceObject
import tests.time_machine as tm

if not tm.time_machine:
    tm.TimeMachine()
tm.reset_time_machine()
for h in logging.getLogger('bacpypes').handlers:
    if isinstance(h, logging.StreamHandler): h.setLevel(logging.CRITICAL + 1)


class WatchNetwork(Network):
    """records (source, apdu type, segmented, APDU length, announced max-resp)"""
    def __init__(self, **kw):
        Network.__init__(self, **kw)
        self.seen = []
    def process_pdu(self, pdu):
        npdu = NPDU(); npdu.decode(pdu.__class__(pdu.pduData, source=pdu.pduSource, destination=pdu.pduDestination))
        apdu_len = len(npdu.pduData)            # the NSDU is exactly the encoded APDU
        apdu = APDU(); apdu.decode(npdu)
        self.seen.append((str(pdu.pduSource), apdu.apduType, bool(apdu.apduSeg), apdu_len, apdu.apduMaxResp))
        Network.process_pdu(self, pdu)


class App(Application):
    def __init__(self, dev, vlan):
        self.address = Address(dev.objectIdentifier[1])
        Application.__init__(self, dev)
        self.asap = ApplicationServiceAccessPoint()
        self.smap = StateMachineAccessPoint(dev)
        self.smap.deviceInfoCache = self.deviceInfoCache
        self.nsap = NetworkServiceAccessPoint()
        self.nse = NetworkServiceElement()
        bind(self.nse, self.nsap)
        bind(self, self.asap, self.smap, self.nsap)
        self.node = Node(self.address, vlan)
        self.nsap.bind(self.node)
        self.result, self.got = None, []
    def confirmation(self, apdu):
        self.got.append(apdu)
    def do_ConfirmedPrivateTransferRequest(self, apdu):
        ack = ConfirmedPrivateTransferACK(context=apdu)
        ack.vendorID, ack.serviceNumber, ack.resultBlock = 999, 1, self.result
        self.response(ack)


def device(name, inst, max_apdu):
    return LocalDeviceObject(objectName=name, objectIdentifier=("device", inst),
        maxApduLengthAccepted=max_apdu, segmentationSupported='segmentedBoth',
        maxSegmentsAccepted=64, vendorIdentifier=999)

vlan = WatchNetwork(broadcast_address=LocalBroadcast())
client = App(device("client", 10, 128), vlan)       # client accepts APDUs up to 128 octets
server = App(device("server", 20, 1024), vlan)
server.result = Any(CharacterString("z" * 700))

client.request(ConfirmedPrivateTransferRequest(vendorID=999, serviceNumber=1, destination=server.address))
tm.run_time_machine(30.0)

req = next(f for f in vlan.seen if f[0] == '10' and f[1] == 0)
announced = decode_max_apdu_length_accepted(req[4])
print("client request announces max-APDU-length-accepted = %d octets" % announced)
segs = [f for f in vlan.seen if f[0] == '20' and f[1] == 3 and f[2]]
print("server answered with %d complex-ack segments; encoded APDU lengths on the wire:" % len(segs))
print("  %r" % [f[3] for f in segs])
print("client application received: %r" % [type(a).__name__ for a in client.got])
if not segs:
    print("UNDECIDED: response was not segmented"); sys.exit(2)
too_long = [f[3] for f in segs if f[3] > announced]
if too_long:
    print("DEFECT PRESENT: %d of %d segments are longer than the %d octets the client said it accepts "
          "(max %d = %d data + %d header octets)" % (len(too_long), len(segs), announced,
          max(too_long), announced, max(too_long) - announced))
    sys.exit(1)
print("OK: every segment fits in the announced maximum APDU length")
sys.exit(0)
