#!/venv/bin/python
"""KF-1: primitivedata.Integer accepts values outside the signed 32-bit range
but encode() masks them to four octets, so they decode to a different value."""
import sys
sys.path[:0] = ['/repo/py34', '/repo']
from bacpypes.primitivedata import Integer, Tag

bad = []
for value in (2**31 - 1, -2**31, 2**31, 2**32 + 5, -2**31 - 1):
    try:
        obj = Integer(value)
    except Exception as err:
        print("Integer(%d): refused by the constructor (%s: %s)" % (value, type(err).__name__, err))
        continue
    tag = Tag()
    try:
        obj.encode(tag)
    except Exception as err:
        print("Integer(%d): refused by encode (%s: %s)" % (value, type(err).__name__, err))
        continue
    back = Integer(tag).value
    print("Integer(%d): encodes to tag data %s, decodes to %d%s"
          % (value, bytes(tag.tagData).hex(), back, "" if back == value else "   <-- MISMATCH"))
    if back != value:
        bad.append((value, back))

if bad:
    print("DEFECT PRESENT: accepted values are silently changed on the wire: %r" % bad)
    sys.exit(1)
print("OK: every accepted value round-trips (or is refused)")
sys.exit(0)
