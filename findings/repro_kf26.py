#!/venv/bin/python
"""KF-26: with all segments sent, ServerSSM.segmented_response and ClientSSM.segmented_request
took ANY in-window segment-ack for the final one.  If a segment in the middle of the last
window is lost, the receiver's negative ack (sequence number = last segment received in
order) is in the window, the sender declares the transfer complete, and the receiver waits
for the missing segments until it aborts: a single lost frame is not repaired."""
import sys
sys.path.insert(0, __file__.rsplit('/', 1)[0])
from seg_harness import *

logged = quiet()
payload = "x" * 650            # 4 segments of a 206-octet APDU: segment 0 alone, then one window 1, 2, 3
bad = 0
for direction, seg_type in (("response", 3), ("request", 0)):
    reset_time()
    lost = {}

    def decide(i, apdu, pdu, seg_type=seg_type, lost=lost):
        # drop (once) the segment with sequence number 2: the middle of the last window
        if apdu.apduType == seg_type and apdu.apduSeg and apdu.apduSeq == 2 and not lost:
            lost['frame'] = i
            return "drop"
        return "ok"

    vlan = WatchedNetwork(decide)
    # the receiving side is patient (6 s) so that a retransmission can arrive before it gives up
    client = App(device("client", 10, tseg=6000 if direction == "response" else 1500), vlan)
    server = App(device("server", 20, tseg=1500 if direction == "response" else 6000), vlan)
    client.smap.proposedWindowSize = server.smap.proposedWindowSize = 4
    req = ConfirmedPrivateTransferRequest(vendorID=999, serviceNumber=1, destination=server.address)
    if direction == "response":
        server.result = Any(CharacterString(payload))
    else:
        server.result = Any(CharacterString("ok"))
        req.serviceParameters = Any(CharacterString(payload))
    print("segmented %s of %d characters (4 segments, window 4); segment 2 is lost once:" % (direction, len(payload)))
    client.request(req)
    tm.run_time_machine(120.0)
    got = [type(a).__name__ + (":%r" % a.apduAbortRejectReason if getattr(a, "apduAbortRejectReason", None) is not None else "") for a in client.got]
    print("  client application received: %r" % got)
    if not lost:
        print("UNDECIDED: the frame to lose never appeared"); sys.exit(2)
    if direction == "response":
        ok = len(client.got) == 1 and isinstance(client.got[0], ConfirmedPrivateTransferACK) and text_of(client.got[0]) == payload
    else:
        ok = len(client.got) == 1 and isinstance(client.got[0], ConfirmedPrivateTransferACK) and len(server.requests) == 1 \
            and server.requests[0].serviceParameters.cast_out(CharacterString) == payload
    print("  -> %s" % ("repaired, payload intact" if ok else "NOT repaired"))
    bad += not ok
if bad:
    print("DEFECT PRESENT: one lost segment in the last window is not repaired (the sender took the negative ack for the final ack)")
    sys.exit(1)
print("OK: in both directions the lost segment was retransmitted and the payload arrived intact")
sys.exit(0)
