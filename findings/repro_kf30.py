#!/venv/bin/python
"""KF-30: Property.WriteProperty validates a whole-array write only when the value is a python
list; any other value that is not an array - for instance the () a Null decodes to - was stored
unchecked.  WriteProperty(Null) to an array property was acknowledged, the array was replaced
by (), and reading the property afterwards answered Error(device, operationalProblem)."""
import sys, logging
sys.path[:0] = ['/repo/py34', '/repo']
logging.getLogger('bacpypes').addHandler(logging.NullHandler()); logging.getLogger('bacpypes').propagate = False
from bacpypes.app import Application
from bacpypes.local.device import LocalDeviceObject
from bacpypes.object import ChannelObject
from bacpypes.service.object import ReadWritePropertyServices
from bacpypes.apdu import WritePropertyRequest, ReadPropertyRequest, SimpleAckPDU, ReadPropertyACK, Error
from bacpypes.errors import RejectException, ExecutionError
from bacpypes.primitivedata import Null, Unsigned
from bacpypes.constructeddata import Any, ArrayOf
from bacpypes.pdu import Address


class App(Application, ReadWritePropertyServices):
    def __init__(self, *a, **k):
        Application.__init__(self, *a, **k); self.sent = []
    def response(self, apdu): self.sent.append(apdu)


dev = LocalDeviceObject(objectName='d', objectIdentifier=('device', 1), maxApduLengthAccepted=1024, segmentationSupported='segmentedBoth', vendorIdentifier=15)
app = App(dev, Address(1))
ch = ChannelObject(objectIdentifier=('channel', 1), objectName='ch', controlGroups=ArrayOf(Unsigned)([1, 2, 3]))
app.add_object(ch)


def do(req):
    req.pduSource = Address(2); req.apduInvokeID = 1
    app.sent = []
    try:
        app.indication(req)
    except RejectException as err:          # the service access point turns these into a Reject PDU
        return "Reject(%s)" % err.rejectReason
    r = app.sent[0]
    return type(r).__name__ + (" (%s, %s)" % (r.errorClass, r.errorCode) if isinstance(r, Error) else "")


w = WritePropertyRequest(objectIdentifier=('channel', 1), propertyIdentifier='controlGroups')
w.propertyValue = Any(); w.propertyValue.cast_in(Null())
res = do(w)
print("WriteProperty(controlGroups = Null)  -> %s" % res)
print("stored afterwards: %r" % (ch.controlGroups if not hasattr(ch.controlGroups, 'value') else ch.controlGroups.value[1:],))
rd = do(ReadPropertyRequest(objectIdentifier=('channel', 1), propertyIdentifier='controlGroups'))
print("ReadProperty(controlGroups)          -> %s" % rd)
unchanged = hasattr(ch.controlGroups, 'value') and ch.controlGroups.value[1:] == [1, 2, 3]
if res.startswith("SimpleAck") or not unchanged or not rd.startswith("ReadPropertyACK"):
    print("DEFECT PRESENT: a value of the wrong kind was accepted for the whole array and destroyed it"); sys.exit(1)
print("OK: the write is refused and the array is unchanged"); sys.exit(0)
