#!/venv/bin/python
"""KF-32: a SubscribeCOV request that carries issueConfirmedNotifications but no lifetime asks for an indefinite
subscription (clause 13.14.1.5).  do_SubscribeCOVRequest handed lifetime=None to Subscription, whose `lifetime > 0`
raised TypeError: the request was answered with Error(device, operationalProblem) and no subscription existed."""
import sys, logging
sys.path[:0] = ['/repo/py34', '/repo']

from bacpypes.comm import bind
from bacpypes.pdu import Address, LocalBroadcast
from bacpypes.vlan import Network, Node
from bacpypes.apdu import (SubscribeCOVRequest, SimpleAckPDU,
    ConfirmedCOVNotificationRequest, UnconfirmedCOVNotificationRequest)
from bacpypes.app import ApplicationIOController
from bacpypes.iocb import IOCB
from bacpypes.appservice import StateMachineAccessPoint, ApplicationServiceAccessPoint
from bacpypes.netservice import NetworkServiceAccessPoint, NetworkServiceElement
from bacpypes.local.device import LocalDeviceObject
from bacpypes.object import AnalogValueObject
from bacpypes.service.cov import ChangeOfValueServices
import tests.time_machine as tm

if not tm.time_machine:
    tm.TimeMachine()
tm.reset_time_machine()
for h in logging.getLogger('bacpypes').handlers:
    if isinstance(h, logging.StreamHandler): h.setLevel(logging.CRITICAL + 1)


class App(ApplicationIOController):
    def __init__(self, name, inst, vlan):
        dev = LocalDeviceObject(objectName=name, objectIdentifier=("device", inst),
            maxApduLengthAccepted=1024, segmentationSupported='noSegmentation', vendorIdentifier=999)
        self.address = Address(inst)
        ApplicationIOController.__init__(self, dev)
        self.asap = ApplicationServiceAccessPoint()
        self.smap = StateMachineAccessPoint(dev)
        self.smap.deviceInfoCache = self.deviceInfoCache
        self.nsap = NetworkServiceAccessPoint()
        self.nse = NetworkServiceElement()
        bind(self.nse, self.nsap)
        bind(self, self.asap, self.smap, self.nsap)
        self.node = Node(self.address, vlan)
        self.nsap.bind(self.node)
        self.log = []
    def confirmation(self, apdu):
        self.log.append((tm.current_time(), type(apdu).__name__, None))
        ApplicationIOController.confirmation(self, apdu)
    # the client side: record every notification
    def do_ConfirmedCOVNotificationRequest(self, apdu):
        self.log.append((tm.current_time(), 'ConfirmedCOVNotification', apdu.timeRemaining))
        self.response(SimpleAckPDU(context=apdu))
    def do_UnconfirmedCOVNotificationRequest(self, apdu):
        self.log.append((tm.current_time(), 'UnconfirmedCOVNotification', apdu.timeRemaining))


vlan = Network(broadcast_address=LocalBroadcast())
client = App("client", 10, vlan)
server = App("server", 20, vlan)
server.add_capability(ChangeOfValueServices)
av = AnalogValueObject(objectIdentifier=('analogValue', 1), objectName='av',
    presentValue=0.0, statusFlags=[0, 0, 0, 0], covIncrement=10.0)
server.add_object(av)


def subscribe(confirmed, lifetime):
    kw = dict(destination=server.address, subscriberProcessIdentifier=1, monitoredObjectIdentifier=('analogValue', 1), issueConfirmedNotifications=confirmed)
    if lifetime is not None:
        kw['lifetime'] = lifetime
    iocb = IOCB(SubscribeCOVRequest(**kw))
    client.request_io(iocb)
    return iocb


def active():
    subs = server.localDevice.ReadProperty('activeCovSubscriptions')
    return [(s.issueConfirmedNotifications, s.timeRemaining) for s in subs]


print("t=0  SubscribeCOV(unconfirmed notifications, no lifetime parameter = indefinite)")
io1 = subscribe(False, None)
tm.run_time_machine(1.0)
r1 = io1.ioResponse or io1.ioError
print("     -> %s %s" % (type(r1).__name__, "(%s, %s)" % (r1.errorClass, r1.errorCode) if hasattr(r1, "errorCode") else ""))
print("     active subscriptions: %r; notifications so far: %r" % (active(), [x for x in client.log if "Notification" in x[1]]))
print("t=1  present value 0.0 -> 50.0")
av.presentValue = 50.0
tm.run_time_machine(2.0)
notes = [x for x in client.log if "Notification" in x[1]]
print("     notifications received: %r" % (notes,))
print("t=3  the same subscriber renews, again without lifetime")
io2 = subscribe(False, None)
tm.run_time_machine(1000.0)
r2 = io2.ioResponse or io2.ioError
print("     -> %s; active subscriptions at t=1003: %r" % (type(r2).__name__, active()))
ok = isinstance(r1, SimpleAckPDU) and isinstance(r2, SimpleAckPDU) and len(notes) >= 2 and active() == [(False, 0)]
if not ok:
    print("DEFECT PRESENT: an indefinite subscription (lifetime omitted) is refused or not kept"); sys.exit(1)
print("OK: acknowledged, initial notification and change notification sent, still subscribed after 1000 s"); sys.exit(0)
