#!/venv/bin/python
"""KF-33: ClientSSM.segmented_confirmation aborts on anything that is not a ComplexAck - also on a segment-ack.
With a segmented request AND a segmented response, the server's final segment-ack for the request can arrive a
second time (one duplicated frame) after the first segment of the response: the client is then already in
SEGMENTED_CONFIRMATION, takes the duplicate for an invalid APDU, aborts the transaction on both sides, and the
application gets AbortPDU(invalidApduInThisState) although every frame of both payloads was delivered."""
import sys
sys.path.insert(0, __file__.rsplit('/', 1)[0])
from seg_harness import *

logged = quiet()
reset_time()
big = "y" * 650
state = {}


class DupNetwork(WatchedNetwork):
    def process_pdu(self, pdu):
        npdu = NPDU(); npdu.decode(pdu.__class__(pdu.pduData, source=pdu.pduSource, destination=pdu.pduDestination))
        apdu = APDU(); apdu.decode(npdu)
        # remember the server's segment-ack that closes the request (more segments = final one is the last seen before the response)
        if apdu.apduType == 4 and apdu.apduSrv and 'dup' not in state:
            state['last_ack'] = pdu.__class__(pdu.pduData, source=pdu.pduSource, destination=pdu.pduDestination)
        WatchedNetwork.process_pdu(self, pdu)
        if apdu.apduType == 3 and apdu.apduSeg and apdu.apduSeq == 0 and 'dup' not in state and 'last_ack' in state:
            state['dup'] = True
            print("  -- the network delivers the server's last segment-ack a second time --")
            WatchedNetwork.process_pdu(self, state['last_ack'])


vlan = DupNetwork(lambda i, apdu, pdu: "ok")
client = App(device("client", 10), vlan)
server = App(device("server", 20), vlan)
req = ConfirmedPrivateTransferRequest(vendorID=999, serviceNumber=1, destination=server.address)
req.serviceParameters = Any(CharacterString(big))
server.result = Any(CharacterString(big))
print("segmented request and segmented response (650 characters each way); one segment-ack is duplicated:")
client.request(req)
tm.run_time_machine(120.0)
got = [type(a).__name__ + (":%r" % a.apduAbortRejectReason if getattr(a, "apduAbortRejectReason", None) is not None else "") for a in client.got]
print("  client application received: %r" % got)
if 'dup' not in state:
    print("UNDECIDED: the frame to duplicate never appeared"); sys.exit(2)
ok = len(client.got) == 1 and isinstance(client.got[0], ConfirmedPrivateTransferACK) and text_of(client.got[0]) == big
print("DEFECT ABSENT: the duplicate was ignored, the payload arrived" if ok else "DEFECT PRESENT: one duplicated frame, and the transaction is aborted")
sys.exit(0 if ok else 1)
