#!/venv/bin/python
"""KF-4: NotificationParametersExtendedParametersType alternative
'propertyValue' (a DeviceObjectPropertyValue SEQUENCE) has no context tag;
Choice.decode raises NotImplementedError when it reaches that alternative."""
import sys
sys.path[:0] = ['/repo/py34', '/repo']
from bacpypes.primitivedata import TagList, Real
from bacpypes.constructeddata import Any
from bacpypes.basetypes import NotificationParametersExtendedParametersType as ParamType, \
    DeviceObjectPropertyValue

elem = next(e for e in ParamType.choiceElements if e.name == 'propertyValue')
print("choice element 'propertyValue': class %s, context tag %r" % (elem.klass.__name__, elem.context))

value = ParamType(propertyValue=DeviceObjectPropertyValue(
    deviceIdentifier=('device', 1), objectIdentifier=('analogValue', 1),
    propertyIdentifier='presentValue', value=Any(Real(1.0))))
taglist = TagList()
value.encode(taglist)
print("encoded to %d tags: %r" % (len(taglist.tagList),
      [(t.tagClass, t.tagNumber, bytes(t.tagData).hex()) for t in taglist.tagList]))

try:
    back = ParamType()
    back.decode(taglist)
except NotImplementedError as err:
    print("decode raised NotImplementedError: %s" % err)
    print("DEFECT PRESENT: what the library encodes for 'propertyValue' cannot be decoded by the library")
    sys.exit(1)
except Exception as err:
    print("decode raised %s: %s" % (type(err).__name__, err))
    print("DEFECT PRESENT: 'propertyValue' alternative does not round-trip")
    sys.exit(1)
pv = back.propertyValue
if pv is None or pv.objectIdentifier != ('analogValue', 1):
    print("UNDECIDED: decoded without error but propertyValue=%r" % (pv,)); sys.exit(2)
print("OK: decoded back to propertyValue with objectIdentifier %r" % (pv.objectIdentifier,))
sys.exit(0)
