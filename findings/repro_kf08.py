#!/venv/bin/python
"""KF-8: core.run_once()/run(): when one deferred function raises, the rest of
the batch that was already detached from core.deferredFns is silently dropped."""
import sys, logging
sys.path[:0] = ['/repo/py34', '/repo']

import bacpypes.core as core
from bacpypes.core import deferred, run_once
import tests.time_machine as tm

if not tm.time_machine:
    tm.TimeMachine()            # the task manager singleton run_once() will use
tm.reset_time_machine()

logged = []
class Grab(logging.Handler):
    def emit(self, record):
        logged.append("%s: %s" % (record.name, record.getMessage()))
logging.getLogger('bacpypes').addHandler(Grab(logging.ERROR))
for h in logging.getLogger('bacpypes').handlers:
    if isinstance(h, logging.StreamHandler): h.setLevel(logging.CRITICAL + 1)

ran = []
def first():  ran.append('first')
def second(): ran.append('second'); raise ValueError("boom in second()")
def third():  ran.append('third')

deferred(first)
deferred(second)
deferred(third)
print("queued with deferred(): first, second (raises ValueError), third")

run_once()
print("after run_once() #1: ran=%r, core.deferredFns=%r" % (ran, core.deferredFns))
print("  logged: %r" % logged)
run_once()
run_once()
print("after two more run_once() calls: ran=%r" % (ran,))

if 'second' not in ran:
    print("UNDECIDED: second() never ran"); sys.exit(2)
if 'third' not in ran:
    print("DEFECT PRESENT: third() was queued before the failure but never ran and is no longer queued")
    sys.exit(1)
print("OK: the failure of second() did not lose third()")
sys.exit(0)
