#!/venv/bin/python
"""KF-13: local/object.py MinOnOffTask holds a new 'active' value for
minimumOffTime and a new 'inactive' value for minimumOnTime (swapped;
135 clause 19.2.3: ACTIVE is held at priority 6 for Minimum_On_Time)."""
import sys, logging
sys.path[:0] = ['/repo/py34', '/repo']
from bacpypes.object import register_object_type
from bacpypes.local.object import BinaryOutputCmdObject
import tests.time_machine as tm

if not tm.time_machine:
    tm.TimeMachine()
for h in logging.getLogger('bacpypes').handlers:
    if isinstance(h, logging.StreamHandler): h.setLevel(logging.CRITICAL + 1)

MIN_ON, MIN_OFF = 10, 3
register_object_type(BinaryOutputCmdObject, vendor_id=999)    # as samples/CommandableMixin.py does


def held_for(first, then):
    """command `first` at priority 8 at t=0, relinquish at t=1 (falls back to
    relinquishDefault == `then`); return how long `first` stayed the present value"""
    tm.reset_time_machine()
    bo = BinaryOutputCmdObject(objectIdentifier=('binaryOutput', 1), objectName='bo',
        presentValue=then, relinquishDefault=then, minimumOnTime=MIN_ON, minimumOffTime=MIN_OFF)
    bo.WriteProperty('presentValue', first, priority=8)
    slot6 = bo.priorityArray[6]
    print("  t=0  write %r @8 -> presentValue=%r, priority 6 slot holds a value: %r"
          % (first, bo.presentValue, slot6.null is None))
    tm.run_time_machine(1.0)
    bo.WriteProperty('presentValue', (), priority=8)
    print("  t=1  relinquish @8 -> presentValue=%r" % bo.presentValue)
    last = None
    for t in range(2, 16):
        tm.run_time_machine(1.0)
        if bo.presentValue == first:
            last = t
    print("  presentValue stayed %r through t=%r, final value %r" % (first, last, bo.presentValue))
    return last

print("BinaryOutputCmdObject with minimumOnTime=%d s, minimumOffTime=%d s" % (MIN_ON, MIN_OFF))
print("turning ON (expected to be held %d s):" % MIN_ON)
on_held = held_for('active', 'inactive')
print("turning OFF (expected to be held %d s):" % MIN_OFF)
off_held = held_for('inactive', 'active')

if on_held is None or off_held is None:
    print("UNDECIDED: minimum on/off mechanism did not engage"); sys.exit(2)
if on_held == MIN_OFF and off_held == MIN_ON:
    print("DEFECT PRESENT: 'active' was held for minimumOffTime (%d s) and 'inactive' for minimumOnTime (%d s)"
          % (MIN_OFF, MIN_ON))
    sys.exit(1)
if on_held == MIN_ON and off_held == MIN_OFF:
    print("OK: 'active' held for minimumOnTime and 'inactive' for minimumOffTime"); sys.exit(0)
print("UNDECIDED: hold times %r / %r match neither pattern" % (on_held, off_held))
sys.exit(2)
