#!/venv/bin/python
"""KF-2: basetypes.SecurityLevel maps two names to the number 4, so one of
them cannot survive an encode/decode round trip (135-2012: signed-end-to-end=4,
encrypted-end-to-end=5)."""
import sys
sys.path[:0] = ['/repo/py34', '/repo']
from bacpypes.primitivedata import Tag
from bacpypes.basetypes import SecurityLevel

print("SecurityLevel.enumerations = %r" % sorted(SecurityLevel.enumerations.items(), key=lambda kv: kv[1]))
bad = []
for name in sorted(SecurityLevel.enumerations, key=SecurityLevel.enumerations.get):
    tag = Tag()
    SecurityLevel(name).encode(tag)
    back = SecurityLevel(tag).value
    print("  %-18s -> octets %s -> %r%s" % (name, bytes(tag.tagData).hex(), back, "" if back == name else "   <-- MISMATCH"))
    if back != name:
        bad.append((name, back))

numbers = list(SecurityLevel.enumerations.values())
dups = sorted(set(n for n in numbers if numbers.count(n) > 1))
if bad or dups:
    print("DEFECT PRESENT: numbers used twice %r; names that come back as another name: %r" % (dups, bad))
    sys.exit(1)
print("OK: every name has its own number and round-trips")
sys.exit(0)
