#!/venv/bin/python
"""KF-27: the side that RECEIVES segments waited only one segment timeout (Tseg) for the next
segment before giving up, which is exactly when the sender retransmits.  With the default
(equal) timeouts on both sides the receiver drops the transaction at the very instant the
retransmission is sent, so the loss of a single segment is never repaired: the retransmitted
segments reach a receiver that has forgotten the transfer.  Clause 5.4 has the receiver wait
four times Tseg."""
import sys
sys.path.insert(0, __file__.rsplit('/', 1)[0])
from seg_harness import *

logged = quiet()
payload = "".join(chr(65 + (i // 50) % 26) for i in range(900))        # 5 segments
bad = 0
for direction, seg_type in (("request", 0), ("response", 3)):
    reset_time()
    lost = {}

    def decide(i, apdu, pdu, seg_type=seg_type, lost=lost):
        if apdu.apduType == seg_type and apdu.apduSeg and apdu.apduSeq == 1 and not lost:
            lost['frame'] = i
            return "drop"
        return "ok"

    vlan = WatchedNetwork(decide, show=False)
    client = App(device("client", 10), vlan)          # default segment timeout (1500 ms) on both sides
    server = App(device("server", 20), vlan)
    req = ConfirmedPrivateTransferRequest(vendorID=999, serviceNumber=1, destination=server.address)
    if direction == "response":
        server.result = Any(CharacterString(payload))
    else:
        server.result = Any(CharacterString("ok"))
        req.serviceParameters = Any(CharacterString(payload))
    print("segmented %s (5 segments, window 2, default timeouts on both sides); segment 1 is lost once:" % direction)
    client.request(req)
    tm.run_time_machine(120.0)
    got = [type(a).__name__ + (":%r" % a.apduAbortRejectReason if getattr(a, "apduAbortRejectReason", None) is not None else "") for a in client.got]
    print("  frames on the wire: %d; client application received: %r" % (vlan.count, got))
    if not lost:
        print("UNDECIDED: the frame to lose never appeared"); sys.exit(2)
    if direction == "response":
        ok = len(client.got) == 1 and isinstance(client.got[0], ConfirmedPrivateTransferACK) and text_of(client.got[0]) == payload
    else:
        ok = len(client.got) == 1 and isinstance(client.got[0], ConfirmedPrivateTransferACK) and len(server.requests) == 1 \
            and server.requests[0].serviceParameters.cast_out(CharacterString) == payload
    print("  -> %s" % ("repaired, payload intact" if ok else "NOT repaired"))
    bad += not ok
if bad:
    print("DEFECT PRESENT: with equal timeouts the receiver gives up when the sender retransmits; one lost segment kills the transfer")
    sys.exit(1)
print("OK: the receiver outlasts the sender's retransmission in both directions")
sys.exit(0)
