"""KF-21: a CHOICE alternative that is a SequenceOf (context tagged, hence wrapped in
opening/closing tags by Choice.encode) could not be decoded: Choice.decode compared
the head tag with the *context* tag class.  exit 1 = defect present."""
import sys
sys.path[:0] = ["/repo/py34", "/repo"]
from bacpypes.basetypes import LogData, LogDataLogData
from bacpypes.primitivedata import TagList
from bacpypes.constructeddata import SequenceOf

ld = LogData(logData=SequenceOf(LogDataLogData)([LogDataLogData(realValue=1.0), LogDataLogData(unsignedValue=7)]))
t = TagList()
ld.encode(t)
print("encoded tags (class, number):", [(x.tagClass, x.tagNumber) for x in t.tagList])
try:
    ld2 = LogData()
    ld2.decode(t)
except Exception as e:
    print("decode failed: %s: %s" % (type(e).__name__, e))
    sys.exit(1)
print("decoded logData with %d entries, %d tags left" % (len(ld2.logData), len(t)))
sys.exit(0 if len(ld2.logData) == 2 and len(t) == 0 else 1)
