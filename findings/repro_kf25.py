#!/venv/bin/python
"""KF-25: a confirmed request whose max-APDU-length-accepted nibble carries a
reserved code (6..15) makes ServerSSM.idle raise ValueError after the transaction
was registered: nothing is sent back, and the transaction stays in
serverTransactions for ever (no timer), so a later valid request with the same
invoke ID from that peer is taken for a duplicate and never answered."""
import sys, logging
sys.path[:0] = ['/repo/py34', '/repo']
from bacpypes.comm import bind
from bacpypes.pdu import Address, PDU
from bacpypes.apdu import APDU, ReadPropertyRequest, AbortPDU, RejectPDU
from bacpypes.appservice import StateMachineAccessPoint
from bacpypes.local.device import LocalDeviceObject
from tests.time_machine import TimeMachine, reset_time_machine, run_time_machine

for h in logging.getLogger('bacpypes').handlers:
    if isinstance(h, logging.StreamHandler): h.setLevel(logging.CRITICAL + 1)

TimeMachine(); reset_time_machine()


from bacpypes.comm import Server, ApplicationServiceElement


class Wire(Server):
    """below the SMAP: what it sends toward the network"""
    def __init__(self):
        Server.__init__(self); self.sent = []
    def indication(self, pdu):
        self.sent.append(pdu)


class Above(ApplicationServiceElement):
    """above the SMAP: requests handed up"""
    def __init__(self):
        ApplicationServiceElement.__init__(self); self.requests = []
    def indication(self, apdu):
        self.requests.append(apdu)
    def confirmation(self, apdu):
        pass


dev = LocalDeviceObject(objectName='d', objectIdentifier=('device', 1), maxApduLengthAccepted=1024,
                        segmentationSupported='segmentedBoth', vendorIdentifier=999)
from bacpypes.app import DeviceInfoCache
smap = StateMachineAccessPoint(localDevice=dev, deviceInfoCache=DeviceInfoCache())
wire, above = Wire(), Above()
bind(smap, wire)          # smap is the client of the wire
bind(above, smap)         # the application layer sits on the SMAP's service access point
peer = Address(7)


def frame(max_resp_code):
    req = ReadPropertyRequest(objectIdentifier=('device', 1), propertyIdentifier='objectName')
    req.apduInvokeID = 5
    req.apduMaxSegs, req.apduMaxResp = 0, 0
    apdu = APDU(); req.encode(apdu)
    pdu = PDU(); apdu.encode(pdu)
    data = bytearray(pdu.pduData)
    data[1] = (data[1] & 0xF0) | max_resp_code
    generic = APDU()
    generic.decode(PDU(bytes(data), source=peer, destination=Address(1)))      # what the network layer hands up
    return generic


print("request 1: ReadProperty, invoke ID 5, max-APDU code 9 (reserved)")
escaped = None
try:
    smap.confirmation(frame(9))
except Exception as err:
    escaped = err
print("   -> %s; frames sent back: %d; requests handed up: %d; live server transactions: %d"
      % ("%s(%s) escaped" % (type(escaped).__name__, escaped) if escaped else "no exception", len(wire.sent), len(above.requests), len(smap.serverTransactions)))
run_time_machine(60.0)
left = len(smap.serverTransactions)
print("after 60 s: live server transactions: %d" % left)
print("request 2: the same request with the valid code 5, same invoke ID")
n_up = len(above.requests)
try:
    smap.confirmation(frame(5))
except Exception as err:
    print("   -> %s escaped" % type(err).__name__)
print("   -> requests handed up: %d" % (len(above.requests) - n_up))
if escaped is not None or left or len(above.requests) - n_up != 1:
    print("DEFECT PRESENT: the first request got no reply and left a transaction behind; the valid request after it is not served")
    sys.exit(1)
print("OK: the reserved code is answered (or treated as a size) and nothing is left behind")
sys.exit(0)
