#!/venv/bin/python
"""KF-5: ServerSSM.segmented_response_timeout -> fill_window while
actualWindowSize is still None (first SegmentAck from the client lost)."""
import sys, logging
sys.path[:0] = ['/repo/py34', '/repo']

from bacpypes.primitivedata import CharacterString
from bacpypes.constructeddata import Any
from bacpypes.comm import bind
from bacpypes.pdu import Address, LocalBroadcast
from bacpypes.vlan import Network, Node
from bacpypes.npdu import NPDU
from bacpypes.apdu import APDU, ConfirmedPrivateTransferRequest, ConfirmedPrivateTransferACK
from bacpypes.app import Application
from bacpypes.appservice import StateMachineAccessPoint, ApplicationServiceAccessPoint
from bacpypes.netservice import NetworkServiceAccessPoint, NetworkServiceElement
from bacpypes.local.device import LocalDeviceObject
import tests.time_machine as tm

if not tm.time_machine:
    tm.TimeMachine()
tm.reset_time_machine()

# capture what the task machinery logs (core.run_once catches and logs)
logged = []
class Grab(logging.Handler):
    def emit(self, record):
        logged.append((record.name, record.exc_info[1] if record.exc_info else record.getMessage()))
logging.getLogger('bacpypes').addHandler(Grab(logging.ERROR))
for h in logging.getLogger('bacpypes').handlers:          # keep stderr quiet
    if isinstance(h, logging.StreamHandler): h.setLevel(logging.CRITICAL + 1)


class LossyNetwork(Network):
    """drops the first SegmentAck (APDU type 4) put on the wire"""
    dropped = 0
    def process_pdu(self, pdu):
        npdu = NPDU(); npdu.decode(pdu.__class__(pdu.pduData, source=pdu.pduSource, destination=pdu.pduDestination))
        apdu = APDU(); apdu.decode(npdu)
        kind = "type=%d seg=%r seq=%r win=%r" % (apdu.apduType, apdu.apduSeg, apdu.apduSeq, apdu.apduWin)
        if apdu.apduType == 4 and not self.dropped:
            self.dropped += 1
            print("  wire %s -> %s  %s   ** DROPPED **" % (pdu.pduSource, pdu.pduDestination, kind))
            return
        print("  wire %s -> %s  %s" % (pdu.pduSource, pdu.pduDestination, kind))
        Network.process_pdu(self, pdu)


class App(Application):
    def __init__(self, dev, vlan):
        self.address = Address(dev.objectIdentifier[1])
        Application.__init__(self, dev)
        self.asap = ApplicationServiceAccessPoint()
        self.smap = StateMachineAccessPoint(dev)
        self.smap.deviceInfoCache = self.deviceInfoCache
        self.nsap = NetworkServiceAccessPoint()
        self.nse = NetworkServiceElement()
        bind(self.nse, self.nsap)
        bind(self, self.asap, self.smap, self.nsap)
        self.node = Node(self.address, vlan)
        self.nsap.bind(self.node)
        self.result = None
        self.got = []
    def confirmation(self, apdu):
        self.got.append(apdu)
    def do_ConfirmedPrivateTransferRequest(self, apdu):
        ack = ConfirmedPrivateTransferACK(context=apdu)
        ack.vendorID, ack.serviceNumber, ack.resultBlock = 999, 1, self.result
        self.response(ack)


def device(name, inst, tseg):
    return LocalDeviceObject(objectName=name, objectIdentifier=("device", inst),
        maxApduLengthAccepted=206, segmentationSupported='segmentedBoth',
        maxSegmentsAccepted=16, vendorIdentifier=999, apduSegmentTimeout=tseg)

vlan = LossyNetwork(broadcast_address=LocalBroadcast())
# the client is patient (Tseg 6 s) so that the server's retry (Tseg 1.5 s) has a chance to arrive
client = App(device("client", 10, 6000), vlan)
server = App(device("server", 20, 1500), vlan)
payload = "x" * 600
server.result = Any(CharacterString(payload))

print("client sends ConfirmedPrivateTransfer; server answers with a %d-char string (segmented);" % len(payload))
print("the network loses the client's first SegmentAck:")
client.request(ConfirmedPrivateTransferRequest(vendorID=999, serviceNumber=1, destination=server.address))
tm.run_time_machine(60.0)

type_errors = [e for _, e in logged if isinstance(e, TypeError)]
print("exceptions logged by the task machinery: %d" % len(logged))
for name, e in logged[:4]:
    print("  %s: %r" % (name, e))
print("client application received: %r" % [type(a).__name__ for a in client.got])
for a in client.got:
    if getattr(a, 'apduAbortRejectReason', None) is not None:
        print("  abort reason: %r (65 = noResponse, generated locally by the client SSM after its own timeout)" % a.apduAbortRejectReason)
print("server transactions still registered: %d" % len(server.smap.serverTransactions))

got_data = any(isinstance(a, ConfirmedPrivateTransferACK) and
               a.resultBlock.cast_out(CharacterString) == payload for a in client.got)
if not vlan.dropped:
    print("UNDECIDED: no SegmentAck was seen on the wire"); sys.exit(2)
if type_errors:
    print("DEFECT PRESENT: retry after a lost first SegmentAck crashed with %r; client got data: %r" % (type_errors[0], got_data))
    sys.exit(1)
if got_data:
    print("OK: the server retransmitted and the client received the full payload")
    sys.exit(0)
print("UNDECIDED: no TypeError but client did not receive the data either")
sys.exit(2)
