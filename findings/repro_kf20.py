#!/venv/bin/python
"""KF-20: local/object.py _Commando.WriteProperty stores the value into the
priority-array slot BEFORE the datatype check of presentValue, so a refused
write still changes the slot."""
import sys
sys.path[:0] = ['/repo/py34', '/repo']
from bacpypes.errors import ExecutionError, InvalidParameterDatatype
from bacpypes.object import register_object_type
from bacpypes.local.object import AnalogValueCmdObject

register_object_type(AnalogValueCmdObject, vendor_id=999)     # as samples/CommandableMixin.py does
av = AnalogValueCmdObject(objectIdentifier=('analogValue', 1), objectName='av',
                          presentValue=1.0, relinquishDefault=1.0)

def slot(i):
    pv = av.priorityArray[i]
    return 'NULL' if pv.null is not None else repr(pv.real)

def write(value, priority):
    try:
        av.WriteProperty('presentValue', value, priority=priority)
        outcome = "accepted"
    except (ExecutionError, InvalidParameterDatatype, ValueError, TypeError) as err:
        outcome = "REFUSED (%s: %s)" % (type(err).__name__, err)
    print("  write %r @%d: %s -> presentValue=%r, slot3=%s, slot8=%s"
          % (value, priority, outcome, av.presentValue, slot(3), slot(8)))
    return outcome == "accepted"

print("AnalogValueCmdObject, presentValue=%r, slot3=%s" % (av.presentValue, slot(3)))
before = slot(3)
ok1 = write('abc', 3)             # wrong datatype for a Real present value
after = slot(3)
ok2 = write(5.0, 8)               # a perfectly valid command at a lower priority
pv_after_valid = av.presentValue
print("  (cleanup) relinquish @3:")
write((), 3)

if ok1:
    print("UNDECIDED: the ill-typed write was accepted"); sys.exit(2)
if after != before:
    print("DEFECT PRESENT: the refused write changed priorityArray[3] from %s to %s; while it sat there the valid "
          "write of 5.0 @8 was %s" % (before, after, "accepted" if ok2 else "refused as well"))
    sys.exit(1)
if not ok2 or pv_after_valid != 5.0:
    print("UNDECIDED: slot unchanged but the valid write did not take effect"); sys.exit(2)
print("OK: the refused write left the priority array untouched")
sys.exit(0)
