#!/venv/bin/python
"""KF-12: service/cov.py criteria_type_map has keys that are not object type
names, so COV-capable value objects cannot be subscribed to."""
import sys, logging
sys.path[:0] = ['/repo/py34', '/repo']
from bacpypes.comm import ServiceAccessPoint, bind
from bacpypes.pdu import Address
from bacpypes.primitivedata import OctetString
from bacpypes.apdu import SubscribeCOVRequest
from bacpypes.errors import ExecutionError
from bacpypes.app import Application
from bacpypes.local.device import LocalDeviceObject
import bacpypes.object as objmod
from bacpypes.object import ObjectType, OctetStringValueObject, CharacterStringValueObject
from bacpypes.service.cov import ChangeOfValueServices, criteria_type_map

for h in logging.getLogger('bacpypes').handlers:
    if isinstance(h, logging.StreamHandler): h.setLevel(logging.CRITICAL + 1)

dead_keys = sorted(k for k in criteria_type_map if k not in ObjectType.enumerations)
print("criteria_type_map keys that are not object type names: %r" % dead_keys)

unsupported = []
for name in sorted(dir(objmod)):
    cls = getattr(objmod, name)
    if isinstance(cls, type) and issubclass(cls, objmod.Object) and cls.__dict__.get('_object_supports_cov'):
        if cls.objectType not in criteria_type_map:
            unsupported.append((name, cls.objectType))
print("classes with _object_supports_cov = True but no criteria_type_map entry:")
for name, otype in unsupported:
    print("  %-28s objectType=%r%s" % (name, otype, "  (commented out as TODO in the map)" if otype == 'accessDoor' else ""))


class Below(ServiceAccessPoint):
    def __init__(self):
        ServiceAccessPoint.__init__(self); self.replies = []
    def sap_indication(self, apdu): pass
    def sap_confirmation(self, apdu): self.replies.append(apdu)

class App(Application, ChangeOfValueServices):
    pass

dev = LocalDeviceObject(objectName="dev", objectIdentifier=("device", 1), maxApduLengthAccepted=1024,
                        segmentationSupported='noSegmentation', vendorIdentifier=999)
app, below = App(dev), Below()
bind(app, below)
app.add_object(OctetStringValueObject(objectIdentifier=('octetstringValue', 1), objectName='osv',
               presentValue=OctetString(b'\x01'), statusFlags=[0, 0, 0, 0]))
app.add_object(CharacterStringValueObject(objectIdentifier=('characterstringValue', 1), objectName='csv',
               presentValue='hello', statusFlags=[0, 0, 0, 0]))

refused = []
for obj_id in (('octetstringValue', 1), ('characterstringValue', 1)):
    req = SubscribeCOVRequest(subscriberProcessIdentifier=1, monitoredObjectIdentifier=obj_id,
                              issueConfirmedNotifications=False, lifetime=0)
    req.pduSource = Address(5); req.apduInvokeID = 1
    try:
        app.do_SubscribeCOVRequest(req)
        print("SubscribeCOV %r: accepted, reply %s" % (obj_id, type(below.replies[-1]).__name__))
    except ExecutionError as err:
        print("SubscribeCOV %r: refused with %s/%s" % (obj_id, err.errorClass, err.errorCode))
        refused.append(obj_id)

real = [u for u in unsupported if u[1] != 'accessDoor']
if dead_keys or real or refused:
    print("DEFECT PRESENT: %d dead keys, %d COV-capable classes unreachable, %d subscriptions refused"
          % (len(dead_keys), len(real), len(refused)))
    sys.exit(1)
print("OK: every key is an object type and the value objects accept SubscribeCOV")
sys.exit(0)
