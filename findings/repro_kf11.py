#!/venv/bin/python
"""KF-11: service/cov.py Subscription.renew_subscription does not store the new
lifetime / issueConfirmedNotifications on the existing subscription."""
import sys, logging
sys.path[:0] = ['/repo/py34', '/repo']

from bacpypes.comm import bind
from bacpypes.pdu import Address, LocalBroadcast
from bacpypes.vlan import Network, Node
from bacpypes.apdu import (SubscribeCOVRequest, SimpleAckPDU,
    ConfirmedCOVNotificationRequest, UnconfirmedCOVNotificationRequest)
from bacpypes.app import ApplicationIOController
from bacpypes.iocb import IOCB
from bacpypes.appservice import StateMachineAccessPoint, ApplicationServiceAccessPoint
from bacpypes.netservice import NetworkServiceAccessPoint, NetworkServiceElement
from bacpypes.local.device import LocalDeviceObject
from bacpypes.object import AnalogValueObject
from bacpypes.service.cov import ChangeOfValueServices
import tests.time_machine as tm

if not tm.time_machine:
    tm.TimeMachine()
tm.reset_time_machine()
for h in logging.getLogger('bacpypes').handlers:
    if isinstance(h, logging.StreamHandler): h.setLevel(logging.CRITICAL + 1)


class App(ApplicationIOController):
    def __init__(self, name, inst, vlan):
        dev = LocalDeviceObject(objectName=name, objectIdentifier=("device", inst),
            maxApduLengthAccepted=1024, segmentationSupported='noSegmentation', vendorIdentifier=999)
        self.address = Address(inst)
        ApplicationIOController.__init__(self, dev)
        self.asap = ApplicationServiceAccessPoint()
        self.smap = StateMachineAccessPoint(dev)
        self.smap.deviceInfoCache = self.deviceInfoCache
        self.nsap = NetworkServiceAccessPoint()
        self.nse = NetworkServiceElement()
        bind(self.nse, self.nsap)
        bind(self, self.asap, self.smap, self.nsap)
        self.node = Node(self.address, vlan)
        self.nsap.bind(self.node)
        self.log = []
    def confirmation(self, apdu):
        self.log.append((tm.current_time(), type(apdu).__name__, None))
        ApplicationIOController.confirmation(self, apdu)
    # the client side: record every notification
    def do_ConfirmedCOVNotificationRequest(self, apdu):
        self.log.append((tm.current_time(), 'ConfirmedCOVNotification', apdu.timeRemaining))
        self.response(SimpleAckPDU(context=apdu))
    def do_UnconfirmedCOVNotificationRequest(self, apdu):
        self.log.append((tm.current_time(), 'UnconfirmedCOVNotification', apdu.timeRemaining))


vlan = Network(broadcast_address=LocalBroadcast())
client = App("client", 10, vlan)
server = App("server", 20, vlan)
server.add_capability(ChangeOfValueServices)
av = AnalogValueObject(objectIdentifier=('analogValue', 1), objectName='av',
    presentValue=0.0, statusFlags=[0, 0, 0, 0], covIncrement=10.0)
server.add_object(av)

def subscribe(confirmed, lifetime):
    client.request_io(IOCB(SubscribeCOVRequest(destination=server.address, subscriberProcessIdentifier=1,
        monitoredObjectIdentifier=('analogValue', 1),
        issueConfirmedNotifications=confirmed, lifetime=lifetime)))

def active():
    subs = server.localDevice.ReadProperty('activeCovSubscriptions')
    return [(s.issueConfirmedNotifications, s.timeRemaining) for s in subs]

print("t=0   SubscribeCOV(process 1, analogValue:1, unconfirmed, lifetime=0 i.e. indefinite)")
subscribe(False, 0)
tm.run_time_machine(5.0)
print("      activeCovSubscriptions (confirmed, timeRemaining): %r" % active())

print("t=5   same subscriber re-subscribes: confirmed notifications, lifetime=100 s")
subscribe(True, 100)
tm.run_time_machine(5.0)
after = active()
print("t=10  activeCovSubscriptions (confirmed, timeRemaining): %r   expected [(True, ~95)]" % after)

av.presentValue = 50.0                      # change of value > covIncrement
tm.run_time_machine(5.0)
tm.run_time_machine(100.0)
print("      presentValue changed 0 -> 50 at t=10; client log (time, what, timeRemaining):")
for entry in client.log:
    print("        %r" % (entry,))
gone = active() == []
print("t=115 subscription list: %r  (%s)" % (active(),
      "expired after 100 s as requested" if gone else "still there"))

if len(after) != 1:
    print("UNDECIDED: expected exactly one subscription, got %r" % after); sys.exit(2)
confirmed_now, remaining = after[0]
notes = [e for e in client.log if e[0] >= 10.0 and 'Notification' in e[1]]
wrong_flag = not confirmed_now or any(e[1].startswith('Unconfirmed') for e in notes)
wrong_time = not (90 <= remaining <= 100)
if wrong_flag or wrong_time:
    print("DEFECT PRESENT: after renewal the subscription still reports confirmed=%r, timeRemaining=%r "
          "(first request's values); the value-change notification was sent as %r; yet it %s at t=105"
          % (confirmed_now, remaining, [e[1] for e in notes], "expired" if gone else "did not expire"))
    sys.exit(1)
print("OK: renewal updated lifetime and notification type")
sys.exit(0)
