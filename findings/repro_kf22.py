#!/venv/bin/python
"""KF-22: DeviceInfoCache.update_device_info() only re-keys records that already
carry _cache_keys; a record built by iam_device_info() from a peer's I-Am is never
put into the cache, so the limits the peer announced are never found again."""
import sys
sys.path[:0] = ['/repo/py34', '/repo']
from bacpypes.app import DeviceInfoCache
from bacpypes.apdu import IAmRequest
from bacpypes.pdu import Address

cache = DeviceInfoCache()
peer = Address("192.168.0.5")
iam = IAmRequest(iAmDeviceIdentifier=('device', 12), maxAPDULengthAccepted=50,
                 segmentationSupported='noSegmentation', vendorID=15)
iam.pduSource = peer
print("peer %s announces I-Am: device 12, max APDU 50, no segmentation" % peer)
cache.iam_device_info(iam)
by_addr = cache.get_device_info(peer)
by_id = cache.get_device_info(12)
print("get_device_info(address) -> %r" % (by_addr,))
print("get_device_info(12)      -> %r" % (by_id,))
if by_addr is None or by_id is None:
    print("DEFECT PRESENT: the announced limits were dropped; a request to this peer is sized by our own maximum")
    sys.exit(1)
if by_addr is not by_id or by_addr.maxApduLengthAccepted != 50 or by_addr.segmentationSupported != 'noSegmentation':
    print("UNDECIDED: record found but not what was announced"); sys.exit(2)
# a second I-Am from a new address re-keys, it does not duplicate
iam.pduSource = Address("192.168.0.9")
cache.iam_device_info(iam)
if cache.get_device_info(peer) is not None or cache.get_device_info(Address("192.168.0.9")) is not by_id:
    print("UNDECIDED: re-keying after an address change is wrong"); sys.exit(2)
print("OK: record cached under both keys (max APDU %r) and re-keyed on address change" % by_addr.maxApduLengthAccepted)
sys.exit(0)
