#!/venv/bin/python
"""KF-19: local/schedule.py match_date_range compares raw tuples, so a range
whose start date is unspecified (X'FF' wildcard octets = 'from the beginning
of time', 135 clause 12.24.6 / BACnetDateRange) never matches."""
import sys
sys.path[:0] = ['/repo/py34', '/repo']
from bacpypes.basetypes import DateRange
from bacpypes.local.schedule import match_date_range

today = (120, 6, 15, 1)          # Monday 15-Jun-2020 as a BACnet date tuple
ANY = (255, 255, 255, 255)
cases = [
    ("start 1-Jan-2020, end 31-Dec-2020", DateRange(startDate=(120, 1, 1, 255), endDate=(120, 12, 31, 255)), True),
    ("start 1-Jan-2021, end 31-Dec-2021", DateRange(startDate=(121, 1, 1, 255), endDate=(121, 12, 31, 255)), False),
    ("start unspecified, end 31-Dec-2020", DateRange(startDate=ANY, endDate=(120, 12, 31, 255)), True),
    ("start unspecified, end unspecified", DateRange(startDate=ANY, endDate=ANY), True),
    ("start unspecified, end 31-Dec-2019", DateRange(startDate=ANY, endDate=(119, 12, 31, 255)), False),
    ("start 1-Jan-2020, end unspecified", DateRange(startDate=(120, 1, 1, 255), endDate=ANY), True),
]
print("date under test: %r" % (today,))
wrong = []
for label, date_range, expected in cases:
    try:
        got = match_date_range(today, date_range)
    except Exception as err:
        got = "%s: %s" % (type(err).__name__, err)
    flag = "" if got == expected else "   <-- WRONG"
    print("  %-36s -> %-5r expected %r%s" % (label, got, expected, flag))
    if got != expected:
        wrong.append(label)

if cases[0][0] in wrong or cases[1][0] in wrong:
    print("UNDECIDED: fully specified ranges are mis-evaluated too"); sys.exit(2)
if wrong:
    print("DEFECT PRESENT: open-ended ranges mis-evaluated: %r" % wrong)
    sys.exit(1)
print("OK: unspecified start/end dates are treated as open ends")
sys.exit(0)
