#!/venv/bin/python
"""KF-16: netservice.RouterInfoCache.delete_router_info(snet, address=None,
dnets=[...]) references the undefined name existing_router_info -> NameError."""
import sys
sys.path[:0] = ['/repo/py34', '/repo']
from bacpypes.pdu import Address
from bacpypes.netservice import RouterInfoCache

cache = RouterInfoCache()
router = Address(7)
cache.update_router_info(1, router, [10, 20])
print("cache: router %s on net 1 reaches dnets %r" % (router, sorted(cache.routers[1][router].dnets)))
print("paths: %r" % sorted(cache.path_info))

print("calling delete_router_info(1, dnets=[10])  (no router address: 'forget the path to net 10')")
try:
    cache.delete_router_info(1, dnets=[10])
except NameError as err:
    print("  -> NameError: %s" % err)
    print("DEFECT PRESENT: the dnets-only form of delete_router_info cannot run")
    sys.exit(1)
except Exception as err:
    print("  -> %s: %s" % (type(err).__name__, err))
    print("UNDECIDED: unexpected exception"); sys.exit(2)

left = sorted(cache.path_info)
print("  -> returned; remaining paths %r, router dnets %r" % (left,
      sorted(cache.routers.get(1, {}).get(router).dnets) if router in cache.routers.get(1, {}) else None))
if (1, 10) in cache.path_info or (1, 20) not in cache.path_info:
    print("UNDECIDED: call returned but the cache content is not what was asked for"); sys.exit(2)
print("OK: path to net 10 removed, path to net 20 kept")
sys.exit(0)
