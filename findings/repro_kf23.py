#!/venv/bin/python
"""KF-23: ClientSSM/ServerSSM.__init__ hand the DeviceInfo record to
DeviceInfoCache.acquire(), whose contract is an int or Address key: as soon as the
cache knows a peer, every transaction with that peer dies with TypeError."""
import sys
sys.path[:0] = ['/repo/py34', '/repo']
from bacpypes.app import DeviceInfoCache, DeviceInfo
from bacpypes.appservice import StateMachineAccessPoint, ClientSSM, ServerSSM
from bacpypes.local.device import LocalDeviceObject
from bacpypes.pdu import Address

peer = Address("192.168.0.5")
cache = DeviceInfoCache()
info = DeviceInfo(12, peer)
info.maxApduLengthAccepted = 50
info.segmentationSupported = 'noSegmentation'
cache.cache[12] = info
cache.cache[peer] = info
cache.update_device_info(info)
print("cache knows peer %s (device 12, max APDU 50)" % peer)

dev = LocalDeviceObject(objectName='d', objectIdentifier=('device', 1), maxApduLengthAccepted=1024,
                        segmentationSupported='segmentedBoth', vendorIdentifier=999)
sap = StateMachineAccessPoint(localDevice=dev, deviceInfoCache=cache)
bad = 0
for cls in (ClientSSM, ServerSSM):
    try:
        ssm = cls(sap, peer)
    except TypeError as err:
        print("%s(sap, peer) -> TypeError: %s" % (cls.__name__, err)); bad += 1
        continue
    print("%s(sap, peer) -> device_info.maxApduLengthAccepted=%r, ref count %r" % (cls.__name__, ssm.device_info.maxApduLengthAccepted, info._ref_count))
if bad:
    print("DEFECT PRESENT: no transaction can be started with a peer whose limits are known")
    sys.exit(1)
if info._ref_count != 2:
    print("UNDECIDED: reference count %r after two acquisitions" % info._ref_count); sys.exit(2)
print("OK: both state machines acquire the cached record")
sys.exit(0)
