#!/venv/bin/python
"""KF-28: a required list that is the last element of a sequence decodes to [] when the data
simply ends, but Sequence.decode raised MissingRequiredParameter when the sequence sits inside
context tags and the closing tag comes next.  An AtomicReadFile-ACK (record access) returning
zero records therefore encoded fine (1e 31 00 21 00 1f) and could not be decoded."""
import sys
sys.path[:0] = ['/repo/py34', '/repo']
from bacpypes.comm import PDUData
from bacpypes.primitivedata import TagList
from bacpypes.apdu import AtomicReadFileACKAccessMethodChoice, AtomicReadFileACKAccessMethodRecordAccess
from bacpypes.errors import MissingRequiredParameter

bad = 0
for records in ([], [b'x'], [b'a', b'bc']):
    value = AtomicReadFileACKAccessMethodChoice(recordAccess=AtomicReadFileACKAccessMethodRecordAccess(
        fileStartRecord=0, returnedRecordCount=len(records), fileRecordData=list(records)))
    tl = TagList(); value.encode(tl)
    data = PDUData(); tl.encode(data)
    octets = bytes(data.pduData)
    tl2 = TagList(); tl2.decode(PDUData(octets))
    back = AtomicReadFileACKAccessMethodChoice()
    try:
        back.decode(tl2)
    except MissingRequiredParameter as err:
        print("%d record(s): %s -> decode raises MissingRequiredParameter: %s" % (len(records), octets.hex(), err)); bad += 1
        continue
    got = [bytes(x) for x in back.recordAccess.fileRecordData]
    tl3 = TagList(); back.encode(tl3); d3 = PDUData(); tl3.encode(d3)
    same = got == [bytes(x) for x in records] and bytes(d3.pduData) == octets
    print("%d record(s): %s -> decodes to %r, re-encodes %s" % (len(records), octets.hex(), got, "identically" if same else "DIFFERENTLY"))
    bad += not same
if bad:
    print("DEFECT PRESENT: an empty list inside a context-wrapped sequence does not survive encode/decode"); sys.exit(1)
print("OK: lists of length 0, 1 and 2 round-trip"); sys.exit(0)
