#!/venv/bin/python
"""KF-3: basetypes.PropertyStates declares choice 'writeStatus' with context
tag 370; a tag number must fit one octet (0..254), so it cannot be encoded."""
import sys
sys.path[:0] = ['/repo/py34', '/repo']
from bacpypes.pdu import PDUData
from bacpypes.primitivedata import TagList
from bacpypes.basetypes import PropertyStates

elem = next(e for e in PropertyStates.choiceElements if e.name == 'writeStatus')
print("PropertyStates element 'writeStatus' has context tag number %r" % elem.context)

taglist = TagList()
PropertyStates(writeStatus='inProgress').encode(taglist)
print("encoded to tag list: %r" % [(t.tagClass, t.tagNumber, bytes(t.tagData).hex()) for t in taglist.tagList])

problem = None
try:
    data = PDUData()
    taglist.encode(data)
    octets = bytes(data.pduData)
    print("octets: %s" % octets.hex())
    back_tags = TagList()
    back_tags.decode(PDUData(octets))
    back = PropertyStates()
    back.decode(back_tags)
    print("decoded back: writeStatus=%r" % back.writeStatus)
    if back.writeStatus != 'inProgress':
        problem = "round trip gave %r" % (back.writeStatus,)
except Exception as err:
    problem = "%s: %s" % (type(err).__name__, err)
    print("encoding/decoding failed with %s" % problem)

if problem or not (0 <= elem.context <= 254):
    print("DEFECT PRESENT: PropertyStates(writeStatus=...) cannot be put on the wire (%s)" % problem)
    sys.exit(1)
print("OK: writeStatus encodes and round-trips")
sys.exit(0)
