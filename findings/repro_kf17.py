#!/venv/bin/python
"""KF-17: netservice.RouterInfoCache.delete_router_info(snet, address, dnets)
with a SUBSET of the router's dnets drops the whole router record but leaves
path_info entries for the other dnets pointing at it."""
import sys
sys.path[:0] = ['/repo/py34', '/repo']
from bacpypes.pdu import Address
from bacpypes.netservice import RouterInfoCache

cache = RouterInfoCache()
router = Address(7)
cache.update_router_info(1, router, [10, 20, 30])
print("before: routers on net 1: %r; paths: %r" % (list(cache.routers[1]), sorted(cache.path_info)))

print("delete_router_info(1, %s, [10])   (router says net 10 is no longer reachable through it)" % router)
cache.delete_router_info(1, router, [10])

known = router in cache.routers.get(1, {})
paths = sorted(cache.path_info)
print("after:  router record still present: %r; paths: %r" % (known, paths))
info20 = cache.get_router_info(1, 20)
print("get_router_info(1, 20) -> %s" % (("router %s, dnets %r" % (info20.address, sorted(info20.dnets))) if info20 else None))

if (1, 10) in cache.path_info:
    print("UNDECIDED: path to net 10 was not removed"); sys.exit(2)
dangling = [p for p in paths if cache.path_info[p] not in cache.routers.get(1, {}).values()]
stale_dnet = bool(info20) and 10 in info20.dnets
if dangling or stale_dnet or not known:
    print("DEFECT PRESENT: router record deleted=%r, paths pointing at a forgotten router: %r, "
          "net 10 still listed in its dnets: %r" % (not known, dangling, stale_dnet))
    # consequence: the next I-Am-Router-To-Network creates a second record for the same router
    cache.update_router_info(1, router, [40])
    print("  after update_router_info(1, %s, [40]): paths (1,20) and (1,40) share one record: %r"
          % (router, cache.get_router_info(1, 20) is cache.get_router_info(1, 40)))
    sys.exit(1)
print("OK: only net 10 was removed; router and its other paths are consistent")
sys.exit(0)
