#!/venv/bin/python
"""KF-29: do_ReadPropertyRequest converts every value of a List property with datatype(value),
but a list property that was written over the wire is stored as a ListOf instance already and
ListOf(<ListOf instance>) raises TypeError: after an acknowledged WriteProperty of a list
property, ReadProperty answers Error(device, operationalProblem) while ReadPropertyMultiple
(which has no such branch) returns the value."""
import sys, logging
sys.path[:0] = ['/repo/py34', '/repo']
from bacpypes.app import Application
from bacpypes.local.device import LocalDeviceObject
from bacpypes.object import NotificationForwarderObject
from bacpypes.service.object import ReadWritePropertyServices, ReadWritePropertyMultipleServices
from bacpypes.apdu import WritePropertyRequest, ReadPropertyRequest, ReadPropertyMultipleRequest, ReadAccessSpecification, PropertyReference, \
    SimpleAckPDU, ReadPropertyACK, ReadPropertyMultipleACK, Error
from bacpypes.basetypes import EventNotificationSubscription, Recipient
from bacpypes.constructeddata import Any, ListOf
from bacpypes.pdu import Address

for h in logging.getLogger('bacpypes').handlers:
    if isinstance(h, logging.StreamHandler): h.setLevel(logging.CRITICAL + 1)
logging.getLogger('bacpypes').addHandler(logging.NullHandler()); logging.getLogger('bacpypes').propagate = False


class App(Application, ReadWritePropertyServices, ReadWritePropertyMultipleServices):
    def __init__(self, *a, **k):
        Application.__init__(self, *a, **k); self.sent = []
    def response(self, apdu): self.sent.append(apdu)
    def request(self, apdu): self.sent.append(apdu)


dev = LocalDeviceObject(objectName='d', objectIdentifier=('device', 1), maxApduLengthAccepted=1024, segmentationSupported='segmentedBoth', vendorIdentifier=15)
app = App(dev, Address(1))
nf = NotificationForwarderObject(objectIdentifier=('notificationForwarder', 1), objectName='nf', subscribedRecipients=[])
app.add_object(nf)


def do(req):
    req.pduSource = Address(2); req.apduInvokeID = 1
    app.sent = []
    app.indication(req)
    return app.sent[0] if app.sent else None


es = EventNotificationSubscription(recipient=Recipient(device=('device', 5)), processIdentifier=3, issueConfirmedNotifications=False, timeRemaining=60)
w = WritePropertyRequest(objectIdentifier=('notificationForwarder', 1), propertyIdentifier='subscribedRecipients')
w.propertyValue = Any(); w.propertyValue.cast_in(ListOf(EventNotificationSubscription)([es]))
ack = do(w)
print("WriteProperty(subscribedRecipients = [one subscription]) -> %s" % type(ack).__name__)
rp = do(ReadPropertyRequest(objectIdentifier=('notificationForwarder', 1), propertyIdentifier='subscribedRecipients'))
print("ReadProperty -> %s %s" % (type(rp).__name__, "(%s, %s)" % (rp.errorClass, rp.errorCode) if isinstance(rp, Error) else ""))
rpm = do(ReadPropertyMultipleRequest(listOfReadAccessSpecs=[ReadAccessSpecification(objectIdentifier=('notificationForwarder', 1),
         listOfPropertyReferences=[PropertyReference(propertyIdentifier='subscribedRecipients')])]))
el = rpm.listOfReadAccessResults[0].listOfResults[0].readResult if isinstance(rpm, ReadPropertyMultipleACK) else None
print("ReadPropertyMultiple -> %s, element %s" % (type(rpm).__name__, "carries a value" if el is not None and el.propertyValue is not None else "carries an error"))
if not isinstance(ack, SimpleAckPDU) or el is None or el.propertyValue is None:
    print("UNDECIDED: the write or the multiple read did not work as expected"); sys.exit(2)
if not isinstance(rp, ReadPropertyACK):
    print("DEFECT PRESENT: the acknowledged write cannot be read back with ReadProperty (and ReadPropertyMultiple disagrees with it)"); sys.exit(1)
got = rp.propertyValue.cast_out(ListOf(EventNotificationSubscription))
same = len(got) == 1 and got[0].processIdentifier == 3 and got[0].timeRemaining == 60
print("ReadProperty value: %d subscription(s), process id %r" % (len(got), got[0].processIdentifier if got else None))
sys.exit(0 if same else 2)
