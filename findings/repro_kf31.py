#!/venv/bin/python
"""KF-31: LocalScheduleObject registered its reliability check AFTER the interpreter's
schedule_changed monitor.  When a schedule that started with a configuration error is repaired
by writing a valid weeklySchedule, the interpreter is called first, still sees
configurationError and returns; the reliability then becomes noFaultDetected but nobody
evaluates the schedule again: the present value is never updated and the task is never armed."""
import sys, logging
sys.path[:0] = ['/repo/py34', '/repo']
from bacpypes.primitivedata import Null, Real, Integer
from bacpypes.constructeddata import ArrayOf
from bacpypes.basetypes import DailySchedule, DateRange, TimeValue
from bacpypes.app import Application
from bacpypes.local.device import LocalDeviceObject
from bacpypes.local.schedule import LocalScheduleObject
import tests.time_machine as tm

if not tm.time_machine:
    tm.TimeMachine()
tm.reset_time_machine(start_time="1970-01-01")
logging.getLogger('bacpypes').addHandler(logging.NullHandler()); logging.getLogger('bacpypes').propagate = False


def week(value):
    return ArrayOf(DailySchedule)([DailySchedule(daySchedule=[TimeValue(time=(8, 0, 0, 0), value=value), TimeValue(time=(17, 0, 0, 0), value=Null())])] * 7)


app = Application(LocalDeviceObject(objectName="dev", objectIdentifier=('device', 1), maxApduLengthAccepted=1024,
                                    segmentationSupported='segmentedBoth', vendorIdentifier=999))
so = LocalScheduleObject(objectIdentifier=('schedule', 1), objectName='sched', presentValue=Real(-1.0),
                         effectivePeriod=DateRange(startDate=(0, 1, 1, 1), endDate=(254, 12, 31, 2)),
                         weeklySchedule=week(Integer(8)),            # Integer entries against a Real default: configuration error
                         scheduleDefault=Real(0.0))
app.add_object(so)
tm.run_time_machine(stop_time="1970-01-01 09:00:00")
print("09:00, Integer entries vs Real default: reliability=%s presentValue=%r scheduled=%r" % (so.reliability, so.presentValue.value, so._task.isScheduled))
if so.reliability != 'configurationError':
    print("UNDECIDED: the mismatching configuration was not flagged"); sys.exit(2)
so.weeklySchedule = week(Real(8))
print("weeklySchedule replaced by a valid one: reliability=%s scheduled=%r" % (so.reliability, so._task.isScheduled))
tm.run_time_machine(stop_time="1970-01-02 09:00:00")
pv = so.presentValue.value
print("next day 09:00 (after the 08:00 entry): presentValue=%r (expected 8.0) scheduled=%r" % (pv, so._task.isScheduled))
if so.reliability != 'noFaultDetected':
    print("UNDECIDED: the repair was not recognised"); sys.exit(2)
if pv != 8.0 or not so._task.isScheduled:
    print("DEFECT PRESENT: the repaired schedule stays dead"); sys.exit(1)
print("OK: the repaired schedule runs"); sys.exit(0)
