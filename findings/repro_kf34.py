#!/venv/bin/python
"""KF-34: two of the twenty commandable classes, DateTimeValueCmdObject and DateTimePatternValueCmdObject, could not be
created at all: _Commando.__init__ computes its default value as datatype().value, and DateTime (a Sequence) has no
`value`.  With the repair the object exists and obeys the priority-array rule like the others."""
import os, sys
_SRC = os.environ.get("BACPYPES_SRC", "/repo/py34")
sys.path[:0] = [_SRC, os.path.dirname(_SRC)]
from bacpypes.local.object import DateTimeValueCmdObject, DateTimePatternValueCmdObject
from bacpypes.object import register_object_type
from bacpypes.basetypes import DateTime
from bacpypes.primitivedata import Null

bad = 0
for k, t in ((DateTimeValueCmdObject, 'datetimeValue'), (DateTimePatternValueCmdObject, 'datetimePatternValue')):
    register_object_type(k, vendor_id=999)
    try:
        o = k(objectIdentifier=(t, 1), objectName="x")
    except AttributeError as e:
        print("%s(...) raises AttributeError: %s" % (k.__name__, e))
        bad += 1
        continue
    v8 = DateTime(date=(120, 1, 1, 3), time=(8, 0, 0, 0))
    v3 = DateTime(date=(121, 2, 2, 2), time=(9, 0, 0, 0))
    o.WriteProperty('presentValue', v8, priority=8)
    o.WriteProperty('presentValue', v3, priority=3)
    a = o.presentValue.date
    o.WriteProperty('presentValue', Null(), priority=3)
    b = o.presentValue.date
    o.WriteProperty('presentValue', Null(), priority=8)
    c = o.presentValue.date
    ok = a == (121, 2, 2, 2) and b == (120, 1, 1, 3) and c is None
    print("%s: created; write@8, write@3 -> %r; relinquish@3 -> %r; relinquish@8 -> default %r   %s" % (k.__name__, a, b, c, "ok" if ok else "WRONG"))
    bad += not ok
print("DEFECT PRESENT" if bad else "DEFECT ABSENT")
sys.exit(1 if bad else 0)
