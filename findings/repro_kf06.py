#!/venv/bin/python
"""KF-6: SSM.fill_window(self.initialSequenceNumber) uses the 8-bit sequence
number as the segment index, so a transfer of more than 256 segments starts
again at segment 0 after segment 255."""
import sys, logging
sys.path[:0] = ['/repo/py34', '/repo']

from bacpypes.primitivedata import OctetString
from bacpypes.constructeddata import Any
from bacpypes.comm import bind
from bacpypes.pdu import Address, LocalBroadcast
from bacpypes.vlan import Network, Node
from bacpypes.npdu import NPDU
from bacpypes.apdu import APDU, ConfirmedPrivateTransferRequest, ConfirmedPrivateTransferACK
from bacpypes.app import Application
from bacpypes.appservice import StateMachineAccessPoint, ApplicationServiceAccessPoint
from bacpypes.netservice import NetworkServiceAccessPoint, NetworkServiceElement
from bacpypes.local.device import LocalDeviceObject
import tests.time_machine as tm

if not tm.time_machine:
    tm.TimeMachine()
tm.reset_time_machine()
for h in logging.getLogger('bacpypes').handlers:
    if isinstance(h, logging.StreamHandler): h.setLevel(logging.CRITICAL + 1)

FRAME_CAP = 2000        # a correct transfer needs ~400 frames; stop a runaway loop


class WatchNetwork(Network):
    """records every complex-ack segment; cuts the wire after FRAME_CAP frames"""
    def __init__(self, **kw):
        Network.__init__(self, **kw)
        self.frames, self.segments = 0, []      # segments: (seq, data)
    def process_pdu(self, pdu):
        self.frames += 1
        if self.frames > FRAME_CAP:
            return
        npdu = NPDU(); npdu.decode(pdu.__class__(pdu.pduData, source=pdu.pduSource, destination=pdu.pduDestination))
        apdu = APDU(); apdu.decode(npdu)
        if apdu.apduType == 3 and apdu.apduSeg:
            self.segments.append((apdu.apduSeq, bytes(apdu.pduData)))
        Network.process_pdu(self, pdu)


class App(Application):
    def __init__(self, dev, vlan):
        self.address = Address(dev.objectIdentifier[1])
        Application.__init__(self, dev)
        self.asap = ApplicationServiceAccessPoint()
        self.smap = StateMachineAccessPoint(dev)
        self.smap.deviceInfoCache = self.deviceInfoCache
        self.nsap = NetworkServiceAccessPoint()
        self.nse = NetworkServiceElement()
        bind(self.nse, self.nsap)
        bind(self, self.asap, self.smap, self.nsap)
        self.node = Node(self.address, vlan)
        self.nsap.bind(self.node)
        self.result, self.got = None, []
    def confirmation(self, apdu):
        self.got.append(apdu)
    def do_ConfirmedPrivateTransferRequest(self, apdu):
        ack = ConfirmedPrivateTransferACK(context=apdu)
        ack.vendorID, ack.serviceNumber, ack.resultBlock = 999, 1, self.result
        self.response(ack)


def device(name, inst):
    # maxSegmentsAccepted > 64 is announced as "unspecified" (0b111 -> None at the peer)
    return LocalDeviceObject(objectName=name, objectIdentifier=("device", inst),
        maxApduLengthAccepted=50, segmentationSupported='segmentedBoth',
        maxSegmentsAccepted=1000, vendorIdentifier=999)

vlan = WatchNetwork(broadcast_address=LocalBroadcast())
client = App(device("client", 10), vlan)
server = App(device("server", 20), vlan)
payload = b''.join(b'%05d' % i for i in range(2700))      # 13500 distinct octets
server.result = Any(OctetString(payload))

print("server answers a ConfirmedPrivateTransfer with %d octets; client max APDU 50 -> >256 segments" % len(payload))
client.request(ConfirmedPrivateTransferRequest(vendorID=999, serviceNumber=1, destination=server.address))
tm.run_time_machine(120.0)

segs = vlan.segments
print("frames put on the wire: %d%s; complex-ack segments seen: %d"
      % (vlan.frames, " (cut at %d)" % FRAME_CAP if vlan.frames > FRAME_CAP else "", len(segs)))
seen, dup = {}, None
for i, (seq, data) in enumerate(segs):
    if data in seen:
        dup = (i, seq, seen[data]); break
    seen[data] = i
if len(segs) <= 256:
    print("UNDECIDED: fewer than 257 segments were sent"); sys.exit(2)
restarted = dup is not None
if dup:
    i, seq, j = dup
    print("no frame was lost, yet wire segment #%d (seq=%d) carries data %r..." % (i, seq, segs[i][1][:15]))
    print("  which is a re-send of wire segment #%d (seq=%d); segment #%d carried %r..."
          % (j, segs[j][0], i - 1, segs[i - 1][1][:15]))
    print("  -> after wrapping, sequence number %d was used as the segment index" % seq)
else:
    print("all %d segments carried distinct data (no restart)" % len(segs))

print("client application received: %r" % [type(a).__name__ for a in client.got])
ok = False
for a in client.got:
    if isinstance(a, ConfirmedPrivateTransferACK):
        data = a.resultBlock.cast_out(OctetString)
        ok = (data == payload)
        print("  result block: %d octets, equal to what the server sent: %r" % (len(data), ok))
    elif hasattr(a, 'apduAbortRejectReason'):
        print("  abort/reject reason %r" % a.apduAbortRejectReason)

if ok and not restarted:
    print("OK: >256-segment payload delivered intact"); sys.exit(0)
print("DEFECT PRESENT: after seq 255 the sender went back to the start of the payload (and never finishes); payload not delivered intact")
sys.exit(1)
