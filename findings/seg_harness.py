"""Two application stacks on a virtual LAN whose frames can be watched, dropped or rewritten
(used by the segmentation repro scripts).  Uses only the library's public classes and the
test suite's time machine."""
import sys, logging, os
_SRC = os.environ.get("BACPYPES_SRC", "/repo/py34")          # default: the working tree; BACPYPES_SRC selects another checkout
sys.path[:0] = [_SRC, os.path.dirname(_SRC)]

from bacpypes.primitivedata import CharacterString
from bacpypes.constructeddata import Any
from bacpypes.comm import bind
from bacpypes.pdu import Address, LocalBroadcast
from bacpypes.vlan import Network, Node
from bacpypes.npdu import NPDU
from bacpypes.apdu import APDU, ConfirmedPrivateTransferRequest, ConfirmedPrivateTransferACK
from bacpypes.app import Application
from bacpypes.appservice import StateMachineAccessPoint, ApplicationServiceAccessPoint
from bacpypes.netservice import NetworkServiceAccessPoint, NetworkServiceElement
from bacpypes.local.device import LocalDeviceObject
import tests.time_machine as tm


def quiet():
    logged = []

    class Grab(logging.Handler):
        def emit(self, record):
            logged.append((record.name, record.exc_info[1] if record.exc_info else record.getMessage()))
    logging.getLogger('bacpypes').addHandler(Grab(logging.ERROR))
    for h in logging.getLogger('bacpypes').handlers:
        if isinstance(h, logging.StreamHandler):
            h.setLevel(logging.CRITICAL + 1)
    return logged


def reset_time():
    if not tm.time_machine:
        tm.TimeMachine()
    tm.reset_time_machine()


class WatchedNetwork(Network):
    """calls decide(index, apdu, pdu) for every frame; 'drop' loses it, anything else delivers it"""
    def __init__(self, decide, show=True):
        Network.__init__(self, broadcast_address=LocalBroadcast())
        self.decide, self.show, self.count, self.log = decide, show, 0, []

    def process_pdu(self, pdu):
        npdu = NPDU(); npdu.decode(pdu.__class__(pdu.pduData, source=pdu.pduSource, destination=pdu.pduDestination))
        apdu = APDU(); apdu.decode(npdu)
        self.count += 1
        verdict = self.decide(self.count, apdu, pdu)
        kind = "type=%d seg=%r mor=%r seq=%r win=%r nak=%r" % (apdu.apduType, apdu.apduSeg, apdu.apduMor, apdu.apduSeq, apdu.apduWin, apdu.apduNak)
        self.log.append((self.count, str(pdu.pduSource), str(pdu.pduDestination), kind, verdict))
        if self.show:
            print("  wire #%d %s -> %s  %s%s" % (self.count, pdu.pduSource, pdu.pduDestination, kind, "   ** DROPPED **" if verdict == "drop" else ""))
        if verdict == "drop":
            return
        Network.process_pdu(self, pdu)


class App(Application):
    def __init__(self, dev, vlan):
        self.address = Address(dev.objectIdentifier[1])
        Application.__init__(self, dev)
        self.asap = ApplicationServiceAccessPoint()
        self.smap = StateMachineAccessPoint(dev)
        self.smap.deviceInfoCache = self.deviceInfoCache
        self.nsap = NetworkServiceAccessPoint()
        self.nse = NetworkServiceElement()
        bind(self.nse, self.nsap)
        bind(self, self.asap, self.smap, self.nsap)
        self.node = Node(self.address, vlan)
        self.nsap.bind(self.node)
        self.result = None
        self.got = []
        self.requests = []

    def confirmation(self, apdu):
        self.got.append(apdu)

    def do_ConfirmedPrivateTransferRequest(self, apdu):
        self.requests.append(apdu)
        ack = ConfirmedPrivateTransferACK(context=apdu)
        ack.vendorID, ack.serviceNumber, ack.resultBlock = 999, 1, self.result
        self.response(ack)


def device(name, inst, tseg=1500, max_apdu=206, window=None, max_segs=64):
    d = LocalDeviceObject(objectName=name, objectIdentifier=("device", inst), maxApduLengthAccepted=max_apdu, segmentationSupported='segmentedBoth',
                          maxSegmentsAccepted=max_segs, vendorIdentifier=999, apduSegmentTimeout=tseg)
    return d


def text_of(ack):
    return ack.resultBlock.cast_out(CharacterString)
