#!/venv/bin/python
"""KF-14: pdu.Address(net, addr) (two-argument form) accepts network numbers
outside 1..65534 that the string form and RemoteStation() refuse."""
import sys
sys.path[:0] = ['/repo/py34', '/repo']
from bacpypes.pdu import Address, RemoteStation, PDU
from bacpypes.npdu import NPDU

def attempt(label, fn):
    try:
        addr = fn()
        print("  %-26s accepted -> %s (addrNet=%r)" % (label, addr, addr.addrNet))
        return addr
    except (ValueError, TypeError) as err:
        print("  %-26s refused  (%s: %s)" % (label, type(err).__name__, err))
        return None

print("reference behaviour of the other constructors:")
attempt("Address('70000:5')", lambda: Address('70000:5'))
attempt("RemoteStation(70000, 5)", lambda: RemoteStation(70000, 5))
attempt("Address('65535:5')", lambda: Address('65535:5'))
print("two-argument form:")
accepted = []
for net in (70000, 65535, -1):
    a = attempt("Address(%d, 5)" % net, lambda: Address(net, 5))
    if a is not None:
        accepted.append(net)
good = attempt("Address(65534, 5)", lambda: Address(65534, 5))

if 70000 in accepted:        # show what such an address does further down the stack
    npdu = NPDU(); npdu.npduDADR = Address(70000, 5); npdu.npduHopCount = 255
    npdu.pduData = b''
    try:
        pdu = PDU(); npdu.encode(pdu)
        print("  NPDU with DADR 70000:5 encodes to %s (DNET octets %s)" % (bytes(pdu.pduData).hex(), bytes(pdu.pduData)[2:4].hex()))
    except Exception as err:
        print("  NPDU with DADR 70000:5 fails to encode: %s: %s" % (type(err).__name__, err))

if good is None:
    print("UNDECIDED: valid network 65534 refused"); sys.exit(2)
if accepted:
    print("DEFECT PRESENT: Address(net, addr) accepted out-of-range network numbers %r" % accepted)
    sys.exit(1)
print("OK: out-of-range network numbers are refused by the two-argument form")
sys.exit(0)
