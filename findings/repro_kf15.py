#!/venv/bin/python
"""KF-15: pdu.Address with settings.route_aware: __hash__ includes addrRoute
but __eq__ ignores it unless both sides have one -> a == b, hash(a) != hash(b)."""
import sys
sys.path[:0] = ['/repo/py34', '/repo']
from bacpypes.settings import settings
from bacpypes.pdu import Address

settings.route_aware = True
a = Address("1:5@10.0.0.1")       # station 5 on net 1, reached via router 10.0.0.1
b = Address("1:5")                # same station, route not known
print("route_aware=%r  a=%s (addrRoute=%s)  b=%s (addrRoute=%s)" % (settings.route_aware, a, a.addrRoute, b, b.addrRoute))
if a.addrRoute is None:
    print("UNDECIDED: route-aware address form not parsed"); sys.exit(2)

eq, same_hash = (a == b and b == a), hash(a) == hash(b)
print("a == b: %r    hash(a) == hash(b): %r" % (eq, same_hash))
table = {a: "device info for 1:5"}
print("dict keyed by a, lookup with b: %r ; len({a, b}) = %d" % (table.get(b), len({a, b})))

# transitivity also breaks: c has a different route
c = Address("1:5@10.0.0.2")
print("c=%s: a == b %r, b == c %r, a == c %r" % (c, a == b, b == c, a == c))

if eq and not same_hash:
    print("DEFECT PRESENT: equal addresses hash differently (dict/set lookups miss, e.g. DeviceInfoCache keyed by Address)")
    sys.exit(1)
if not eq or same_hash:
    print("OK: __eq__ and __hash__ are consistent for these addresses"); sys.exit(0)
