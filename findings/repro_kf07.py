#!/venv/bin/python
"""KF-7: malformed confirmed-request parameters make the decoder raise
AttributeError / DecodingError instead of a Reject/Abort exception, so
ApplicationServiceAccessPoint.indication lets it escape and no reply is sent."""
import sys, logging
sys.path[:0] = ['/repo/py34', '/repo']

from bacpypes.comm import ApplicationServiceElement, ServiceAccessPoint, bind
from bacpypes.pdu import Address
from bacpypes.apdu import ConfirmedRequestPDU, RejectPDU, AbortPDU
from bacpypes.appservice import ApplicationServiceAccessPoint

for h in logging.getLogger('bacpypes').handlers:
    if isinstance(h, logging.StreamHandler): h.setLevel(logging.CRITICAL + 1)


class AppStub(ApplicationServiceElement):
    """sits above the ASAP, sees successfully decoded requests"""
    def __init__(self):
        ApplicationServiceElement.__init__(self)
        self.requests = []
    def indication(self, apdu):
        self.requests.append(apdu)
    def confirmation(self, apdu):
        pass


class StackStub(ServiceAccessPoint):
    """sits below the ASAP (where the StateMachineAccessPoint is), sees replies"""
    def __init__(self):
        ServiceAccessPoint.__init__(self)
        self.replies = []
    def sap_indication(self, apdu):
        self.replies.append(apdu)
    def sap_confirmation(self, apdu):
        self.replies.append(apdu)


app, asap, below = AppStub(), ApplicationServiceAccessPoint(), StackStub()
bind(app, asap)
bind(asap, below)

# (service choice, description, service-request octets)
CASES = [
    (26, "ReadRange, final closing tag 3F of 'range' cut off",
         "0c05000001" "1983" "3e" "2101" "3102"),
    (26, "ReadRange, 'range' wrapped in opening/closing tag 0 instead of the choice tags 3/6/7",
         "0c05000001" "1983" "0e" "2101" "3102" "0f"),
    (14, "ReadPropertyMultiple, cut off right after opening tag 1E",
         "0c00800001" "1e"),
    (15, "WriteProperty, closing tag 3F of propertyValue replaced by 0E (opening tag 0)",
         "0c00800001" "1955" "3e" "443f800000" "0e" "4903"),
]

failures = 0
for n, (service, what, octets) in enumerate(CASES, 1):
    apdu = ConfirmedRequestPDU(service)
    apdu.apduInvokeID = n
    apdu.pduSource = Address(1)
    apdu.put_data(bytes.fromhex(octets))
    before = len(below.replies)
    print("%d. service %d: %s\n   request data %s" % (n, service, what, octets))
    escaped = None
    try:
        asap.indication(apdu)
    except Exception as err:                       # anything escaping = no reply path
        escaped = err
    new = below.replies[before:]
    if escaped is not None:
        print("   -> %s(%s) escaped from ApplicationServiceAccessPoint.indication; replies sent: %d"
              % (type(escaped).__name__, escaped, len(new)))
    else:
        print("   -> no exception; replies sent: %r" % [type(r).__name__ + ":%r" % r.apduAbortRejectReason for r in new])
    if escaped is not None or not any(isinstance(r, (RejectPDU, AbortPDU)) for r in new):
        failures += 1

print("requests that reached the application: %d" % len(app.requests))
if app.requests:
    print("UNDECIDED: a malformed request was decoded successfully"); sys.exit(2)
if failures:
    print("DEFECT PRESENT: %d of %d malformed requests got no Reject/Abort reply (client would time out)"
          % (failures, len(CASES)))
    sys.exit(1)
print("OK: every malformed request was answered with a Reject or Abort")
sys.exit(0)
