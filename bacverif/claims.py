"""What MANIFEST.json claims per property (text kept next to the rules)."""

_NOTE = ("Trusted base: CPython ast; the reference tables written into the rules (from the BACnet standard) ; "
         "known_findings.json triage. Assumes py34/bacpypes is the shipped tree and `if _debug:`/logger statements are effect free. "
         "Rules are necessary conditions; behaviour over runtime values (see 'not decided' in DESIGN.md) is not claimed.")

CLAIMS = {
    "C04": dict(
        text="Typestate of the confirmed-request machinery decided on every structured path of the current source: "
             "client handlers deliver an outcome iff they enter a terminal state and at most once (effect summaries through helper calls); "
             "terminal states are final, stop the timer, unregister the transaction and release device info; every waiting state has a configured timeout and a dispatched handler; "
             "retries are counted against numberOfApduRetries; IOCB completion/abort is idempotent and advances the queue. "
             "Not a proof of exactly-once delivery under loss/reordering, which quantifies over runtime histories.",
        technique="path enumeration + typestate/effect summaries + guard value-sets over the AST",
        note=_NOTE),
}

_PENDING = "check not built yet in this round (static rules are designed in DESIGN.md section 3)"
NOT_APPLICABLE = {("C%02d" % i): _PENDING for i in range(1, 21)}
