"""What MANIFEST.json claims per property (text kept next to the rules)."""

_NOTE = ("Trusted base: CPython ast; the reference tables written into the rules (from the BACnet standard) ; "
         "known_findings.json triage. Assumes py34/bacpypes is the shipped tree and `if _debug:`/logger statements are effect free. "
         "Rules are necessary conditions; behaviour over runtime values (see 'not decided' in DESIGN.md) is not claimed.")

CLAIMS = {
    "C04": dict(
        text="Typestate of the confirmed-request machinery decided on every structured path of the current source: "
             "client handlers deliver an outcome iff they enter a terminal state and at most once (effect summaries through helper calls); "
             "terminal states are final, stop the timer, unregister the transaction and release device info; every waiting state has a configured timeout and a dispatched handler; "
             "retries are counted against numberOfApduRetries; IOCB completion/abort is idempotent and advances the queue. "
             "Not a proof of exactly-once delivery under loss/reordering, which quantifies over runtime histories.",
        technique="path enumeration + typestate/effect summaries + guard value-sets over the AST",
        note=_NOTE),
}

CLAIMS.update({
    "C03": dict(
        text="Decided for every one of the ~230 sequence/choice tables and 58 registered PDUs of the current source: tables are well-formed for the generic codec, "
             "LL(1)-deterministic against the decoder's real dispatch (FIRST sets), context numbers unique and ascending, registries complete and numbered as the service-choice enumerations say, "
             "the generic Sequence/Choice encode and decode agree branch by branch on head-tag class/number and open/close pairing (path-sensitive), trailing data is refused, "
             "and wire signatures / enumeration numbers have not drifted from the reviewed reference. Octet equality with Annex F and value equality after decode are runtime quantities and are not claimed.",
        technique="AST table evaluation (schema/LL(1) analysis) + path analysis of the generic interpreter + frozen wire-signature reference",
        note=_NOTE),
    "C05": dict(
        text="Structural necessary conditions of segmented transfer decided on all paths: one stride for counting and slicing, modulo-256 arithmetic on every sequence-number expression, "
             "flags/window field of each segment (finite-domain evaluation of the stored expressions), in-order guard dominating append_segment with negative ack otherwise, delivery only after the last segment, "
             "window-bounded bursts, None-typestate of the window size in retransmission handlers, and sequence-number-vs-index kinds. Payload equality under arbitrary fault patterns is not claimed.",
        technique="path enumeration + guard value-sets + finite-domain expression evaluation + field typestate",
        note=_NOTE),
    "C10": dict(
        text="Reply discipline decided structurally: the two request dispatchers convert every Reject/Abort/Execution/other failure they catch into exactly one reply with the request's context (abstract walk over all paths), "
             "every confirmed-service handler replies exactly once per normal path (effect summaries), handler names match registered request classes, every error literal is a member of ErrorClass/ErrorCode, "
             "and deferred calls are isolated from each other. Absence of residue after arbitrary garbage sequences is not claimed.",
        technique="path enumeration with a small abstract state + effect summaries + registry/enumeration table agreement",
        note=_NOTE),
    "C11": dict(
        text="All nine transaction lookups are shown to match on invoke ID AND peer address (truth-table evaluation of the match condition), each inbound PDU type searches the right list by direction flag and is handed to the found transaction, "
             "misses are ignored, allocation is modulo 256 over IDs not live toward that peer, registration precedes execution, and duplicate requests are not re-delivered. Wrap-around over histories is not claimed.",
        technique="guard truth-table evaluation + path enumeration per PDU type",
        note=_NOTE),
    "C12": dict(
        text="Capability decision tables of ClientSSM.indication / ServerSSM.confirmation / idle / await_confirmation are enumerated over all combinations of own and peer segmentation support, max-segments and segment counts and compared with the standard's outcome (send or the matching abort); "
             "segment size is bounded by every limit it is derived from; peer limits are taken from the request header and I-Am; window negotiation is min(proposed, own). Header allowance and window range checks are known findings. Frame lengths for concrete payloads are not claimed.",
        technique="finite-domain guard evaluation over path enumeration (decision-table extraction) + dataflow of limit sources",
        note=_NOTE),
    "C14": dict(
        text="Heap ownership (who-may-write), key shape with monotone tie-breaker, isScheduled pairing with push/pop/delete on every path, suspend-before-push on re-install, pop only when when<=now (value-set of the guard), "
             "re-install only for recurring tasks with positive interval, exact-arithmetic evaluation of the next-slot formula extracted per path, per-call isolation and FIFO/batching shape of the deferred queue. Floating-point results and orderings over generated histories are not claimed.",
        technique="who-may-write + path pairing rules + guard value-sets + exact rational evaluation of the extracted formula",
        note=_NOTE),
})

_PENDING = "check not built yet in this round (static rules are designed in DESIGN.md section 3)"
NOT_APPLICABLE = {("C%02d" % i): _PENDING for i in range(1, 21)}
