"""What MANIFEST.json claims per property (text kept next to the rules)."""

_NOTE = ("Trusted base: CPython ast; the reference tables written into the rules (from the BACnet standard) ; "
         "known_findings.json triage. Assumes py34/bacpypes is the shipped tree and `if _debug:`/logger statements are effect free. "
         "Rules are necessary conditions; behaviour over runtime values (see 'not decided' in DESIGN.md) is not claimed.")

CLAIMS = {
    "C04": dict(
        text="Typestate of the confirmed-request machinery decided on every structured path of the current source: "
             "client handlers deliver an outcome iff they enter a terminal state and at most once (effect summaries through helper calls); "
             "terminal states are final, stop the timer, unregister the transaction and release device info; every waiting state has a configured timeout and a dispatched handler; "
             "retries are counted against numberOfApduRetries; IOCB completion/abort is idempotent and advances the queue. "
             "Not a proof of exactly-once delivery under loss/reordering, which quantifies over runtime histories."
             " Also decided: the IOCB's own timeout is re-armed without leaving the previous task scheduled; timer helpers may delegate to each other.",
        technique="path enumeration + typestate/effect summaries + guard value-sets over the AST",
        note=_NOTE),
}

CLAIMS.update({
    "C03": dict(
        text="Decided for every one of the ~230 sequence/choice tables and 58 registered PDUs of the current source: tables are well-formed for the generic codec, "
             "LL(1)-deterministic against the decoder's real dispatch (FIRST sets), context numbers unique and ascending, registries complete and numbered as the service-choice enumerations say, "
             "the generic Sequence/Choice encode and decode agree branch by branch on head-tag class/number and open/close pairing (path-sensitive), trailing data is refused, "
             "and wire signatures / enumeration numbers have not drifted from the reviewed reference. Octet equality with Annex F and value equality after decode are runtime quantities and are not claimed."
             " Also decided: NameValue's hand-written decoder consumes and stores a present value on every feasible path (a Date becomes a DateTime only before a Time); no arm of the wire coders' class dispatch is shadowed by an earlier arm for a base class (MRO); APCISequence encodes into / decodes from a tag list created in that very call."
             " Further: each element of a list gets a tag created in its own pass of the encoder loop; the generic encoder skips an element only when its value is None (an empty list is sent as an empty group).",
        technique="AST table evaluation (schema/LL(1) analysis) + path analysis of the generic interpreter + frozen wire-signature reference",
        note=_NOTE),
    "C05": dict(
        text="Structural necessary conditions of segmented transfer decided on all paths: one stride for counting and slicing, modulo-256 arithmetic on every sequence-number expression, "
             "flags/window field of each segment (finite-domain evaluation of the stored expressions), in-order guard dominating append_segment with negative ack otherwise, delivery only after the last segment, "
             "window-bounded bursts, None-typestate of the window size in retransmission handlers, and sequence-number-vs-index kinds. Payload equality under arbitrary fault patterns is not claimed."
             " Also decided: a lost reply makes the client hand the whole saved request to indication() again (not segment 0 alone); a duplicated segment-ack is ignored while the confirmation is awaited (the same duplicate one state later is known finding KF-33)."
             " Further: an in-window segment-ack, positive or negative, makes the sender go on (only an ack outside the window is ignored).",
        technique="path enumeration + guard value-sets + finite-domain expression evaluation + field typestate",
        note=_NOTE),
    "C10": dict(
        text="Reply discipline decided structurally: the two request dispatchers convert every Reject/Abort/Execution/other failure they catch into exactly one reply with the request's context (abstract walk over all paths), "
             "every confirmed-service handler replies exactly once per normal path (effect summaries), handler names match registered request classes, every error literal is a member of ErrorClass/ErrorCode, "
             "and deferred calls are isolated from each other. Absence of residue after arbitrary garbage sequences is not claimed."
             " Also decided: implicit refusals of the header code tables (a table shorter than the field's value range raises IndexError) count as refusals that ServerSSM.idle must answer."
             " Further: the capability decision tables of the server transaction (shared with C12.R2): an answer the client cannot take is aborted, never segmented toward a client that accepts no segments; no test that reads an invoke ID tells 0 from another ID (a request numbered 0 is answered like any other).",
        technique="path enumeration with a small abstract state + effect summaries + registry/enumeration table agreement",
        note=_NOTE),
    "C11": dict(
        text="All nine transaction lookups are shown to match on invoke ID AND peer address (truth-table evaluation of the match condition), each inbound PDU type searches the right list by direction flag and is handed to the found transaction, "
             "misses are ignored, allocation is modulo 256 over IDs not live toward that peer, registration precedes execution, and duplicate requests are not re-delivered; the per-peer request queues of the application serialise requests and are forgotten only when idle (shared with C04.R6). Wrap-around over histories is not claimed."
             " Further: who-may-call of the IOCB controller's completion helpers (an outcome reaches an IOCB only from its own transaction).",
        technique="guard truth-table evaluation + path enumeration per PDU type",
        note=_NOTE),
    "C12": dict(
        text="Capability decision tables of ClientSSM.indication / ServerSSM.confirmation / idle / await_confirmation are enumerated over all combinations of own and peer segmentation support, max-segments and segment counts and compared with the standard's outcome (send or the matching abort); "
             "segment size is bounded by every limit it is derived from; peer limits are taken from the request header and I-Am, a record learned from an I-Am is stored under both cache keys and the state machines acquire it with a key of the kind acquire() accepts; window negotiation is min(proposed, own) and one burst asks for exactly actualWindowSize consecutive segments (evaluated from the loop, whatever its spelling). Header allowance and window range checks are known findings. Frame lengths for concrete payloads are not claimed."
             " Also decided: every accepted I-Am refreshes the peer's limits and the cache on every path; a segmented request starts with no window (None or 1) and a timeout before the first segment-ack repeats a single segment."
             " Further: a retry of a request passes the capability decision again.",
        technique="finite-domain guard evaluation over path enumeration (decision-table extraction) + dataflow of limit sources",
        note=_NOTE),
    "C14": dict(
        text="Heap ownership (who-may-write), key shape with monotone tie-breaker, isScheduled pairing with push/pop/delete on every path, suspend-before-push on re-install, pop only when when<=now (value-set of the guard), "
             "re-install only for recurring tasks with positive interval, exact-arithmetic evaluation of the next-slot formula extracted per path, per-call isolation and FIFO/batching shape of the deferred queue. Floating-point results and orderings over generated histories are not claimed."
             " Also decided: every logger used inside an except handler of core.py belongs to a function or class the debugging decorator equips (an undecorated helper would raise inside the handler)."
             " Further: tasks parked before the task manager existed are handed over in installation order.",
        technique="who-may-write + path pairing rules + guard value-sets + exact rational evaluation of the extracted formula",
        note=_NOTE),
})

CLAIMS.update({
    "C01": dict(
        text="Structural clauses decided for all 13 primitives: each class encodes under and only decodes from its own application tag number (truth table of the decode guard over all classes/numbers), "
             "width/format/byte-order agreement of encode and decode, length guards, two's-complement sign extension and big-endian accumulation (expression tables), the 10+22 object-identifier split on both sides, "
             "the BOOLEAN special case in both tag conversions, no mask reachable by an unrepresentable value (guard value-sets), injectivity of all ~90 enumerations and bit-name tables, and the shortest-form strip loops "
             "(which (len, d0, d1) combinations delete the leading octet). Equality of arbitrary values after a round trip (floats, character sets) is a runtime quantity and is not claimed."
             " Also decided: a bit string holds only 0/1 (every element store evaluated over truthy/falsy samples; the constructor's list guard; the decoder's appends)."
             " Further: a character string is sent as its stored octets under its stored character set; an enumeration class builds its own name table.",
        technique="guard value-sets + finite-domain evaluation of codec expressions + table injectivity over the AST",
        note=_NOTE),
    "C02": dict(
        text="Tag.encode / Tag.decode are extracted into per-branch symbolic layouts and compared with clause 20.2.1 for every class x tag number x length boundary (and with each other); buffer reads are shown bounded by their length guards, "
             "every read of Tag.decode lies in the try that maps DecodingError to InvalidTag, the tag-list decoder consumes one tag per iteration, and open/close level counting (+1/-1, stop when negative, refuse imbalance) is decided per tag class on the loop paths. "
             "List equality after a round trip for arbitrary octet strings is not claimed.",
        technique="codec layout extraction (symbolic per-branch wire items) + finite-domain evaluation against the reference layout + guard value-sets",
        note=_NOTE),
    "C07": dict(
        text="For each of the eight PDU types and every flag combination, with every header field varied over values that exercise each of its bits, the octets APCI.encode emits (extracted symbolically per branch) equal clause 20.1.2-20.1.9, "
             "and APCI.decode restores exactly those fields from the reference octets and hands on the untouched payload; unknown types are refused on both sides; code tables equal the standard's and the encoders scan downward returning the first value <= capability; "
             "the header field set is identical in __init__/update/debug contents.",
        technique="codec layout extraction + finite-domain evaluation against the clause 20.1 reference + table/loop-shape rules",
        note=_NOTE),
    "C08": dict(
        text="NPCI.encode/decode are extracted per branch and compared with clause 6.2.2 over destination kinds x source x message-type classes x flags; forbidden/truncated headers are shown to reach only DecodingError raises; "
             "each of the twelve message bodies is checked by trace agreement (same order, widths, fields, loop structure, counted routing table with its length octets) and against clause 6.4 widths; the registry is complete and consistent."
             " Also decided: every multi-octet read of the decoders goes through PDUData.get_data (bounded, consuming, big endian; shared with C02.R2), so a truncated field raises DecodingError.",
        technique="codec layout extraction + encode/decode trace agreement + reference layout tables",
        note=_NOTE),
    "C09": dict(
        text="BVLCI layout and both length checks (value-sets over declared length vs payload), symbolic octet count of every function's encoder equal to the length expression it declares (constructor and re-computation), "
             "encode/decode trace agreement incl. table entries and the six-octet address width, pack/unpack_ip_addr format agreement, and the function registry against Annex J.2."
             " Also decided: every multi-octet read of the decoders goes through PDUData.get_data (bounded, consuming, big endian; shared with C02.R2), so a truncated frame raises DecodingError."
             " Further: every 16-bit port is accepted by the address/port form the decoders build addresses with.",
        technique="codec layout extraction + symbolic octet counting + trace agreement",
        note=_NOTE),
})

CLAIMS.update({
    "C06": dict(
        text="Structural necessary conditions of the routing property on NetworkServiceAccessPoint.process_npdu / indication and the service element: every forwarding send is dominated by the hop-count test and the decrement and uses a copy; "
             "no send toward the arrival adapter is reachable (identity guards evaluated); SADR preserved or built from (arrival net, link source); last-hop rewriting; the process/forward decision table extracted per destination kind equals clause 6.5; "
             "outbound addressing is exhaustive, unknown routes park + Who-Is-Router, I-Am-Router releases parked packets; Who-Is-Router is never answered for a network reached through the asking network; the routing cache the forwarder consults stays coherent (shared with C19.R2/R3). Exactly-once delivery over topologies is not claimed."
             " Also decided: no adapter is chosen by a router record's own, never renumbered source-network field; Who-Is-Router for a network reached through the asking network is not answered, also when the guards are merged.",
        technique="guard dominance + decision-table extraction by finite-domain guard evaluation + path enumeration",
        note=_NOTE),
    "C13": dict(
        text="The BBMD's forwarding matrix is extracted per inbound function (who gets the packet under which guard, with which originator) and compared with Annex J.4.5; foreign and simple node rules; all four node types test all twelve functions; "
             "foreign-device table ageing (TTL + grace on every registration path, one-second tick, removal at zero, descending scan) and the foreign node's renewal / tracking (re-armed by every acknowledgement) / unregister timers and the typestate of its registration status (register() leaves every result-ignoring state); each forwarding is reachable for every way the message can arrive. Exactly-once and instants of expiry over layouts are not claimed."
             " Also decided: every result 0 from the BBMD, also one that repeats the current status, restarts the expiry tracking (paths with the status store followed).",
        technique="forwarding-matrix extraction from guards and loop structure + exhaustiveness + path rules",
        note=_NOTE),
    "C15": dict(
        text="Validate-before-mutate on every path of Property.WriteProperty, the writable name/identifier properties and the commandable mix-in; the refusal table (error class/code per failure) in the property classes, both service handlers and the RPM element builder; "
             "array index value-sets (0 = length, 1..n, IndexError otherwise); sibling normal form of the ReadProperty and ReadPropertyMultiple value conversions and selector polarity; the request's identifier / index / priority reach obj.ReadProperty / obj.WriteProperty; per-specification results are built fresh in every loop pass (definite-assignment and stale-accumulator dataflow); error literals; drift of all 1650 (object type, property) datatypes and conformance codes."
             " Further: a write is refused as unknown property only when reading the property yields None, not for a false value; a commanded value reads back (the present value is the lowest-numbered non-null slot whatever its truth value; shared with C17.R2).",
        technique="path rules (validate-before-mutate) + guard value-sets + sibling normal form + frozen property reference",
        note=_NOTE),
    "C16": dict(
        text="Both subscribe handlers acknowledge exactly once and defer exactly one initial notification on every non-cancel path; one record per (address, process, object) by truth table of the match; renewal re-times and records the request-derived fields the reporters read (dataflow) and both renewal call sites pass them; "
             "expiry/cancel cleanup; one deferred execution per change burst; inclusive increment threshold (expression table); every COV-capable object type has a criteria class whose properties it declares. Notification counts over timelines are not claimed."
             " Further: a renewal stores the confirmed flag whenever given (True or False); overriding criteria chain to the nearest definition in the MRO; the reported value is remembered on every notification path.",
        technique="path enumeration + guard truth tables + field dataflow + table agreement",
        note=_NOTE),
    "C17": dict(
        text="Slot writes are reachable only for array indexes 1..16 with the prescribed refusals for 0 and out-of-range; the winner scan visits 1..16 ascending and stops at the first non-null slot, else the relinquish default; each slot update sets exactly one of (null, value); "
             "the winner is recomputed and written through the base class; the commanded value is validated before the slot changes; minimum on/off association and priority 6; mix-in order of all 21 commandable classes. Values after arbitrary histories are not claimed."
             " Further: all twenty commandable classes can be constructed (default value exists for the datatype); every hold at priority 6 gets its own release time; no slot is replaced by a shared object; the WriteProperty service does not refuse a false current value.",
        technique="guard value-sets + path rules + MRO analysis",
        note=_NOTE),
    "C18": dict(
        text="Every store of a network number and every one-octet station pack in pdu.py is shown dominated by its range test (value sets of the guards, with regex-derived sources known non-negative); fields hashed vs fields compared unconditionally, and the hashed octets are an immutable bytes object owned by the address (never the caller's buffer); "
             "all typed constructors set all five fields; Address(net, addr) turns exactly a local station / local broadcast into the remote kind on that network and refuses the rest (values followed on every path of the arm); the printer is exhaustive over the six address types; mask/host/subnet/broadcast expressions are evaluated against IPv4 arithmetic for all 33 mask lengths. Print/parse round trips are not claimed."
             " Also decided: every pattern the parser matches a text against is anchored at its end."
             " Further: every 16-bit port is accepted by the tuple form; the hash fields are judged per mode (route awareness on / off).",
        technique="guard value-sets at every sink + field-set comparison + finite-domain expression evaluation",
        note=_NOTE),
    "C19": dict(
        text="Scope resolution of every function of the package (no unbound global reads); the router map and path index are updated together on every loop path of the mutators, a new record is entered under the keys the map is read with (source network, router address), and a router record disappears only when empty; every path-index key uses the network the router map is indexed by in that call and a path is dropped only for a destination the edited router owns; displacement precedes adoption; renumbering re-keys both indexes; the two learning sites pass (arrival network, link source, networks). Coherence after arbitrary histories is not claimed."
             " Also decided: a router record's own source-network field, which renumbering does not refresh, is not read as a network number.",
        technique="symtable scope resolution + paired-update path rules",
        note=_NOTE),
    "C20": dict(
        text="Return shapes of eval() vs how callers unpack them; every date matcher tests a pattern field for the unspecified octet before a lower-bound comparison (sibling rule); the special-octet tables of match_date / match_weeknday are extracted by evaluating the branch guards for every month, day and week-of-month value against clause 21; "
             "evaluation order, inclusive time comparison, Null handling, winner selection, weekday index; the timer is re-armed at the computed transition on every evaluating path; match_date_range is evaluated on a start/end/date grid; every local of the evaluator and matchers is assigned before it is read within the current loop iteration (definite-assignment dataflow). The value at every instant against an independent interpreter is not claimed."
             " Further: Date.now / Time.now give (year-1900, month, day, weekday 1..7) and (hour, minute, second) for a sample struct_time.",
        technique="return-shape analysis + sibling guard rule + decision-table extraction by finite-domain guard evaluation + path rules",
        note=_NOTE),
})

_PENDING = "check not built yet in this round (static rules are designed in DESIGN.md section 3)"
NOT_APPLICABLE = {("C%02d" % i): _PENDING for i in range(1, 21)}
