"""Self-test corpus: realistic breakages (mutants) and behaviour-preserving
refactorings (benign) per property.  See selftest.py."""

ALL = []


def M(prop, vid, file, old, new, expect=None, what="", nth=None, of=None, edits=None, allow_error=False):
    ALL.append(dict(kind="mutant", prop=prop, id="%s/m/%s" % (prop, vid), file=file, old=old, new=new, expect=expect,
                    what=what, nth=nth, of=of, edits=edits, allow_error=allow_error))


def B(prop, vid, file, old, new, what="", nth=None, of=None, edits=None):
    ALL.append(dict(kind="benign", prop=prop, id="%s/b/%s" % (prop, vid), file=file, old=old, new=new,
                    what=what, nth=nth, of=of, edits=edits))


from . import variants_c01, variants_c02, variants_c03, variants_c04, variants_c05, variants_c06, variants_c07, variants_c08, variants_c09, variants_c10, variants_c11, variants_c12, variants_c13, variants_c14, variants_c15, variants_c16, variants_c17, variants_c18, variants_c19, variants_c20  # noqa: E402,F401
