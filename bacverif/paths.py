"""E1 - structured path enumeration and guard (dominance) facts.

The analysed code uses if/elif/else, for/while (with else), break/continue/
return/raise and try/except[/else][/finally]; no `with`, `match` or generators
on the analysed paths.  Two services:

* ``enumerate_paths(fn)``: every structured path through a function body
  (loops taken 0, 1 [and 2] times) as an ordered list of events.
* ``facts_at(node)``: the branch conditions (test, polarity) that hold on
  *every* path from function entry to ``node``: enclosing ``if`` arms plus
  earlier sibling ``if``s whose other arm always leaves (early-exit guards).
  A fact is dropped when something it mentions is re-assigned in between.
"""
import ast
from .model import norm, AnalysisError, stores_in

MAX_PATHS = 20000


class PathLimit(AnalysisError):
    pass


class Ev:
    """One event on a path."""
    __slots__ = ("kind", "node", "pol", "extra")

    def __init__(self, kind, node, pol=None, extra=None):
        self.kind = kind    # stmt | cond | return | raise | loop0 | loop1 | except | excin
        self.node = node
        self.pol = pol
        self.extra = extra

    def __repr__(self):
        if self.kind == "cond":
            return "%s[%s]" % ("" if self.pol else "not ", norm(self.node))
        return "%s:%s" % (self.kind, norm(self.node).split("\n")[0][:70])


class Path:
    __slots__ = ("events", "term", "_nodes", "_conds")

    def __init__(self, events, term):
        self._nodes = None
        self._conds = None
        self.events = events
        self.term = term      # 'return' | 'raise' | 'fall' (end of function) | 'cut'

    def stmts(self):
        return [e.node for e in self.events if e.kind in ("stmt", "return", "raise")]

    def calls(self):
        """ast.Call nodes in execution order (approximately: statement order,
        within a statement inner calls first)."""
        out = []
        for e in self.events:
            if e.kind in ("stmt", "return", "raise", "cond", "loop0", "loop1"):
                n = e.node
                if e.kind in ("loop0", "loop1"):
                    n = e.node.iter if isinstance(e.node, ast.For) else e.node.test
                out.extend(_calls_postorder(n))
        return out

    def conds(self):
        if self._conds is None:
            self._conds = [(e.node, e.pol) for e in self.events if e.kind == "cond"]
        return self._conds

    def describe(self, limit=12):
        return " ; ".join(repr(e) for e in self.events if e.kind != "stmt")[:600]


def _calls_postorder(node):
    out = []

    def rec(n):
        for c in ast.iter_child_nodes(n):
            rec(c)
        if isinstance(n, ast.Call):
            out.append(n)

    rec(node)
    return out


def _is_infinite(test):
    return isinstance(test, ast.Constant) and bool(test.value)


def _paths(stmts, unroll, in_loop):
    """yield (events, term) with term in None|'return'|'raise'|'break'|'continue'|'cut'"""
    if not stmts:
        yield [], None
        return
    st, rest = stmts[0], stmts[1:]

    def cont(ev, term):
        if term is not None:
            yield ev, term
        else:
            for ev2, t2 in _paths(rest, unroll, in_loop):
                yield ev + ev2, t2

    if isinstance(st, ast.If):
        for pol, branch in ((True, st.body), (False, st.orelse)):
            for ev, term in _paths(branch, unroll, in_loop):
                yield from cont([Ev("cond", st.test, pol)] + ev, term)
        return
    if isinstance(st, (ast.For, ast.While)):
        infinite = isinstance(st, ast.While) and _is_infinite(st.test)
        # zero iterations
        if not infinite:
            for ev, term in _paths(st.orelse, unroll, in_loop):
                yield from cont([Ev("loop0", st)] + ev, term)
        # 1..unroll iterations
        def iterate(k):
            for ev, term in _paths(st.body, unroll, True):
                head = [Ev("loop1", st)]
                if term in ("return", "raise", "cut"):
                    yield head + ev, term
                elif term == "break":
                    yield head + ev, None          # skips orelse
                else:  # fall through / continue: next iteration or exit via orelse
                    if k < unroll:
                        for ev2, t2 in iterate(k + 1):
                            yield head + ev + ev2, t2
                    if not infinite:
                        for ev2, t2 in _paths(st.orelse, unroll, in_loop):
                            yield head + ev + ev2, t2
                    elif k >= unroll:
                        yield head + ev, "cut"
        for ev, term in iterate(1):
            yield from cont(ev, term)
        return
    if isinstance(st, ast.Try):
        fin = st.finalbody

        def with_finally(ev, term):
            if not fin:
                yield ev, term
                return
            for fev, fterm in _paths(fin, unroll, in_loop):
                yield ev + fev, (fterm if fterm is not None else term)

        # normal completion of the body (+ else)
        for ev, term in _paths(st.body + st.orelse, unroll, in_loop):
            for ev2, t2 in with_finally(ev, term):
                yield from cont(ev2, t2)
        # an exception inside top-level statement k of the body, caught by handler h
        for k in range(len(st.body)):
            for pev, pterm in _paths(st.body[:k], unroll, in_loop):
                if pterm is not None:
                    continue
                for h in st.handlers:
                    for hev, hterm in _paths(h.body, unroll, in_loop):
                        ev = pev + [Ev("excin", st.body[k]), Ev("except", h)] + hev
                        for ev2, t2 in with_finally(ev, hterm):
                            yield from cont(ev2, t2)
        return
    if isinstance(st, ast.With):
        for ev, term in _paths(st.body, unroll, in_loop):
            yield from cont([Ev("stmt", st.items[0].context_expr)] + ev, term)
        return
    if isinstance(st, ast.Return):
        yield [Ev("return", st)], "return"
        return
    if isinstance(st, ast.Raise):
        yield [Ev("raise", st)], "raise"
        return
    if isinstance(st, ast.Break):
        yield [], "break"
        return
    if isinstance(st, ast.Continue):
        yield [], "continue"
        return
    if isinstance(st, (ast.FunctionDef, ast.ClassDef, ast.Import, ast.ImportFrom, ast.Global, ast.Nonlocal)):
        yield from cont([], None)
        return
    yield from cont([Ev("stmt", st)], None)


_PATH_CACHE = {}


def enumerate_paths(fn, unroll=1, limit=MAX_PATHS):
    """All structured paths of FunctionDef `fn` as Path objects (cached per node)."""
    key = (id(fn), unroll)
    hit = _PATH_CACHE.get(key)
    if hit is not None and hit[0] is fn:
        return hit[1]
    out = _enumerate_paths(fn, unroll, limit)
    _PATH_CACHE[key] = (fn, out)
    return out


def _enumerate_paths(fn, unroll, limit):
    out = []
    for ev, term in _paths(fn.body, unroll, False):
        if term is None:
            term = "fall"
        out.append(Path(ev, term))
        if len(out) > limit:
            raise PathLimit("more than %d paths in %s" % (limit, fn.name))
    return out


def inline_paths(paths, resolver, depth=2, limit=MAX_PATHS):
    """Expand statement-level calls for which resolver(call) returns a FunctionDef
    (same-class helper) into the callee's paths, to the given depth.

    A callee path ending in 'raise' terminates the caller path as 'raise'
    (callers protected by try are handled coarsely by the except-paths already).
    """
    if depth <= 0:
        return paths
    out = []
    changed = False
    for p in paths:
        expanded = [([], None)]
        for i, e in enumerate(p.events):
            callee = None
            if e.kind in ("stmt", "return") :
                n = e.node
                v = n.value if isinstance(n, (ast.Expr, ast.Assign, ast.Return, ast.AugAssign)) else None
                if isinstance(v, ast.Call):
                    callee = resolver(v)
            if callee is None:
                expanded = [(evs + [e], t) if t is None else (evs, t) for evs, t in expanded]
                continue
            changed = True
            cps = enumerate_paths(callee, limit=limit)
            new = []
            for evs, t in expanded:
                if t is not None:
                    new.append((evs, t))
                    continue
                for cp in cps:
                    marker = Ev("inline", e.node, extra=callee)
                    if cp.term == "raise":
                        new.append((evs + [marker] + cp.events, "raise"))
                    elif cp.term == "cut":
                        new.append((evs + [marker] + cp.events, "cut"))
                    else:
                        tail = [Ev("inline-end", e.node, extra=callee)]
                        if e.kind == "return":
                            new.append((evs + [marker] + cp.events + tail + [e], None))
                        else:
                            new.append((evs + [marker] + cp.events + tail, None))
                if len(new) > limit:
                    raise PathLimit("inlining exceeds %d paths" % limit)
            expanded = new
        for evs, t in expanded:
            out.append(Path(evs, t if t is not None else p.term))
    if changed:
        return inline_paths(out, resolver, depth - 1, limit)
    return out


# ---------------------------------------------------------------- leaving
def always_leaves(stmts, allow_loop_exit=True):
    """True if every path through the block ends in return/raise (or, when the
    block is lexically inside a loop whose body also contains what follows,
    break/continue)."""
    if not stmts:
        return False
    for st in stmts:
        if isinstance(st, (ast.Return, ast.Raise)):
            return True
        if isinstance(st, (ast.Break, ast.Continue)) and allow_loop_exit:
            return True
        if isinstance(st, ast.If):
            if st.orelse and always_leaves(st.body, allow_loop_exit) and always_leaves(st.orelse, allow_loop_exit):
                return True
        if isinstance(st, ast.Try):
            body_leaves = always_leaves(st.body + st.orelse, allow_loop_exit)
            if body_leaves and all(always_leaves(h.body, allow_loop_exit) for h in st.handlers):
                return True
            if st.finalbody and always_leaves(st.finalbody, allow_loop_exit):
                return True
        if isinstance(st, ast.While) and _is_infinite(st.test):
            # leaves only by break; conservatively: not "always leaves"
            pass
    return False


def _block_of(node):
    """(parent, field name, list, index) of the statement list containing node."""
    p = getattr(node, "_parent", None)
    if p is None:
        return None
    for field in ("body", "orelse", "finalbody"):
        lst = getattr(p, field, None)
        if isinstance(lst, list):
            for i, s in enumerate(lst):
                if s is node:
                    return p, field, lst, i
    if isinstance(p, ast.Try):
        for h in p.handlers:
            if h is node:
                return p, "handlers", p.handlers, p.handlers.index(h)
    return None


def enclosing_stmt(node):
    """the statement that contains an expression node (or node itself)."""
    n = node
    while n is not None and not isinstance(n, (ast.stmt, ast.ExceptHandler)):
        n = getattr(n, "_parent", None)
    return n


def _mentioned_keys(test):
    keys = set()
    for n in ast.walk(test):
        if isinstance(n, (ast.Name, ast.Attribute, ast.Subscript)):
            keys.add(norm(n))
    return keys


def _kills(stmts, keys):
    """does any statement in stmts (recursively) store to something in keys?
    A method call on a receiver other than `self` is taken to modify that
    receiver's attributes (x.m() kills facts about x.attr); calls on `self`
    are assumed not to change what the guards of the same function test."""
    for st in stmts:
        for n in ast.walk(st):
            if isinstance(n, ast.Call) and isinstance(n.func, ast.Attribute):
                recv = n.func.value
                if isinstance(recv, ast.Name) and recv.id != "self":
                    pre = recv.id + "."
                    for key in keys:
                        if key.startswith(pre):
                            return True
        for tgt, _ in stores_in(st):
            k = norm(tgt)
            if k in keys:
                return True
            # store to x kills facts about x.attr / x[...]
            for key in keys:
                if key.startswith(k + ".") or key.startswith(k + "["):
                    return True
    return False


def fall_conditions(ifst):
    """(test, polarity) pairs that hold whenever execution falls past the `if`
    statement (its leaving arms were not taken); follows elif chains."""
    out = []
    if always_leaves(ifst.body):
        out.append((ifst.test, False))
        if len(ifst.orelse) == 1 and isinstance(ifst.orelse[0], ast.If):
            out.extend(fall_conditions(ifst.orelse[0]))
    elif ifst.orelse and always_leaves(ifst.orelse):
        out.append((ifst.test, True))
    return out


class Fact:
    __slots__ = ("test", "pol", "origin")

    def __init__(self, test, pol, origin):
        self.test = test
        self.pol = pol
        self.origin = origin   # 'arm' | 'exit' | 'loop' | 'isinstance'

    def __repr__(self):
        return "%s(%s)" % ("" if self.pol else "not ", norm(self.test))


def facts_at(node, stop=None, check_kills=True):
    """Facts (test, polarity) holding whenever `node` is reached from the entry
    of its function (or of `stop`, an enclosing node).  A fact is dropped when
    anything executed between its guard and the node (at any nesting level)
    may change what it mentions."""
    facts = []
    st = enclosing_stmt(node)
    acc = []        # statements executed after the current level's position and before `node`
    while st is not None and st is not stop and not isinstance(st, (ast.FunctionDef, ast.AsyncFunctionDef, ast.ClassDef, ast.Module)):
        blk = _block_of(st)
        if blk is None:
            break
        parent, field, lst, idx = blk
        if field != "handlers":
            # earlier siblings that are early-exit guards
            for j in range(idx - 1, -1, -1):
                s = lst[j]
                if isinstance(s, ast.If):
                    between = lst[j + 1: idx] + acc
                    for test, pol in fall_conditions(s):
                        if not (check_kills and _kills(between, _mentioned_keys(test))):
                            facts.append(Fact(test, pol, "exit"))
                elif isinstance(s, ast.Assert):
                    facts.append(Fact(s.test, True, "exit"))
            # the enclosing construct itself
            if isinstance(parent, ast.If):
                pol = field == "body"
                keys = _mentioned_keys(parent.test)
                if not (check_kills and _kills(lst[:idx] + acc, keys)):
                    facts.append(Fact(parent.test, pol, "arm"))
            elif isinstance(parent, ast.While) and field == "body":
                keys = _mentioned_keys(parent.test)
                if not (check_kills and _kills(lst[:idx] + acc, keys)):
                    facts.append(Fact(parent.test, True, "loop"))
            acc = lst[:idx] + acc
        st = parent
        if isinstance(st, ast.ExceptHandler):
            st = getattr(st, "_parent", None)
    return facts


def enclosing_loops(node):
    out = []
    p = getattr(node, "_parent", None)
    while p is not None and not isinstance(p, (ast.FunctionDef, ast.AsyncFunctionDef)):
        if isinstance(p, (ast.For, ast.While)):
            out.append(p)
        p = getattr(p, "_parent", None)
    return out


def statements_before(node, fn):
    """Statements that execute before `node` on every path (straight-line
    dominators): earlier siblings at each enclosing block level, excluding
    compound statements' bodies."""
    out = []
    st = enclosing_stmt(node)
    while st is not None and st is not fn:
        blk = _block_of(st)
        if blk is None:
            break
        parent, field, lst, idx = blk
        if field != "handlers":
            out = lst[:idx] + out
        st = parent
        if isinstance(st, ast.ExceptHandler):
            st = getattr(st, "_parent", None)
        if isinstance(st, (ast.FunctionDef, ast.AsyncFunctionDef)):
            break
    return out


def walk_shallow(fn):
    """walk a function body in source order without descending into nested defs/classes"""
    def rec(n):
        yield n
        for c in ast.iter_child_nodes(n):
            if isinstance(c, (ast.FunctionDef, ast.AsyncFunctionDef, ast.ClassDef, ast.Lambda)):
                continue
            yield from rec(c)
    for st in fn.body:
        yield from rec(st)
