"""E3 - declarative table evaluator (from the AST, nothing imported).

sequenceElements / choiceElements, enumerations, bit names, registries,
object property lists, wire kinds and name-independent wire signatures.
"""
import ast

from .model import norm, NotConst, AnalysisError, ShapeError, AnchorMissing


class Elem:
    __slots__ = ("name", "klass", "klass_text", "context", "optional", "node", "owner", "module")

    def __init__(self, name, klass, klass_text, context, optional, node, owner, module):
        self.name = name
        self.klass = klass            # ClassInfo or None (unresolved)
        self.klass_text = klass_text
        self.context = context
        self.optional = optional
        self.node = node
        self.owner = owner            # ClassInfo whose table lists it
        self.module = module

    def where(self):
        return "%s:%d" % (self.module.relpath, self.node.lineno)

    def __repr__(self):
        return "<Elem %s %s ctx=%r opt=%r>" % (self.name, self.klass_text, self.context, self.optional)


FACTORY_KIND = {"SequenceOf": "seqof", "ListOf": "listof", "ArrayOf": "arrayof"}


class Tables:
    def __init__(self, prog):
        self.prog = prog
        self._kind = {}
        self._elems = {}
        self._sig = {}
        self._first = {}

    # ------------------------------------------------------------- kinds
    def kind(self, c):
        if c is None:
            return "?"
        k = self._kind.get(id(c))
        if k:
            return k
        if c.synthetic_from in FACTORY_KIND:
            k = FACTORY_KIND[c.synthetic_from]
        else:
            names = [(x.module.name, x.name) for x in self.prog.mro(c)]
            if ("constructeddata", "AnyAtomic") in names:
                k = "anyatomic"
            elif ("primitivedata", "Atomic") in names:
                k = "atomic"
            elif ("constructeddata", "Choice") in names:
                k = "choice"
            elif ("constructeddata", "Sequence") in names:
                k = "sequence"
            elif ("constructeddata", "Any") in names:
                k = "any"
            elif any(getattr(x, "synthetic_from", None) in FACTORY_KIND for x in self.prog.mro(c)):
                k = FACTORY_KIND[[x.synthetic_from for x in self.prog.mro(c) if x.synthetic_from in FACTORY_KIND][0]]
            else:
                k = "?"
        self._kind[id(c)] = k
        return k

    def subtype(self, c):
        """element class of a SequenceOf/ListOf/ArrayOf class"""
        for x in self.prog.mro(c):
            if x.synthetic_from in FACTORY_KIND:
                b = x.bindings.get("klass")
                if b is None:
                    return None
                return self.prog.resolve_class_expr(b[0], b[1])
        return None

    def array_fixed_length(self, c):
        for x in self.prog.mro(c):
            if x.synthetic_from == "ArrayOf":
                b = x.bindings.get("fixed_length")
                if b is None:
                    return None
                return self.prog.try_const(b[0], b[1])
        return None

    def app_tag(self, c):
        r = self.prog.class_attr(c, "_app_tag")
        if not r:
            return None
        return self.prog.try_const(r[0].module, r[1], r[0])

    # ---------------------------------------------------------- elements
    def elements(self, c, attr):
        """[Elem] of the class's sequenceElements / choiceElements (through the MRO), or None"""
        key = (id(c), attr)
        if key in self._elems:
            return self._elems[key]
        r = self.prog.class_attr(c, attr)
        out = None
        if r:
            out = self._eval_elements(r[0].module, r[0], r[1], attr, 0)
        self._elems[key] = out
        return out

    def own_elements(self, c, attr):
        if attr not in c.attrs:
            return None
        return self._eval_elements(c.module, c, c.attrs[attr], attr, 0)

    def _eval_elements(self, module, owner, node, attr, depth):
        if depth > 8:
            raise ShapeError("element table alias chain too deep at %s" % module.where(node))
        if isinstance(node, (ast.List, ast.Tuple)):
            out = []
            for e in node.elts:
                out.append(self._eval_element(module, owner, e))
            return out
        if isinstance(node, ast.Attribute) and node.attr in ("sequenceElements", "choiceElements"):
            k = self.prog.resolve_class_expr(module, node.value)
            if k is None:
                raise ShapeError("cannot resolve %s at %s" % (norm(node), module.where(node)))
            return self.elements(k, node.attr) or []
        if isinstance(node, ast.BinOp) and isinstance(node.op, ast.Add):
            return self._eval_elements(module, owner, node.left, attr, depth + 1) + self._eval_elements(module, owner, node.right, attr, depth + 1)
        if isinstance(node, ast.Name):
            rr = self.prog.resolve_name(module, node.id)
            if rr and rr[0] == "const" and len(rr[2]) == 1:
                return self._eval_elements(rr[1], owner, rr[2][0], attr, depth + 1)
        raise ShapeError("unrecognised element table expression %s at %s" % (norm(node)[:60], module.where(node)))

    def _eval_element(self, module, owner, e):
        if not (isinstance(e, ast.Call) and isinstance(e.func, ast.Name) and e.func.id == "Element"):
            raise ShapeError("element table entry is not Element(...): %s at %s" % (norm(e)[:60], module.where(e)))
        args = list(e.args)
        kw = {k.arg: k.value for k in e.keywords}
        try:
            name = self.prog.const(module, args[0] if args else kw["name"])
            knode = args[1] if len(args) > 1 else kw["klass"]
            cnode = args[2] if len(args) > 2 else kw.get("context")
            onode = args[3] if len(args) > 3 else kw.get("optional")
            context = self.prog.const(module, cnode) if cnode is not None else None
            optional = bool(self.prog.const(module, onode)) if onode is not None else False
        except (NotConst, KeyError, IndexError) as ex:
            raise ShapeError("Element arguments not constant at %s: %s" % (module.where(e), ex))
        klass = self.prog.resolve_class_expr(module, knode, getattr(owner, "bindings", None))
        return Elem(name, klass, norm(knode), context, optional, e, owner, module)

    # ------------------------------------------------------ enumerations
    def enumerations(self, c):
        """merged name->number over the MRO (as expand_enumerations does), plus per-class own dict"""
        merged = {}
        for x in reversed(self.prog.mro(c)):
            if "enumerations" in x.attrs:
                d = self.prog.try_const(x.module, x.attrs["enumerations"], x)
                if isinstance(d, dict):
                    merged.update(d)
        return merged

    def own_enum_pairs(self, c):
        """[(name, number, node)] as written in the class's own dict literal (duplicates kept)"""
        node = c.attrs.get("enumerations")
        out = []
        if isinstance(node, ast.Dict):
            for k, v in zip(node.keys, node.values):
                try:
                    out.append((self.prog.const(c.module, k), self.prog.const(c.module, v), k))
                except NotConst:
                    raise ShapeError("non-constant enumeration entry at %s" % c.module.where(k))
        return out

    # -------------------------------------------------------- registries
    def registry_calls(self, modname, fname):
        """classes passed to <fname>(K) at module level of module (call or decorator)"""
        m = self.prog.module(modname)
        out = []
        for st in m.tree.body:
            if isinstance(st, ast.Expr) and isinstance(st.value, ast.Call) and isinstance(st.value.func, ast.Name) and st.value.func.id == fname:
                if st.value.args:
                    k = self.prog.resolve_class_expr(m, st.value.args[0])
                    out.append((k, norm(st.value.args[0]), st))
            if isinstance(st, ast.ClassDef):
                for d in st.decorator_list:
                    if isinstance(d, ast.Name) and d.id == fname:
                        out.append((m.classes.get(st.name), st.name, st))
        return out

    def dict_stores(self, modname, dname):
        """[(key const, ClassInfo, stmt)] for module-level  dname[key] = K"""
        m = self.prog.module(modname)
        out = []
        for st in m.tree.body:
            if isinstance(st, ast.Assign) and len(st.targets) == 1 and isinstance(st.targets[0], ast.Subscript) and norm(st.targets[0].value) == dname:
                key = self.prog.try_const(m, st.targets[0].slice)
                out.append((key, self.prog.resolve_class_expr(m, st.value), st))
        return out

    # ------------------------------------------------- wire signatures
    def signature(self, c, ctx=None, _stack=()):
        """name-independent recursive wire signature"""
        if c is None:
            return "?"
        if id(c) in _stack:
            return "rec"
        k = self.kind(c)
        pre = "" if ctx is None else "c%d:" % ctx
        if k == "atomic":
            return "%sa%s" % (pre, self.app_tag(c))
        if k == "anyatomic":
            return pre + "a*"
        if k == "any":
            return pre + "any"
        st = _stack + (id(c),)
        if k in ("seqof", "listof", "arrayof"):
            fl = self.array_fixed_length(c) if k == "arrayof" else None
            return "%s%s[%s]%s" % (pre, {"seqof": "list", "listof": "list", "arrayof": "array"}[k], self.signature(self.subtype(c), None, st), "" if fl is None else "#%s" % fl)
        if k == "sequence":
            els = self.elements(c, "sequenceElements") or []
            return "%sseq(%s)" % (pre, ",".join(("%s%s" % (self.signature(e.klass, e.context, st), "?" if e.optional else "")) for e in els))
        if k == "choice":
            els = self.elements(c, "choiceElements") or []
            return "%schoice(%s)" % (pre, "|".join(self.signature(e.klass, e.context, st) for e in els))
        return pre + "?"

    # ------------------------------------------------------------ FIRST
    def first(self, c, ctx, _stack=()):
        """(set of abstract head tags, nullable): ('ctx',n) ('open',n) ('app',t) ('app','*') ('any',)"""
        k = self.kind(c)
        if ctx is not None:
            if k == "atomic" or k == "anyatomic":
                return {("ctx", ctx)}, False
            return {("open", ctx)}, False
        if k == "atomic":
            return {("app", self.app_tag(c))}, False
        if k == "anyatomic":
            return {("app", "*")}, False
        if k == "any":
            return {("any",)}, True
        if id(c) in _stack:
            return set(), False
        st = _stack + (id(c),)
        if k in ("seqof", "listof", "arrayof"):
            f, _ = self.first(self.subtype(c), None, st) if self.subtype(c) is not None else (set(), False)
            return set(f), True
        if k == "choice":
            s = set()
            for e in self.elements(c, "choiceElements") or []:
                f, _ = self.first(e.klass, e.context, st)
                s |= f
            return s, False
        if k == "sequence":
            s = set()
            for e in self.elements(c, "sequenceElements") or []:
                f, nul = self.first(e.klass, e.context, st)
                s |= f
                if not (e.optional or nul):
                    return s, False
            return s, True
        return {("?",)}, False


def tags_conflict(a, b):
    if a == b:
        return True
    if ("any",) in (a, b):
        return True
    if a[0] == "app" and b[0] == "app" and "*" in (a[1], b[1]):
        return True
    return False


def all_table_classes(prog, tables, modules=("apdu", "basetypes", "object", "constructeddata", "primitivedata", "local.object", "local.schedule", "service.cov")):
    """(ClassInfo, kind) of every named class that owns or inherits a wire table"""
    for mn in modules:
        if mn not in prog.modules:
            continue
        for c in prog.modules[mn].classes.values():
            k = tables.kind(c)
            if k in ("sequence", "choice"):
                yield c, k
