from .variants import M, B

A = "appservice.py"
T = "\n                if (apdu.apduInvokeID == tr.invokeID) and (apdu.pduSource == tr.pdu_address):"
T2 = "                    if (apdu.apduInvokeID == tr.invokeID) and (apdu.pduSource == tr.pdu_address):"
M("C11", "ack-lookup-id-only", A, T, "\n                if (apdu.apduInvokeID == tr.invokeID):", "C11.R1", nth=2, of=2, what="ack matched by invoke ID only: a reply from another peer completes the wrong request")
M("C11", "request-lookup-addr-only", A, T, "\n                if (apdu.pduSource == tr.pdu_address):", "C11.R1", nth=1, of=2, what="requests with different IDs from one peer collapse into one server transaction")
M("C11", "abort-lookup-or", A, T2, "                    if (apdu.apduInvokeID == tr.invokeID) or (apdu.pduSource == tr.pdu_address):", "C11.R1", nth=1, of=4)
M("C11", "segack-lookup-dest", A, T2, "                    if (apdu.apduInvokeID == tr.invokeID) and (apdu.pduDestination == tr.pdu_address):", "C11.R1", nth=3, of=4)
M("C11", "alloc-ignores-address", A, "                if (invokeID == tr.invokeID) and (addr == tr.pdu_address):", "                if (invokeID == tr.invokeID) and (addr == addr):", "C11.R1")
M("C11", "abort-direction-swapped", A,
  "            if apdu.apduSrv:\n                for tr in self.clientTransactions:\n                    if (apdu.apduInvokeID == tr.invokeID) and (apdu.pduSource == tr.pdu_address):\n                        break\n                else:\n                    return\n\n                # send the packet on to the transaction\n                tr.confirmation(apdu)\n            else:\n                for tr in self.serverTransactions:",
  "            if not apdu.apduSrv:\n                for tr in self.clientTransactions:\n                    if (apdu.apduInvokeID == tr.invokeID) and (apdu.pduSource == tr.pdu_address):\n                        break\n                else:\n                    return\n\n                # send the packet on to the transaction\n                tr.confirmation(apdu)\n            else:\n                for tr in self.serverTransactions:",
  "C11.R2", nth=1, of=2, what="abort from a server applied to our server transactions")
M("C11", "miss-falls-through", A,
  "            for tr in self.clientTransactions:\n                if (apdu.apduInvokeID == tr.invokeID) and (apdu.pduSource == tr.pdu_address):\n                    break\n            else:\n                return",
  "            for tr in self.clientTransactions:\n                if (apdu.apduInvokeID == tr.invokeID) and (apdu.pduSource == tr.pdu_address):\n                    break\n            else:\n                pass", "C11.R3", "unmatched ack is given to the last transaction in the list")
M("C11", "no-break-on-match", A,
  "            for tr in self.serverTransactions:\n                if (apdu.apduInvokeID == tr.invokeID) and (apdu.pduDestination == tr.pdu_address):\n                    break\n            else:\n                return",
  "            for tr in self.serverTransactions:\n                if (apdu.apduInvokeID == tr.invokeID) and (apdu.pduDestination == tr.pdu_address):\n                    pass\n            else:\n                return",
  ["C11.R3", "C11.R1"])
M("C11", "alloc-no-wrap", A, "            self.nextInvokeID = (self.nextInvokeID + 1) % 256", "            self.nextInvokeID = (self.nextInvokeID + 1)", "C11.R4")
M("C11", "alloc-returns-next", A, "        return invokeID\n", "        return self.nextInvokeID\n", "C11.R4", "returns an ID that was not checked")
M("C11", "alloc-no-exhaustion", A, "            if initialID == self.nextInvokeID:\n                raise RuntimeError(\"no available invoke ID\")\n", "", "C11.R4")
M("C11", "collision-check-dropped", A,
  "                for tr in self.clientTransactions:\n                    if (apdu.apduInvokeID == tr.invokeID) and (apdu.pduDestination == tr.pdu_address):\n                        raise RuntimeError(\"invoke ID in use\")\n",
  "                pass\n", ["C11.R4", "C11.R1"], allow_error=True)
M("C11", "run-before-register", A,
  "            # add it to our transactions to track it\n            self.clientTransactions.append(tr)\n\n            # let it run\n            tr.indication(apdu)",
  "            # let it run\n            tr.indication(apdu)\n            self.clientTransactions.append(tr)", "C11.R5")
M("C11", "server-keyed-by-dest", A, "                tr = ServerSSM(self, apdu.pduSource)", "                tr = ServerSSM(self, apdu.pduDestination)", ["C11.R5", "C11.R3"])
M("C11", "abort-wrong-srv", A, "        return AbortPDU(True, self.invokeID, reason)", "        return AbortPDU(False, self.invokeID, reason)", "C11.R5", "server abort flagged as from client: peer looks in the wrong list")
M("C11", "nak-wrong-id", A, "            segack = SegmentAckPDU(1, 0, self.invokeID, self.lastSequenceNumber, self.actualWindowSize)", "            segack = SegmentAckPDU(1, 0, 0, self.lastSequenceNumber, self.actualWindowSize)", "C11.R5")
M("C11", "duplicate-request-redelivered", A,
  "        if isinstance(apdu, ConfirmedRequestPDU):\n            if _debug: ServerSSM._debug(\"    - client is trying this request again\")\n",
  "        if isinstance(apdu, ConfirmedRequestPDU):\n            self.request(apdu)\n", "C11.R6")
B("C11", "lookup-operands-swapped", A, T, "\n                if (tr.pdu_address == apdu.pduSource) and (tr.invokeID == apdu.apduInvokeID):", nth=2, of=2)
B("C11", "lookup-demorgan", A, T, "\n                if not ((apdu.apduInvokeID != tr.invokeID) or (apdu.pduSource != tr.pdu_address)):", nth=1, of=2)
B("C11", "isinstance-tuple", A,
  "        elif isinstance(apdu, SimpleAckPDU) \\\n            or isinstance(apdu, ComplexAckPDU) \\\n            or isinstance(apdu, ErrorPDU) \\\n            or isinstance(apdu, RejectPDU):",
  "        elif isinstance(apdu, (SimpleAckPDU, ComplexAckPDU, ErrorPDU, RejectPDU)):")
M("C11", "await-response-segment-timer", "appservice.py", "            self.set_state(AWAIT_RESPONSE, self.ssmSAP.applicationTimeout)\n            self.request(self.segmentAPDU)", "            self.set_state(AWAIT_RESPONSE, self.segmentTimeout)\n            self.request(self.segmentAPDU)", "C11.R6", "server forgets a segmented request while the application is still working")
