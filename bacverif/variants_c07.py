from .variants import M, B

A = "apdu.py"
M("C07", "sa-mask-decode", A, "            self.apduSA  = ((buff & 0x02) != 0)", "            self.apduSA  = ((buff & 0x01) != 0)", "C07.R1", "segmented-response-accepted read from the wrong bit")
M("C07", "sa-bit-encode", A, "            if self.apduSA:\n                buff += 0x02", "            if self.apduSA:\n                buff += 0x01", "C07.R1")
M("C07", "mor-seg-swapped", A, "            if self.apduSeg:\n                buff += 0x08\n            if self.apduMor:\n                buff += 0x04\n            pdu.put(buff)\n            pdu.put(self.apduInvokeID)",
  "            if self.apduSeg:\n                buff += 0x04\n            if self.apduMor:\n                buff += 0x08\n            pdu.put(buff)\n            pdu.put(self.apduInvokeID)", "C07.R1", "complex ack flags swapped on encode only")
M("C07", "maxsegs-mask", A, "            self.apduMaxSegs = (buff >> 4) & 0x07", "            self.apduMaxSegs = (buff >> 4) & 0x03", "C07.R1", "max-segments codes 4..7 decode as 0..3")
M("C07", "maxresp-shift", A, "            pdu.put((self.apduMaxSegs << 4) + self.apduMaxResp)", "            pdu.put((self.apduMaxSegs << 3) + self.apduMaxResp)", "C07.R1")
M("C07", "seq-win-order", A, "            if self.apduSeg:\n                self.apduSeq = pdu.get()\n                self.apduWin = pdu.get()\n            self.apduService = pdu.get()\n            self.pduData = pdu.pduData\n\n        elif (self.apduType == SegmentAckPDU.pduType):",
  "            if self.apduSeg:\n                self.apduWin = pdu.get()\n                self.apduSeq = pdu.get()\n            self.apduService = pdu.get()\n            self.pduData = pdu.pduData\n\n        elif (self.apduType == SegmentAckPDU.pduType):", "C07.R1")
M("C07", "seq-guard-mor", A, "            pdu.put(self.apduInvokeID)\n            if self.apduSeg:\n                pdu.put(self.apduSeq)\n                pdu.put(self.apduWin)\n            pdu.put(self.apduService)\n\n        elif (self.apduType == SegmentAckPDU.pduType):",
  "            pdu.put(self.apduInvokeID)\n            if self.apduMor:\n                pdu.put(self.apduSeq)\n                pdu.put(self.apduWin)\n            pdu.put(self.apduService)\n\n        elif (self.apduType == SegmentAckPDU.pduType):", "C07.R1", "last segment loses its sequence number")
M("C07", "nak-srv-swapped-decode", A, "            self.apduNak = ((buff & 0x02) != 0)\n            self.apduSrv = ((buff & 0x01) != 0)", "            self.apduNak = ((buff & 0x01) != 0)\n            self.apduSrv = ((buff & 0x02) != 0)", "C07.R1")
M("C07", "abort-srv-dropped", A, "            buff = self.apduType << 4\n            if self.apduSrv:\n                buff += 0x01\n            pdu.put(buff)\n            pdu.put(self.apduInvokeID)\n            pdu.put(self.apduAbortRejectReason)", "            buff = self.apduType << 4\n            pdu.put(buff)\n            pdu.put(self.apduInvokeID)\n            pdu.put(self.apduAbortRejectReason)", "C07.R1")
M("C07", "error-payload-lost", A, "            self.apduInvokeID = pdu.get()\n            self.apduService = pdu.get()\n            self.pduData = pdu.pduData\n\n        elif (self.apduType == RejectPDU.pduType):", "            self.apduInvokeID = pdu.get()\n            self.apduService = pdu.get()\n\n        elif (self.apduType == RejectPDU.pduType):", "C07.R1")
M("C07", "type-mask", A, "        self.apduType = (buff >> 4) & 0x0F", "        self.apduType = (buff >> 4) & 0x07", "C07.R1", "types 8..15 alias onto 0..7 instead of being refused")
M("C07", "table-value", A, "_max_apdu_length_encoding = [50, 128, 206, 480, 1024, 1476, None, None,", "_max_apdu_length_encoding = [50, 128, 216, 480, 1024, 1476, None, None,", "C07.R2")
M("C07", "round-up", A, "        if (arg >= _max_apdu_length_encoding[i]):", "        if (arg > _max_apdu_length_encoding[i] // 2):", "C07.R2", allow_error=True)
M("C07", "scan-ascending", A, "    for i in range(6, 0, -1):", "    for i in range(1, 7):", "C07.R2", "smallest fitting code instead of largest")
M("C07", "segs-strict", A, "        if _max_segments_accepted_encoding[i] <= arg:", "        if _max_segments_accepted_encoding[i] < arg:", "C07.R2")
M("C07", "over-64", A, "    if arg > 64:\n        return 7", "    if arg >= 64:\n        return 7", "C07.R2")
M("C07", "update-misses-field", A, "        self.apduSA = apci.apduSA\n", "", "C07.R3", "segmented-response-accepted lost when the header is copied")
M("C07", "context-wrong-id", A, "        self.apduInvokeID = context.apduInvokeID\n", "        self.apduInvokeID = context.apduService\n", "C07.R3")
M("C07", "wrong-exception", A, "            raise DecodingError(\"invalid APDU type\")", "            raise RuntimeError(\"invalid APDU type\")", ["C07.R4", "C07.R1"])
B("C07", "or-instead-of-plus", A, "            if self.apduSA:\n                buff += 0x02", "            if self.apduSA:\n                buff |= 0x02")
B("C07", "flag-bool-respelled", A, "            self.apduSA  = ((buff & 0x02) != 0)", "            self.apduSA  = bool(buff & 2)")
B("C07", "inline-expression", A, "            pdu.put((self.apduMaxSegs << 4) + self.apduMaxResp)", "            segs_resp = self.apduMaxResp | (self.apduMaxSegs << 4)\n            pdu.put(segs_resp)")
B("C07", "cmp-respelled", A, "        if (arg >= _max_apdu_length_encoding[i]):", "        if not (_max_apdu_length_encoding[i] > arg):")
