"""Alpha-renaming invariance.

The rules name some function-local variables of the analysed code ("newpdu",
"segack", "earliest_transition").  Renaming a local changes no behaviour, so it
must not change a verdict.  At load time every function whose set of local names
differs from the reviewed reference (spec/local_names.json, generated from the
reviewed tree by tools/gen_local_reference.py) has its renamed locals mapped back:
a local is identified by the *signature of its first binding* - the kind of
binding, the position among the targets, and the bound expression with every
function-local name replaced by a placeholder - and, among equal signatures, by
order.  Only locals whose current name is unknown to the reference are candidates,
and only reference names that are missing from the function are targets, so code
that keeps its names (every mutant of the self-test corpus, every seeded change)
is never touched.  Uses are not part of the signature: a use of the wrong
variable stays a use of the wrong variable after the mapping.
"""
import ast
import json
import os

_SCOPES = (ast.FunctionDef, ast.AsyncFunctionDef, ast.ClassDef, ast.Lambda, ast.ListComp, ast.SetComp, ast.DictComp, ast.GeneratorExp)


def own_scope_nodes(fn):
    """nodes of fn's own scope in source order (nested scopes are yielded but not entered)"""
    out = []

    def rec(n):
        for ch in ast.iter_child_nodes(n):
            out.append(ch)
            if not isinstance(ch, _SCOPES):
                rec(ch)
    rec(fn)
    return out


def functions_with_qualnames(tree):
    out = []

    def rec(node, prefix):
        for ch in ast.iter_child_nodes(node):
            if isinstance(ch, (ast.FunctionDef, ast.AsyncFunctionDef)):
                q = prefix + ch.name
                out.append((q, ch))
                rec(ch, q + ".")
            elif isinstance(ch, ast.ClassDef):
                rec(ch, prefix + ch.name + ".")
            else:
                rec(ch, prefix)
    rec(tree, "")
    # several definitions under one qualified name (conditional definitions): keep them apart by ordinal
    seen = {}
    res = []
    for q, fn in out:
        k = seen.get(q, 0)
        seen[q] = k + 1
        res.append((q if k == 0 else "%s#%d" % (q, k), fn))
    return res


def _params(fn):
    a = fn.args
    ps = {x.arg for x in a.args + a.kwonlyargs + getattr(a, "posonlyargs", [])}
    if a.vararg:
        ps.add(a.vararg.arg)
    if a.kwarg:
        ps.add(a.kwarg.arg)
    return ps


def _target_names(t, path=""):
    if isinstance(t, ast.Name):
        return [(t.id, path or "0")]
    if isinstance(t, (ast.Tuple, ast.List)):
        out = []
        for i, e in enumerate(t.elts):
            out += _target_names(e, "%s.%d" % (path, i) if path else str(i))
        return out
    if isinstance(t, ast.Starred):
        return _target_names(t.value, path + "*")
    return []


class _Blank(ast.NodeTransformer):
    def __init__(self, names):
        self.names = names

    def visit_Name(self, node):
        if node.id in self.names:
            return ast.copy_location(ast.Name(id="_L", ctx=node.ctx), node)
        return node


def _text(expr, local_names):
    if expr is None:
        return ""
    import copy
    e = _Blank(local_names).visit(copy.deepcopy(_strip_parents(expr)))
    try:
        return ast.unparse(e)
    except Exception:
        return ast.dump(e)


def _strip_parents(node):
    # deepcopy must not follow parent pointers set by the model
    for n in ast.walk(node):
        if hasattr(n, "_parent"):
            try:
                del n._parent
            except AttributeError:
                pass
    return node


def local_bindings(fn):
    """[(name, kind, position, bound-expression text)] for the first binding of every local of fn, in source order"""
    params = _params(fn)
    declared = set()
    nodes = own_scope_nodes(fn)
    for n in nodes:
        if isinstance(n, (ast.Global, ast.Nonlocal)):
            declared |= set(n.names)
    first = {}
    order = []

    def note(name, kind, pos, expr):
        if name in params or name in declared or name in first:
            return
        first[name] = (kind, pos, expr)
        order.append(name)
    for n in nodes:
        if isinstance(n, ast.Assign):
            for t in n.targets:
                for name, pos in _target_names(t):
                    note(name, "assign", pos, n.value)
        elif isinstance(n, ast.AugAssign) and isinstance(n.target, ast.Name):
            note(n.target.id, "aug", "0", n.value)
        elif isinstance(n, ast.AnnAssign) and isinstance(n.target, ast.Name):
            note(n.target.id, "assign", "0", n.value)
        elif isinstance(n, (ast.For, ast.AsyncFor)):
            for name, pos in _target_names(n.target):
                note(name, "for", pos, n.iter)
        elif isinstance(n, (ast.With, ast.AsyncWith)):
            for it in n.items:
                if it.optional_vars is not None:
                    for name, pos in _target_names(it.optional_vars):
                        note(name, "with", pos, it.context_expr)
        elif isinstance(n, ast.ExceptHandler) and n.name:
            note(n.name, "except", "0", n.type)
        elif isinstance(n, ast.NamedExpr) and isinstance(n.target, ast.Name):
            note(n.target.id, "walrus", "0", n.value)
        elif isinstance(n, (ast.Import, ast.ImportFrom)):
            for a in n.names:
                declared.add((a.asname or a.name).split(".")[0])
    names = set(order)
    return [(name, first[name][0], first[name][1], _text(first[name][2], names)) for name in order]


def reference_of(tree):
    return {q: [list(b) for b in local_bindings(fn)] for q, fn in functions_with_qualnames(tree)}


_REF = None


def load_reference():
    global _REF
    if _REF is None:
        p = os.path.join(os.path.dirname(os.path.dirname(os.path.abspath(__file__))), "spec", "local_names.json")
        try:
            with open(p) as f:
                _REF = json.load(f)
        except (OSError, ValueError):
            _REF = {}
    return _REF


def restore_local_names(tree, modname, log=None, fq=None):
    """rename locals that were renamed relative to the reference back to their reference names (in place);
    -> number of names restored"""
    ref = load_reference().get(modname)
    if not ref:
        return 0
    restored = 0
    for q, fn in (fq or functions_with_qualnames)(tree):
        rb = ref.get(q)
        if not rb or q.startswith("__"):
            continue
        ref_names = [b[0] for b in rb]
        # cheap test first: which names does the function bind
        bound = set()
        for n in own_scope_nodes(fn):
            if isinstance(n, ast.Name) and isinstance(n.ctx, (ast.Store, ast.Del)):
                bound.add(n.id)
            elif isinstance(n, ast.ExceptHandler) and n.name:
                bound.add(n.name)
        if set(ref_names) <= bound:
            continue                  # every reference name is still there: nothing was renamed away
        cur = local_bindings(fn)
        cur_names = [b[0] for b in cur]
        unknown = [b for b in cur if b[0] not in ref_names]          # candidates: names the reference does not know
        missing = [b for b in rb if b[0] not in cur_names]           # targets: reference names that disappeared
        if not unknown or not missing:
            continue
        mapping = {}
        used = set()
        # 1. equal signature, in order
        for mb in missing:
            for ub in unknown:
                if ub[0] in mapping or mb[0] in used:
                    continue
                if (ub[1], ub[2], ub[3]) == (mb[1], mb[2], mb[3]):
                    mapping[ub[0]] = mb[0]
                    used.add(mb[0])
                    break
        # 2. same kind and position, and the only unmatched pair of that kind/position
        rest_u = [b for b in unknown if b[0] not in mapping]
        rest_m = [b for b in missing if b[0] not in used]
        for mb in rest_m:
            cu = [b for b in rest_u if (b[1], b[2]) == (mb[1], mb[2]) and b[0] not in mapping]
            cm = [b for b in rest_m if (b[1], b[2]) == (mb[1], mb[2]) and b[0] not in used]
            if len(cu) == 1 and len(cm) == 1:
                mapping[cu[0][0]] = mb[0]
                used.add(mb[0])
        if not mapping:
            continue
        for n in ast.walk(fn):
            if isinstance(n, ast.Name) and n.id in mapping:
                n.id = mapping[n.id]
            elif isinstance(n, ast.ExceptHandler) and n.name in mapping:
                n.name = mapping[n.name]
        restored += len(mapping)
        if log is not None:
            log.append((modname, q, dict(mapping)))
    return restored
