from .variants import M, B

A = "appservice.py"
M("C05", "count-by-other-stride", A,
  "            self.segmentCount, more = divmod(len(apdu.pduData), self.segmentSize)\n            if more:\n                self.segmentCount += 1\n        if _debug: ClientSSM",
  "            self.segmentCount, more = divmod(len(apdu.pduData), self.maxApduLengthAccepted)\n            if more:\n                self.segmentCount += 1\n        if _debug: ClientSSM",
  "C05.R1", "count uses another stride than the slicer")
M("C05", "no-roundup", A,
  "                self.segmentCount, more = divmod(len(apdu.pduData), self.segmentSize)\n                if more:\n                    self.segmentCount += 1",
  "                self.segmentCount, more = divmod(len(apdu.pduData), self.segmentSize)", "C05.R1", "partial last segment dropped (truncated payload)")
M("C05", "slice-overlap", A, "pduData[offset:offset+self.segmentSize]", "pduData[offset:offset+self.segmentSize+1]", "C05.R1", "segments overlap by one octet")
M("C05", "slice-offset", A, "        offset = indx * self.segmentSize", "        offset = (indx % 256) * self.segmentSize", "C05.R1", "offset wraps with the sequence number")
M("C05", "seq-no-mod", A, "            segAPDU.apduSeq = indx % 256 ", "            segAPDU.apduSeq = indx ", "C05.R2", "sequence number not reduced")
M("C05", "last-no-mod", A, "        self.lastSequenceNumber = (self.lastSequenceNumber + 1) % 256", "        self.lastSequenceNumber = self.lastSequenceNumber + 1", ["C05.R2", "C05.R4"], nth=1, of=2, what="client receive counter does not wrap")
M("C05", "in-window-signed", A, "rslt = ((seqA - seqB + 256) % 256) < self.actualWindowSize", "rslt = (seqA - seqB) < self.actualWindowSize", "C05.R2", "window test without wrap")
M("C05", "in-window-inclusive", A, "rslt = ((seqA - seqB + 256) % 256) < self.actualWindowSize", "rslt = ((seqA - seqB + 256) % 256) <= self.actualWindowSize", "C05.R2", "window test off by one")
M("C05", "mor-off-by-one", A, "segAPDU.apduMor = (indx < (self.segmentCount - 1))", "segAPDU.apduMor = (indx < self.segmentCount)", "C05.R3", "last segment says more follows")
M("C05", "window-field", A, "                segAPDU.apduWin = self.actualWindowSize", "                segAPDU.apduWin = self.ssmSAP.proposedWindowSize", "C05.R3")
M("C05", "accept-out-of-order", A,
  "        if apdu.apduSeq != (self.lastSequenceNumber + 1) % 256:\n            if _debug: ClientSSM",
  "        if apdu.apduSeq < (self.lastSequenceNumber + 1) % 256:\n            if _debug: ClientSSM", "C05.R4", "later segments accepted out of order (gap in payload)")
M("C05", "server-accept-dup", A,
  "        if apdu.apduSeq != (self.lastSequenceNumber + 1) % 256:\n            if _debug: ServerSSM",
  "        if apdu.apduSeq > (self.lastSequenceNumber + 1) % 256:\n            if _debug: ServerSSM", "C05.R4", "duplicate segment appended again")
M("C05", "no-nak", A,
  "            segack = SegmentAckPDU(1, 0, self.invokeID, self.lastSequenceNumber, self.actualWindowSize)\n            self.request(segack)\n            return",
  "            return", "C05.R4", "out-of-order segment silently dropped, no negative ack")
M("C05", "deliver-early", A,
  "        elif apdu.apduSeq == ((self.initialSequenceNumber + self.actualWindowSize) % 256):\n            if _debug: ClientSSM._debug(\"    - last segment in the group\")\n\n            self.initialSequenceNumber = self.lastSequenceNumber",
  "        elif apdu.apduSeq == ((self.initialSequenceNumber + self.actualWindowSize) % 256):\n            if _debug: ClientSSM._debug(\"    - last segment in the group\")\n            self.response(self.segmentAPDU)\n            self.initialSequenceNumber = self.lastSequenceNumber",
  ["C05.R4", "C04.R1"], "partial payload delivered at end of window")
M("C05", "burst-unbounded", A, "        for ix in range(self.actualWindowSize):", "        for ix in range(self.segmentCount):", "C05.R5", "whole message sent regardless of window")
M("C05", "burst-plus-one", A, "        for ix in range(self.actualWindowSize):", "        for ix in range(self.actualWindowSize + 1):", "C05.R5")
M("C05", "no-stop-at-last", A, "                self.sentAllSegments = True\n                break", "                self.sentAllSegments = True", "C05.R5")
M("C05", "next-burst-repeats", A, "                self.initialSequenceNumber = (apdu.apduSeq + 1) % 256\n                self.segmentRetryCount = 0\n                self.fill_window",
  "                self.initialSequenceNumber = apdu.apduSeq % 256\n                self.segmentRetryCount = 0\n                self.fill_window", "C05.R5", "acknowledged segment sent again as first of next burst")
M("C05", "client-retry-unguarded", A,
  "            if self.initialSequenceNumber == 0:\n                self.request(self.get_segment(0))\n            else:\n                self.fill_window(self.initialSequenceNumber)",
  "            self.fill_window(self.initialSequenceNumber)", "C05.R6", "client retransmit before first ack uses window None")
B("C05", "inorder-guard-inverted", A,
  "        if apdu.apduSeq != (self.lastSequenceNumber + 1) % 256:\n            if _debug: ClientSSM",
  "        if not (apdu.apduSeq == (1 + self.lastSequenceNumber) % 256):\n            if _debug: ClientSSM")
B("C05", "offset-inline", A, "        offset = indx * self.segmentSize\n        segAPDU.put_data( self.segmentAPDU.pduData[offset:offset+self.segmentSize] )",
  "        segAPDU.put_data( self.segmentAPDU.pduData[self.segmentSize * indx:self.segmentSize * (indx + 1)] )")
B("C05", "mor-respelled", A, "segAPDU.apduMor = (indx < (self.segmentCount - 1))", "segAPDU.apduMor = (indx + 1 < self.segmentCount)")
B("C05", "in-window-respelled", A, "rslt = ((seqA - seqB + 256) % 256) < self.actualWindowSize", "rslt = self.actualWindowSize > (seqA - seqB) % 256")
B("C05", "rename-local", A, "            self.segmentCount, more = divmod(len(apdu.pduData), self.segmentSize)\n            if more:\n                self.segmentCount += 1\n        if _debug: ClientSSM",
  "            self.segmentCount, rest = divmod(len(apdu.pduData), self.segmentSize)\n            if rest:\n                self.segmentCount += 1\n        if _debug: ClientSSM")
M("C05", "nak-handed-to-application", "appservice.py", "            segack = SegmentAckPDU(1, 0, self.invokeID, self.lastSequenceNumber, self.actualWindowSize)\n            self.request(segack)", "            segack = SegmentAckPDU(1, 0, self.invokeID, self.lastSequenceNumber, self.actualWindowSize)\n            self.response(segack)", ["C05.R4", "C04.R1"], "client's negative ack never leaves the host")
M("C05", "server-window-own-only", "appservice.py", "        self.actualWindowSize = min(apdu.apduWin, self.ssmSAP.proposedWindowSize)\n        if _debug: ServerSSM", "        self.actualWindowSize = self.ssmSAP.proposedWindowSize\n        if _debug: ServerSSM", ["C05.R9", "C12.R4"])
M("C05", "final-ack-any-in-window", "appservice.py", "            elif self.sentAllSegments and (apdu.apduSeq == (self.segmentCount - 1) % 256):", "            elif self.sentAllSegments:", "C05.R5", "KF-26 returns (server side)", nth=2, of=2)
M("C05", "final-ack-any-in-window-client", "appservice.py", "            elif self.sentAllSegments and (apdu.apduSeq == (self.segmentCount - 1) % 256):", "            elif self.sentAllSegments:", "C05.R5", "KF-26 returns (client side)", nth=1, of=2)
M("C05", "final-ack-off-by-one", "appservice.py", "            elif self.sentAllSegments and (apdu.apduSeq == (self.segmentCount - 1) % 256):", "            elif self.sentAllSegments and (apdu.apduSeq == self.segmentCount % 256):", "C05.R5", nth=2, of=2)
B("C05", "final-ack-respelled", "appservice.py", "            elif self.sentAllSegments and (apdu.apduSeq == (self.segmentCount - 1) % 256):", "            elif (apdu.apduSeq == (self.segmentCount + 255) % 256) and self.sentAllSegments:", nth=2, of=2)
M("C05", "receiver-waits-one-tseg", "appservice.py", "        self.set_state(SEGMENTED_REQUEST, self.segmentTimeout * 4)", "        self.set_state(SEGMENTED_REQUEST, self.segmentTimeout)", "C05.R10", "KF-27 returns (server receiving a request)")
M("C05", "receiver-rearm-one-tseg", "appservice.py", "            self.restart_timer(self.segmentTimeout * 4)", "            self.restart_timer(self.segmentTimeout)", "C05.R10", nth=3, of=7)
M("C05", "sender-waits-four-tseg", "appservice.py", "                self.set_state(SEGMENTED_RESPONSE, self.segmentTimeout)", "                self.set_state(SEGMENTED_RESPONSE, self.segmentTimeout * 4)", "C05.R10", "sender as slow as the receiver")
B("C05", "receiver-timeout-respelled", "appservice.py", "        self.set_state(SEGMENTED_REQUEST, self.segmentTimeout * 4)", "        self.set_state(SEGMENTED_REQUEST, 4 * self.segmentTimeout)")
