"""Rule registry, run context, findings, evidence and known-findings handling."""
import json
import os
import time
import traceback

from .model import Program, AnalysisError, AnchorMissing

VERIF_DIR = os.path.dirname(os.path.dirname(os.path.abspath(__file__)))
KNOWN_FINDINGS = os.path.join(VERIF_DIR, "known_findings.json")

RULES = {}        # property id -> [Rule]
RULE_BY_ID = {}


class Rule:
    def __init__(self, rid, fn, clause, floor, advisory, engines):
        self.id = rid
        self.prop = rid.split(".")[0]
        self.fn = fn
        self.clause = clause
        self.floor = floor
        self.advisory = advisory
        self.engines = engines


def rule(rid, clause, floor=1, advisory=False, engines=""):
    def deco(fn):
        r = Rule(rid, fn, clause, floor, advisory, engines)
        RULES.setdefault(r.prop, []).append(r)
        RULE_BY_ID[rid] = r
        return fn
    return deco


class Instance:
    __slots__ = ("rule", "construct", "where", "ok", "msg", "facts")

    def __init__(self, rule, construct, where, ok, msg, facts):
        self.rule = rule
        self.construct = construct
        self.where = where
        self.ok = ok
        self.msg = msg
        self.facts = facts

    def as_dict(self):
        d = {"rule": self.rule, "construct": self.construct, "where": self.where, "ok": self.ok}
        if self.msg:
            d["msg"] = self.msg
        if self.facts is not None:
            d["facts"] = self.facts
        return d


class Ctx:
    def __init__(self, prog, tier="quick", seed=0):
        self.prog = prog
        self.tier = tier
        self.seed = seed
        self.instances = []
        self._index = {}
        self.evaluations = 0
        self.current = None
        self.stats = {}     # free-form counters: functions, paths, table entries ...
        self.analysed = set()

    # --- called by rules
    def check(self, construct, ok, where, msg="", facts=None):
        """record one rule instance; ok False = violation of the current rule"""
        key = (self.current.id, construct)
        old = self._index.get(key)
        inst = Instance(self.current.id, construct, where, bool(ok), "" if ok else msg, facts)
        if old is None:
            self._index[key] = len(self.instances)
            self.instances.append(inst)
        elif self.instances[old].ok and not ok:
            self.instances[old] = inst      # one failing evaluation makes the instance fail
        self.evaluations += 1
        return bool(ok)

    def ok(self, construct, where, facts=None):
        return self.check(construct, True, where, facts=facts)

    def bad(self, construct, where, msg, facts=None):
        return self.check(construct, False, where, msg, facts)

    def count(self, key, n=1):
        self.stats[key] = self.stats.get(key, 0) + n

    def touched(self, what):
        self.analysed.add(what)


def load_known_findings():
    if not os.path.exists(KNOWN_FINDINGS):
        return []
    with open(KNOWN_FINDINGS) as f:
        return json.load(f).get("findings", [])


def run_property(pid, root=None, tier="quick", seed=0, only_rules=None, prog=None):
    """-> dict(result) ; never raises for analysed-tree problems (status 'error')"""
    from . import rules as _rules  # noqa: F401  (registers everything)
    t0 = time.time()
    res = {"property": pid, "status": "ok", "errors": [], "violations": [], "known": [],
           "advisory": [], "instances": [], "per_rule": {}, "stats": {}, "analysed": []}
    try:
        if prog is None:
            prog = Program(root)
    except AnalysisError as e:
        res["status"] = "error"
        res["errors"].append("load: %s" % e)
        res["wall_s"] = time.time() - t0
        return res
    res["digest"] = prog.digest
    ctx = Ctx(prog, tier, seed)
    known = [k for k in load_known_findings() if k.get("status") == "open"]
    rules = RULES.get(pid, [])
    if not rules:
        res["status"] = "error"
        res["errors"].append("no rules registered for %s" % pid)
    for r in rules:
        if only_rules and r.id not in only_rules:
            continue
        ctx.current = r
        n0 = len(ctx.instances)
        try:
            r.fn(ctx)
        except AnalysisError as e:
            res["status"] = "error"
            res["errors"].append("%s: %s: %s" % (r.id, type(e).__name__, e))
            continue
        except RecursionError as e:
            res["status"] = "error"
            res["errors"].append("%s: recursion limit" % r.id)
            continue
        except Exception as e:  # a crash of the checker is an analysis error, not a violation
            res["status"] = "error"
            tb = traceback.format_exc().strip().split("\n")
            res["errors"].append("%s: internal %s: %s @ %s" % (r.id, type(e).__name__, e, tb[-3].strip() if len(tb) >= 3 else ""))
            continue
        mine = ctx.instances[n0:]
        res["per_rule"][r.id] = {"clause": r.clause, "instances": len(mine),
                                 "holding": sum(1 for i in mine if i.ok), "floor": r.floor,
                                 "advisory": r.advisory, "engines": r.engines}
        if len(mine) < r.floor:
            res["status"] = "error"
            res["errors"].append("%s: matched %d instances, floor is %d (anchor shape changed?)" % (r.id, len(mine), r.floor))
        for i in mine:
            if i.ok:
                continue
            if r.advisory:
                res["advisory"].append(i.as_dict())
                continue
            kf = _match_known(known, i)
            if kf is not None:
                d = i.as_dict()
                d["known"] = kf.get("id")
                d["what_fails"] = kf.get("what_fails")
                res["known"].append(d)
            else:
                res["violations"].append(i.as_dict())
    res["instances"] = [i.as_dict() for i in ctx.instances]
    res["stats"] = ctx.stats
    res["evaluations"] = ctx.evaluations
    # what was looked at: the sites named by the rules plus the source location of every rule instance
    sites = set(ctx.analysed)
    for i in ctx.instances:
        if i.where:
            sites.add(str(i.where))
    res["analysed"] = sorted(sites)[:600]
    res["stats"]["instance_sites"] = len(sites)
    res["wall_s"] = time.time() - t0
    if res["status"] != "error" and res["violations"]:
        res["status"] = "violation"
    return res


def _match_known(known, inst):
    for k in known:
        if k.get("rule") == inst.rule and k.get("construct") == inst.construct:
            return k
    return None


def format_instance(d):
    return "%s %s %s — %s" % (d["where"], d["rule"], d["construct"], d.get("msg", ""))


def write_evidence(pid, res, tier, seed, path, level="other", extra_cov=None):
    insts = res["instances"]
    nontriv = {(i["rule"], i["construct"]) for i in insts}
    # rotate the sample by seed
    samples = []
    if insts:
        n = len(insts)
        step = max(1, n // 8)
        start = seed % n
        for k in range(0, n, step):
            samples.append(insts[(start + k) % n])
            if len(samples) >= 8:
                break
    nonadv = [i for i in insts if not res["per_rule"].get(i["rule"], {}).get("advisory")]
    cov = {
        "explanation": (
            "Static analysis of %s (digest %s): every armed rule of %s was evaluated on every "
            "instance its extractor found in the parsed source; each rule is a structural necessary "
            "condition of the property (see DESIGN.md section 3, %s); no code of the target was executed."
            % (res.get("root", "/repo/py34/bacpypes"), res.get("digest", "?"), pid, pid)),
        "obligations": len(nonadv),
        "discharged": sum(1 for i in nonadv if i["ok"]),
        "evaluations": max(res.get("evaluations", 0), len(insts)),
        "distinct_nontrivial": len(nontriv),
        "rule": "one evaluation = one (rule, construct) instance found by the rule's extractor in the "
                "current source (function path, table entry, call site, guard); distinct by (rule id, construct key); "
                "non-trivial = the anchor resolved and produced facts for the predicate",
        "samples": samples,
        "per_rule": res["per_rule"],
        "analysed": res["analysed"],
        "stats": res["stats"],
        "known_findings_reported": [format_instance(d) for d in res["known"]],
        "advisory": [format_instance(d) for d in res["advisory"]][:20],
        "errors": res["errors"],
        "checker_cmd": "/venv/bin/python -m bacverif check %s --tier %s" % (pid, tier),
        "trusted_base": ["CPython ast", "hand-written reference tables in bacverif/rules and spec/",
                         "known_findings.json triage"],
        "exhaustive": True,
    }
    if extra_cov:
        cov.update(extra_cov)
    ev = {
        "property_id": pid,
        "tier": tier,
        "seed": int(seed),
        "level": level,
        "coverage": cov,
        "assumptions": [
            "the analysed program is /repo/py34/bacpypes (the tree setup.py installs for Python >= 3.4)",
            "rules are necessary conditions of the property, not sufficient ones; clauses listed as 'not decided' in DESIGN.md are outside this check",
            "`if _debug:` statements and logger calls are effect free",
        ],
        "wall_s": round(res.get("wall_s", 0.0), 3),
        "violations": len(res["violations"]),
    }
    os.makedirs(os.path.dirname(path), exist_ok=True)
    tmp = path + ".tmp"
    with open(tmp, "w") as f:
        json.dump(ev, f, indent=1, sort_keys=True, default=str)
    os.replace(tmp, path)
    return ev
