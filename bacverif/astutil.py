"""Small AST utilities shared by the engines (no dependency on rule modules)."""
import ast


def norm_nc(node):
    """normalised text without caching (safe inside transformers that mutate nodes)"""
    try:
        return ast.unparse(node)
    except Exception:  # pragma: no cover
        return ast.dump(node)


def clone(node):
    """copy of an AST subtree following _fields only (not the _parent back pointers, not cached text)"""
    if isinstance(node, list):
        return [clone(x) for x in node]
    if not isinstance(node, ast.AST):
        return node
    new = type(node)()
    for f in node._fields:
        if hasattr(node, f):
            setattr(new, f, clone(getattr(node, f)))
    for a in ("lineno", "col_offset", "end_lineno", "end_col_offset"):
        if hasattr(node, a):
            setattr(new, a, getattr(node, a))
    return new


class Subst(ast.NodeTransformer):
    """replace loads of names (and of attribute chains such as `self.f`) whose text is a key of mapping"""

    def __init__(self, mapping):
        self.mapping = mapping
        self.has_attr_keys = any("." in k for k in mapping)

    def visit_Name(self, node):
        if isinstance(node.ctx, ast.Load) and node.id in self.mapping:
            return clone(self.mapping[node.id])
        return node

    def visit_Attribute(self, node):
        if self.has_attr_keys and isinstance(node.ctx, ast.Load):
            k = norm_nc(node)
            if k in self.mapping:
                return clone(self.mapping[k])
        self.generic_visit(node)
        return node
