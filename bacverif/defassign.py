"""Definite-assignment analysis on the structured AST (no path enumeration).

maybe_undefined(fn) -> [(name, read node)] : reads of a function-local name at
which the name is not assigned on every way from the function entry, counting
only the *current* iteration of an enclosing loop (a value left over from an
earlier iteration does not count: that is exactly the stale-flag defect).

stale_loop_flags(fn) -> [(name, read node, loop)] : a local that is read in a
loop body, is assigned in that body only conditionally before the read, whose
in-loop assignments neither use its own previous value nor are guarded by it
(so it is a per-iteration flag, not an accumulator), i.e. the read may see the
value of an earlier iteration.

The analysis is path-insensitive (branches are joined by intersection); it is
exact for the straight if/for/try shapes this code base uses, and a correlated
pair of conditions (if a: x = ..  /  if a: use(x)) is recognised when the two
tests have the same normalised text and nothing they mention is assigned in
between."""
import ast

from .model import norm


def _local_names(fn):
    names = set()
    glob = set()
    for n in ast.walk(fn):
        if isinstance(n, (ast.Global, ast.Nonlocal)):
            glob |= set(n.names)
    for n in _walk_scope(fn):
        if isinstance(n, ast.Name) and isinstance(n.ctx, (ast.Store, ast.Del)):
            names.add(n.id)
        elif isinstance(n, ast.ExceptHandler) and n.name:
            names.add(n.name)
        elif isinstance(n, (ast.Import, ast.ImportFrom)):
            for a in n.names:
                names.add((a.asname or a.name).split(".")[0])
        elif isinstance(n, (ast.FunctionDef, ast.ClassDef)) and n is not fn:
            names.add(n.name)
    return names - glob


def _walk_scope(fn):
    """nodes of fn's own scope (not nested function/class/lambda/comprehension bodies)"""
    todo = list(ast.iter_child_nodes(fn)) if isinstance(fn, (ast.FunctionDef, ast.AsyncFunctionDef)) else [fn]
    while todo:
        n = todo.pop()
        yield n
        if isinstance(n, (ast.FunctionDef, ast.AsyncFunctionDef, ast.ClassDef, ast.Lambda)):
            continue
        if isinstance(n, (ast.ListComp, ast.SetComp, ast.DictComp, ast.GeneratorExp)):
            # only the first iterable is evaluated in the enclosing scope
            todo.append(n.generators[0].iter)
            continue
        todo.extend(ast.iter_child_nodes(n))


def _reads(expr):
    out = []
    if expr is None:
        return out
    for n in _walk_scope(expr):
        if isinstance(n, ast.Name) and isinstance(n.ctx, ast.Load):
            out.append(n)
    out.sort(key=lambda n: (n.lineno, n.col_offset))
    return out


def _targets(t):
    if isinstance(t, ast.Name):
        return [t.id]
    if isinstance(t, (ast.Tuple, ast.List)):
        return [x for e in t.elts for x in _targets(e)]
    if isinstance(t, ast.Starred):
        return _targets(t.value)
    return []


class _DA:
    def __init__(self, fn):
        self.fn = fn
        self.locals = _local_names(fn)
        self.params = {a.arg for a in fn.args.args + fn.args.kwonlyargs + getattr(fn.args, "posonlyargs", [])}
        if fn.args.vararg:
            self.params.add(fn.args.vararg.arg)
        if fn.args.kwarg:
            self.params.add(fn.args.kwarg.arg)
        self.findings = []
        self.guards = []       # stack of (test text, names assigned under it when true)

    def use(self, expr, defined):
        for n in _reads(expr):
            if n.id in self.locals and n.id not in self.params and n.id not in defined:
                # correlated guard: an enclosing test with the same text as an earlier test that assigned it
                if any(n.id in names for txt, names in self.guards):
                    continue
                self.findings.append((n.id, n))

    def block(self, stmts, defined):
        """-> defined set at fall-through, or None when the block always leaves"""
        d = set(defined)
        for st in stmts:
            d = self.stmt(st, d)
            if d is None:
                return None
        return d

    def stmt(self, st, d):
        if isinstance(st, ast.Assign):
            self.use(st.value, d)
            for t in st.targets:
                if not isinstance(t, (ast.Name, ast.Tuple, ast.List)):
                    self.use(t, d)
            for t in st.targets:
                d |= set(_targets(t))
            return d
        if isinstance(st, ast.AugAssign):
            self.use(st.value, d)
            if isinstance(st.target, ast.Name):
                if st.target.id in self.locals and st.target.id not in self.params and st.target.id not in d:
                    self.findings.append((st.target.id, st.target))
            else:
                self.use(st.target, d)
            return d
        if isinstance(st, ast.AnnAssign):
            if st.value is not None:
                self.use(st.value, d)
                d |= set(_targets(st.target))
            return d
        if isinstance(st, ast.If):
            self.use(st.test, d)
            txt = norm(st.test)
            hit = [names for t, names in self._corr if t == txt]
            pushed = False
            if hit:
                self.guards.append((txt, set().union(*hit)))
                pushed = True
            a = self.block(st.body, d)
            if pushed:
                self.guards.pop()
            b = self.block(st.orelse, d)
            # remember what the true arm assigns, for a later test with the same text
            if a is not None:
                gained = a - d
                if gained and not (b is not None and gained <= b):
                    self._corr.append((txt, gained))
            if a is None and b is None:
                return None
            if a is None:
                return b
            if b is None:
                return a
            return a & b
        if isinstance(st, (ast.For, ast.AsyncFor)):
            self.use(st.iter, d)
            body_in = set(d) | set(_targets(st.target))
            if not isinstance(st.target, (ast.Name, ast.Tuple, ast.List)):
                self.use(st.target, d)
            self.breaks.append([])
            self.block(st.body, body_in)
            brk = self.breaks.pop()
            out = self.block(st.orelse, set(d))
            outs = brk + ([out] if out is not None else [])
            return set.intersection(*outs) if outs else None
        if isinstance(st, ast.While):
            self.use(st.test, d)
            self.breaks.append([])
            self.block(st.body, set(d))
            brk = self.breaks.pop()
            infinite = isinstance(st.test, ast.Constant) and bool(st.test.value)
            out = None if infinite else self.block(st.orelse, set(d))
            outs = brk + ([out] if out is not None else [])
            return set.intersection(*outs) if outs else None
        if isinstance(st, ast.Try):
            body = self.block(st.body, set(d))
            els = self.block(st.orelse, set(body)) if body is not None else None
            outs = []
            if els is not None:
                outs.append(els)
            for h in st.handlers:
                hd = set(d)
                if h.name:
                    hd.add(h.name)
                if h.type is not None:
                    self.use(h.type, d)
                o = self.block(h.body, hd)
                if o is not None:
                    outs.append(o - ({h.name} if h.name else set()))
            res = set.intersection(*outs) if outs else None
            if st.finalbody:
                f = self.block(st.finalbody, set(d) if res is None else set(res))
                if f is None:
                    return None
                return None if res is None else f
            return res
        if isinstance(st, (ast.With, ast.AsyncWith)):
            for it in st.items:
                self.use(it.context_expr, d)
                if it.optional_vars is not None:
                    d |= set(_targets(it.optional_vars))
            return self.block(st.body, d)
        if isinstance(st, ast.Return):
            self.use(st.value, d)
            return None
        if isinstance(st, ast.Raise):
            self.use(st.exc, d)
            self.use(st.cause, d)
            return None
        if isinstance(st, ast.Break):
            if self.breaks:
                self.breaks[-1].append(set(d))
            return None
        if isinstance(st, ast.Continue):
            return None
        if isinstance(st, (ast.FunctionDef, ast.AsyncFunctionDef, ast.ClassDef)):
            d.add(st.name)
            return d
        if isinstance(st, (ast.Import, ast.ImportFrom)):
            for a in st.names:
                d.add((a.asname or a.name).split(".")[0])
            return d
        if isinstance(st, ast.Delete):
            for t in st.targets:
                if isinstance(t, ast.Name):
                    d.discard(t.id)
                else:
                    self.use(t, d)
            return d
        if isinstance(st, (ast.Global, ast.Nonlocal, ast.Pass)):
            return d
        if isinstance(st, ast.Assert):
            self.use(st.test, d)
            return d
        if isinstance(st, ast.Expr):
            self.use(st.value, d)
            return d
        for ch in ast.iter_child_nodes(st):
            if isinstance(ch, ast.expr):
                self.use(ch, d)
        return d

    def run(self):
        self._corr = []
        self.breaks = []
        self.block(self.fn.body, set())
        return self.findings


def _has_break(loop):
    todo = list(loop.body)
    while todo:
        n = todo.pop()
        if isinstance(n, ast.Break):
            return True
        if isinstance(n, (ast.For, ast.While, ast.AsyncFor, ast.FunctionDef, ast.AsyncFunctionDef, ast.ClassDef)):
            todo.extend(getattr(n, "orelse", []) if not isinstance(n, (ast.FunctionDef, ast.AsyncFunctionDef, ast.ClassDef)) else [])
            continue
        todo.extend(x for x in ast.iter_child_nodes(n) if isinstance(x, ast.stmt) or isinstance(x, ast.ExceptHandler))
    return False


def maybe_undefined(fn):
    out = []
    seen = set()
    for name, node in _DA(fn).run():
        k = (name, node.lineno, node.col_offset)
        if k not in seen:
            seen.add(k)
            out.append((name, node))
    return out


def stale_loop_flags(fn):
    """see module docstring"""
    out = []
    for loop in [n for n in _walk_scope(fn) if isinstance(n, (ast.For, ast.While))]:
        body_names = set()
        for st in loop.body:
            for n in _walk_scope(st):
                if isinstance(n, ast.Name) and isinstance(n.ctx, ast.Store):
                    body_names.add(n.id)
        tgt = set(_targets(loop.target)) if isinstance(loop, ast.For) else set()
        for name in sorted(body_names - tgt):
            # accumulator? some in-loop assignment uses the previous value, or is guarded by a test that mentions it
            accum = False
            for st in loop.body:
                for n in _walk_scope(st):
                    if isinstance(n, ast.AugAssign) and isinstance(n.target, ast.Name) and n.target.id == name:
                        accum = True
                    if isinstance(n, ast.Assign) and name in [x for t in n.targets for x in _targets(t)]:
                        if any(r.id == name for r in _reads(n.value)):
                            accum = True
                        p = getattr(n, "_parent", None)
                        while p is not None and p is not loop:
                            if isinstance(p, (ast.If, ast.While)) and any(r.id == name for r in _reads(p.test)):
                                accum = True
                            p = getattr(p, "_parent", None)
            if accum:
                continue
            # definite assignment inside one iteration, starting with everything else defined
            da = _DA(fn)
            da._corr = []
            da.breaks = [[]]
            start = (da.locals | da.params) - {name}
            da.block(loop.body, set(start))
            for nm, node in da.findings:
                if nm == name:
                    out.append((name, node, loop))
    return out


_GROW = ("append", "extend", "add", "update", "insert")


def stale_accumulators(fn):
    """[(name, consuming node, loop)]: a local container that grows inside a loop body
    (append/extend/...) and is *consumed* in the same body (read other than as the
    receiver of a grow call) without being re-created earlier in that iteration: each
    pass then also hands on what the previous passes collected."""
    out = []
    da0 = _DA(fn)
    for loop in [n for n in _walk_scope(fn) if isinstance(n, (ast.For, ast.While))]:
        grown = set()
        receivers = set()
        for st in loop.body:
            for n in _walk_scope(st):
                if isinstance(n, ast.Call) and isinstance(n.func, ast.Attribute) and n.func.attr in _GROW and isinstance(n.func.value, ast.Name):
                    grown.add(n.func.value.id)
                    receivers.add(id(n.func.value))
                if isinstance(n, ast.AugAssign) and isinstance(n.target, ast.Name) and isinstance(n.op, ast.Add):
                    pass        # numeric accumulators are not containers
        for name in sorted(grown & da0.locals):
            # consumed in this body?  a Load of the name that is not the receiver of a grow call, outside nested loops'
            # own grow calls; debug calls do not count
            consumers = []
            for st in loop.body:
                for n in _walk_scope(st):
                    if isinstance(n, ast.Name) and n.id == name and isinstance(n.ctx, ast.Load) and id(n) not in receivers:
                        p = getattr(n, "_parent", None)
                        dbg = False
                        while p is not None and not isinstance(p, ast.stmt):
                            if isinstance(p, ast.Call) and isinstance(p.func, ast.Attribute) and p.func.attr.startswith("_debug"):
                                dbg = True
                            p = getattr(p, "_parent", None)
                        if isinstance(p, ast.If) and any(x is n for x in ast.walk(p.test)) and "_debug" in norm(p.test):
                            dbg = True
                        if not dbg:
                            consumers.append(n)
            if not consumers:
                continue
            da = _DA(fn)
            da._corr = []
            da.breaks = [[]]
            start = (da.locals | da.params) - {name}
            da.block(loop.body, set(start))
            bad = [node for nm, node in da.findings if nm == name]
            if bad:
                out.append((name, bad[0], loop))
    return out
