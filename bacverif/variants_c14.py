from .variants import M, B

T = "task.py"
C = "core.py"
M("C14", "no-heapify", T, "                task.isScheduled = False\n                heapify(self.tasks)\n                break", "                task.isScheduled = False\n                break", "C14.R1", "heap invariant broken after suspend: later tasks fire out of order")
M("C14", "raw-append", T, "        heappush( self.tasks, (task.taskTime, next(self.counter), task) )", "        self.tasks.append( (task.taskTime, next(self.counter), task) )", ["C14.R1", "C14.R2", "C14.R3"])
M("C14", "no-tiebreak", T, "        heappush( self.tasks, (task.taskTime, next(self.counter), task) )", "        heappush( self.tasks, (task.taskTime, 0, task) )", "C14.R2", "equal times ordered by task id, not by installation")
M("C14", "counter-reset", T, "        # if this is already installed, suspend it\n        if task.isScheduled:", "        self.counter = itertools.count()\n        if task.isScheduled:", "C14.R2")
M("C14", "flag-not-cleared-on-suspend", T, "                task.isScheduled = False\n                heapify(self.tasks)", "                heapify(self.tasks)", "C14.R3", "suspended task still looks scheduled: a later install suspends again")
M("C14", "flag-not-cleared-on-pop", T, "                task = nxttask\n                task.isScheduled = False\n", "                task = nxttask\n", "C14.R3")
M("C14", "reinstall-duplicates", T, "        if task.isScheduled:\n            self.suspend_task(task)\n\n        # save this in the task list", "        # save this in the task list", "C14.R4", "re-installing a pending task leaves two entries")
M("C14", "suspend-by-equality", T, "            if task is curtask:", "            if task.taskTime == curtask.taskTime:", "C14.R4", "suspend removes another task due at the same time")
M("C14", "suspend-no-break", T, "                heapify(self.tasks)\n                break\n", "                heapify(self.tasks)\n", "C14.R4")
M("C14", "early-fire", T, "            if when <= now:", "            if when <= now + 0.5:", "C14.R5")
M("C14", "pop-strict", T, "            if when <= now:", "            if when < now:", "C14.R5", "a task due exactly now waits another round")
M("C14", "reinstall-all", T, "        if isinstance(task, RecurringTask):\n            task.install_task()", "        if not isinstance(task, OneShotDeleteTask):\n            task.install_task()", "C14.R6", "one-shot tasks re-fire")
M("C14", "zero-interval", T, "        if self.taskInterval <= 0.0:", "        if self.taskInterval < 0.0:", "C14.R6")
M("C14", "recurring-same-slot", T, "            now = _task_manager.get_time() + 0.000001", "            now = _task_manager.get_time() - 0.000001", "C14.R6", "a recurring task firing exactly on a slot is re-installed at the same instant")
M("C14", "recurring-offset-dropped", T, "((now - offset) % interval) + offset", "((now - offset) % interval)", "C14.R6")
M("C14", "isolation-removed", C, "                    try:\n                        fn(*args, **kwargs)\n                    except Exception as err:\n                        run_once._exception(\"an error has occurred: %s\", err)", "                    fn(*args, **kwargs)", ["C14.R7"])
M("C14", "isolation-breaks-loop", C, "                    try:\n                        fn(*args, **kwargs)\n                    except Exception as err:\n                        run._exception(\"an error has occurred: %s\", err)", "                    try:\n                        fn(*args, **kwargs)\n                    except Exception as err:\n                        run._exception(\"an error has occurred: %s\", err)\n                        break", "C14.R7")
M("C14", "lifo", C, "                for fn, args, kwargs in fnlist:\n                    if _debug: run_once", "                for fn, args, kwargs in reversed(fnlist):\n                    if _debug: run_once", "C14.R8")
M("C14", "deferred-prepends", C, "    deferredFns.append((fn, args, kwargs))", "    deferredFns.insert(0, (fn, args, kwargs))", "C14.R8")
M("C14", "no-detach", C, "                fnlist = deferredFns\n                deferredFns = []\n\n                # call the functions\n                for fn, args, kwargs in fnlist:\n                    if _debug: run_once",
  "                fnlist = deferredFns[:]\n\n                # call the functions\n                for fn, args, kwargs in fnlist:\n                    if _debug: run_once", "C14.R8", allow_error=True)
B("C14", "pop-guard-respelled", T, "            if when <= now:", "            if not (now < when):")
B("C14", "interval-guard-respelled", T, "        if self.taskInterval <= 0.0:", "        if not self.taskInterval > 0:")
B("C14", "per-call-helper-name", C, "                    except Exception as err:\n                        run._exception(\"an error has occurred: %s\", err)", "                    except Exception as exc:\n                        run._exception(\"deferred function failed: %s\", exc)")
