"""Source normalisations applied when a module is loaded, before the rules see it.

They undo two kinds of behaviour-preserving clean-up so that a rule written
against the reviewed tree keeps seeing the construct it reasons about:

* precompiled struct objects:  `_S = struct.Struct('>H')` at module level and
  `_S.pack(x)` / `_S.unpack(b)` / `_S.unpack_from(b, o)` / `_S.size` in the code
  are rewritten to `struct.pack('>H', x)` ... (the format string is the fact the
  codec rules need);

* extracted private helpers:  a call to a function that the reviewed reference
  (spec/local_names.json, key "__functions__") does not know, that is defined in
  the same module (a method of the caller's class called through `self.` or
  `Class.f(self, ...)`, or a module-level function), that is not recursive and
  has a simple shape, is replaced by the helper's body with the parameters
  substituted.  Shapes handled: a body without value-returning `return`
  (statement call), and a body whose only `return <expr>` is its last statement
  (call used as a value).  Anything else is left alone.

Functions the reference knows are never inlined, so the self-test corpus and
the seeded changes, which do not add functions, are analysed exactly as written.
"""
import ast
import copy
import struct as _struct

_SCOPES = (ast.FunctionDef, ast.AsyncFunctionDef, ast.ClassDef, ast.Lambda)


# ---------------------------------------------------------------- struct objects

def _struct_objects(tree):
    objs = {}
    for st in tree.body:
        if isinstance(st, ast.Assign) and len(st.targets) == 1 and isinstance(st.targets[0], ast.Name) and isinstance(st.value, ast.Call):
            f = st.value.func
            if isinstance(f, ast.Attribute) and f.attr == "Struct" and isinstance(f.value, ast.Name) and f.value.id == "struct" \
                    and len(st.value.args) == 1 and isinstance(st.value.args[0], ast.Constant) and isinstance(st.value.args[0].value, (str, bytes)):
                objs[st.targets[0].id] = st.value.args[0].value
    return objs


class _StructRewrite(ast.NodeTransformer):
    def __init__(self, objs):
        self.objs = objs
        self.count = 0

    def visit_Call(self, node):
        self.generic_visit(node)
        f = node.func
        # getattr(x, "name") with a constant identifier is x.name
        if isinstance(f, ast.Name) and f.id == "getattr" and len(node.args) == 2 and not node.keywords and isinstance(node.args[1], ast.Constant) \
                and isinstance(node.args[1].value, str) and node.args[1].value.isidentifier():
            return ast.copy_location(ast.Attribute(value=node.args[0], attr=node.args[1].value, ctx=ast.Load()), node)
        # heapq.heappush(..) (import heapq) is heappush(..) (from heapq import heappush)
        if isinstance(f, ast.Attribute) and isinstance(f.value, ast.Name) and f.value.id == "heapq" and f.attr in ("heappush", "heappop", "heapify", "heapreplace", "heappushpop"):
            node.func = ast.copy_location(ast.Name(id=f.attr, ctx=ast.Load()), f)
            return node
        # struct: '!' (network) and '>' (big endian) are the same byte order, size and alignment
        if isinstance(f, ast.Attribute) and isinstance(f.value, ast.Name) and f.value.id == "struct" and f.attr in ("pack", "unpack", "unpack_from", "calcsize", "pack_into", "Struct") \
                and node.args and isinstance(node.args[0], ast.Constant) and isinstance(node.args[0].value, str) and node.args[0].value.startswith("!"):
            node.args[0] = ast.copy_location(ast.Constant(value=">" + node.args[0].value[1:]), node.args[0])
        if isinstance(f, ast.Attribute) and isinstance(f.value, ast.Name) and f.value.id in self.objs and f.attr in ("pack", "unpack", "unpack_from", "pack_into", "iter_unpack"):
            fmt = ast.copy_location(ast.Constant(value=self.objs[f.value.id]), node)
            new = ast.Call(func=ast.copy_location(ast.Attribute(value=ast.copy_location(ast.Name(id="struct", ctx=ast.Load()), node), attr=f.attr, ctx=ast.Load()), node),
                           args=[fmt] + node.args, keywords=node.keywords)
            self.count += 1
            return ast.copy_location(new, node)
        return node

    def visit_Attribute(self, node):
        self.generic_visit(node)
        if node.attr == "size" and isinstance(node.value, ast.Name) and node.value.id in self.objs and isinstance(node.ctx, ast.Load):
            try:
                return ast.copy_location(ast.Constant(value=_struct.calcsize(self.objs[node.value.id])), node)
            except _struct.error:
                return node
        return node


# ---------------------------------------------------------------- helper inlining

def _own_nodes(fn):
    out = []

    def rec(n):
        for ch in ast.iter_child_nodes(n):
            out.append(ch)
            if not isinstance(ch, _SCOPES):
                rec(ch)
    rec(fn)
    return out


def _qualnames(tree):
    out = {}

    def rec(node, prefix, cls):
        for ch in ast.iter_child_nodes(node):
            if isinstance(ch, (ast.FunctionDef, ast.AsyncFunctionDef)):
                out[id(ch)] = (prefix + ch.name, cls)
                rec(ch, prefix + ch.name + ".", None)
            elif isinstance(ch, ast.ClassDef):
                rec(ch, prefix + ch.name + ".", ch)
            else:
                rec(ch, prefix, cls)
    rec(tree, "", None)
    return out


def _simple_shape(h):
    """'stmt' (no value returned), 'value' (single trailing return <expr>), or None"""
    if h.decorator_list or h.args.vararg or h.args.kwarg or h.args.kwonlyargs or getattr(h.args, "posonlyargs", []):
        return None
    nodes = _own_nodes(h)
    if any(isinstance(n, (ast.Yield, ast.YieldFrom, ast.Await, ast.Nonlocal)) for n in nodes):
        return None
    if any(isinstance(n, _SCOPES) for n in nodes):
        return None
    rets = [n for n in nodes if isinstance(n, ast.Return)]
    body = [s for s in h.body if not (isinstance(s, ast.Expr) and isinstance(s.value, ast.Constant) and isinstance(s.value.value, str))]
    if not body:
        return None
    if not rets:
        return "stmt"
    if len(rets) == 1 and rets[0] is body[-1]:
        return "value" if rets[0].value is not None else "stmt"
    # a statement helper with guard clauses: bare returns under if-nesting only
    if all(r.value is None for r in rets) and _bare_returns_under_ifs(body):
        return "stmt"
    # several returns, all of them in tail position of if/else arms (guard clauses): convertible to assignments
    if all(r.value is not None for r in rets) and _tail_convertible(body):
        return "tail"
    # a search: simple statements, one for loop that returns a match from inside (if-nesting only), a default return
    if _search_shape(body) is not None:
        return "search"
    return None


_MISS = {}


def _search_shape(body):
    """-> (prefix statements, loop, default expression) for  [simple...] for ..: [if ..: return x]  [return default]"""
    loops = [i for i, s in enumerate(body) if isinstance(s, ast.For)]
    if len(loops) != 1:
        return None
    i = loops[0]
    pre, loop, post = body[:i], body[i], body[i + 1:]
    if any(_has_return(s) or isinstance(s, (ast.For, ast.While, ast.Try, ast.With)) for s in pre):
        return None
    if loop.orelse:
        if len(loop.orelse) == 1 and isinstance(loop.orelse[0], ast.Return) and not post:
            post = list(loop.orelse)
        else:
            return None
    miss = []
    if post and isinstance(post[-1], ast.Return) and len(post) > 1:
        # statements that run when nothing was found, then the final return: the else branch of a for/else
        miss, post = post[:-1], post[-1:]
        if any(_has_return(s) or isinstance(s, (ast.For, ast.While, ast.Try, ast.With)) for s in miss):
            return None
    if len(post) > 1 or (post and not isinstance(post[0], ast.Return)):
        return None
    default = post[0].value if post and post[0].value is not None else ast.Constant(value=None)
    _MISS[id(loop)] = miss

    def ok(stmts):
        for s in stmts:
            if isinstance(s, ast.Return):
                if s.value is None:
                    return False
                continue
            if isinstance(s, ast.If):
                if not ok(s.body) or not ok(s.orelse):
                    return False
                continue
            if isinstance(s, (ast.For, ast.While, ast.Try, ast.With)) and _has_return(s):
                return False
            if isinstance(s, (ast.Break,)):
                return False
        return True
    if not ok(loop.body) or not _has_return(loop):
        return None
    return pre, loop, default


def _searchify(body, target_name):
    pre, loop, default = _search_shape(body)

    def conv(stmts):
        out = []
        for s in stmts:
            if isinstance(s, ast.Return):
                if not (isinstance(s.value, ast.Name) and s.value.id == target_name):
                    out.append(ast.Assign(targets=[ast.Name(id=target_name, ctx=ast.Store())], value=s.value))
                out.append(ast.Break())
                return out
            if isinstance(s, ast.If):
                out.append(ast.If(test=s.test, body=conv(s.body) or [ast.Pass()], orelse=conv(s.orelse)))
            else:
                out.append(s)
        return out
    miss = _MISS.get(id(loop)) or []
    if miss:
        # for ..: if c: x = e; break   else: <miss>; x = default
        tail = [] if (isinstance(default, ast.Name) and default.id == target_name) else [ast.Assign(targets=[ast.Name(id=target_name, ctx=ast.Store())], value=default)]
        new_loop = ast.For(target=loop.target, iter=loop.iter, body=conv(loop.body), orelse=list(miss) + tail, type_comment=None)
        return list(pre) + [new_loop]
    new_loop = ast.For(target=loop.target, iter=loop.iter, body=conv(loop.body), orelse=[], type_comment=None)
    return list(pre) + [ast.Assign(targets=[ast.Name(id=target_name, ctx=ast.Store())], value=default), new_loop]


def _always_returns(stmts):
    if not stmts:
        return False
    last = stmts[-1]
    if isinstance(last, ast.Return):
        return True
    if isinstance(last, ast.If):
        return _always_returns(last.body) and _always_returns(last.orelse)
    if isinstance(last, ast.Raise):
        return True
    return False


def _has_return(st):
    return any(isinstance(n, ast.Return) for n in ast.walk(st))


def _bare_returns_under_ifs(stmts):
    for st in stmts:
        if isinstance(st, ast.Return):
            continue
        if _has_return(st):
            if not isinstance(st, ast.If) or not _bare_returns_under_ifs(st.body) or not _bare_returns_under_ifs(st.orelse):
                return False
    return True


def _unguard(stmts):
    """bare `return`s of a statement helper removed: the code behind a returning `if` goes into the arms that fall through"""
    out = []
    for i, st in enumerate(stmts):
        if isinstance(st, ast.Return):
            return out or [ast.Pass()]
        if isinstance(st, ast.If) and _has_return(st):
            rest = stmts[i + 1:]
            body_ret, else_ret = _always_returns(st.body), _always_returns(st.orelse)
            n_fall = (0 if body_ret else 1) + (0 if else_ret else 1)

            def cont():
                return copy.deepcopy(rest) if n_fall > 1 else list(rest)
            body = _unguard(list(st.body) + ([] if body_ret else cont()))
            orelse = _unguard(list(st.orelse) + ([] if else_ret else cont()))
            out.append(ast.If(test=st.test, body=body or [ast.Pass()], orelse=[] if (len(orelse) == 1 and isinstance(orelse[0], ast.Pass)) else orelse))
            return out
        out.append(st)
    return out


def _tail_convertible(stmts):
    """every return sits under if-nesting only (no loop, try or with around it) and every way through the statements
    ends in a return: the returns can then be turned into assignments, the code behind a returning `if` being moved
    (copied, where both arms can fall through) into the arms"""
    def only_ifs(sts):
        for st in sts:
            if isinstance(st, ast.Return):
                continue
            if _has_return(st):
                if not isinstance(st, ast.If):
                    return False
                if not only_ifs(st.body) or not only_ifs(st.orelse):
                    return False
        return True
    if not only_ifs(stmts) or not _always_returns(stmts):
        return False
    try:
        return _count_all(_tailify(copy.deepcopy(stmts), ast.Name(id="_t", ctx=ast.Store()))) <= 80
    except RecursionError:
        return False


def _count_all(stmts):
    n = 0
    for s_ in stmts:
        n += 1
        for fld in ("body", "orelse", "finalbody"):
            n += _count_all([x for x in getattr(s_, fld, None) or [] if isinstance(x, ast.stmt)])
    return n


def _has_return_list(stmts):
    return any(_has_return(s) for s in stmts)


def _tailify(stmts, target):
    """rewrite `return e` as `<target> = e`; the code after an `if` that can return goes into the arms that fall through"""
    out = []
    for i, st in enumerate(stmts):
        if isinstance(st, ast.Return):
            if not (isinstance(target, ast.Name) and isinstance(st.value, ast.Name) and st.value.id == target.id):
                out.append(ast.Assign(targets=[copy.deepcopy(target)], value=st.value))
            elif not out:
                out.append(ast.Pass())
            return out
        if isinstance(st, ast.If) and _has_return(st):
            rest = stmts[i + 1:]
            body_ret, else_ret = _always_returns(st.body), _always_returns(st.orelse)
            n_fall = (0 if body_ret else 1) + (0 if else_ret else 1)

            def cont():
                return copy.deepcopy(rest) if n_fall > 1 else list(rest)
            body = _tailify(list(st.body) + ([] if body_ret else cont()), target)
            orelse = _tailify(list(st.orelse) + ([] if else_ret else cont()), target)
            out.append(ast.If(test=st.test, body=body or [ast.Pass()], orelse=orelse))
            return out
        out.append(st)
    return out


def _is_simple_arg(e):
    if isinstance(e, (ast.Constant, ast.Name)):
        return True
    if isinstance(e, ast.Attribute):
        return _is_simple_arg(e.value)
    return False


class _Subst(ast.NodeTransformer):
    def __init__(self, exprs, renames):
        self.exprs = exprs
        self.renames = renames

    def visit_Name(self, node):
        if node.id in self.exprs and isinstance(node.ctx, ast.Load):
            return copy.deepcopy(self.exprs[node.id])
        if node.id in self.renames:
            return ast.copy_location(ast.Name(id=self.renames[node.id], ctx=node.ctx), node)
        return node

    def visit_ExceptHandler(self, node):
        self.generic_visit(node)
        if node.name in self.renames:
            node.name = self.renames[node.name]
        return node


def _names_in(fn):
    s = set()
    for n in ast.walk(fn):
        if isinstance(n, ast.Name):
            s.add(n.id)
        elif isinstance(n, ast.arg):
            s.add(n.arg)
    return s


def _place_exprs(node, ln):
    for ch in ast.iter_child_nodes(node):
        if isinstance(ch, ast.stmt) or isinstance(ch, ast.ExceptHandler):
            continue
        for n in ast.walk(ch):
            if isinstance(n, (ast.expr, ast.keyword, ast.arg)):
                n.lineno = ln
                n.end_lineno = ln
                if not hasattr(n, "col_offset"):
                    n.col_offset = 0
                    n.end_col_offset = 0


def _relocate(stmts, base, k):
    """give the spliced statements (and everything inside them) increasing positions right after line `base`"""
    def place(st):
        nonlocal k
        k += 1
        ln = base + k / 1000.0
        st.lineno = ln
        st.end_lineno = ln
        if not hasattr(st, "col_offset"):
            st.col_offset = 0
            st.end_col_offset = 0
        _place_exprs(st, ln)
        for fld in ("body", "orelse", "finalbody"):
            for x in getattr(st, fld, None) or []:
                if isinstance(x, ast.stmt):
                    place(x)
        for h in getattr(st, "handlers", None) or []:
            h.lineno = ln
            h.end_lineno = ln
            if not hasattr(h, "col_offset"):
                h.col_offset = 0
                h.end_col_offset = 0
            if h.type is not None:
                for n in ast.walk(h.type):
                    n.lineno = ln
                    n.end_lineno = ln
            for x in h.body:
                place(x)
    for st in stmts:
        place(st)
    return k


class _Inliner:
    def __init__(self, tree, known):
        self.tree = tree
        self.known = known
        self.qual = _qualnames(tree)
        self.module_funcs = {st.name: st for st in tree.body if isinstance(st, (ast.FunctionDef,))}
        self.classes = {st.name: st for st in tree.body if isinstance(st, ast.ClassDef)}
        self.count = 0
        self.uid = 0

    def _methods(self, cls):
        return {st.name: st for st in cls.body if isinstance(st, ast.FunctionDef)}

    def _find_method(self, cls, name, depth=0):
        if cls is None or depth > 6:
            return None
        m = self._methods(cls).get(name)
        if m is not None:
            return m
        for b in cls.bases:
            if isinstance(b, ast.Name) and b.id in self.classes:
                r = self._find_method(self.classes[b.id], name, depth + 1)
                if r is not None:
                    return r
        return None

    def resolve(self, call, caller, caller_cls):
        """-> (helper, argument list without the receiver, receiver expression or None)"""
        f = call.func
        self_name = caller.args.args[0].arg if caller_cls is not None and caller.args.args else None
        if isinstance(f, ast.Attribute) and isinstance(f.value, ast.Name):
            if self_name and f.value.id == self_name:
                h = self._find_method(caller_cls, f.attr)
                if h is not None:
                    return h, list(call.args), f.value
            if f.value.id in self.classes and call.args:
                h = self._find_method(self.classes[f.value.id], f.attr)
                if h is not None and h.args.args:
                    return h, list(call.args[1:]), call.args[0]
        if isinstance(f, ast.Name) and f.id in self.module_funcs:
            return self.module_funcs[f.id], list(call.args), None
        return None

    def candidate(self, h, caller):
        if h is caller:
            return None
        q = self.qual.get(id(h), (None, None))[0]
        if q is None or q in self.known:
            return None
        # module globals the helper rebinds must be declared global in the caller as well
        hg = {x for n in _own_nodes(h) if isinstance(n, ast.Global) for x in n.names}
        cg = {x for n in _own_nodes(caller) if isinstance(n, ast.Global) for x in n.names}
        if not hg <= cg:
            return None
        # not recursive, does not call the caller
        own_cls = self.qual.get(id(h), (None, None))[1]
        self_name = h.args.args[0].arg if own_cls is not None and h.args.args else None
        for n in _own_nodes(h):
            if isinstance(n, ast.Call):
                f = n.func
                nm = f.attr if isinstance(f, ast.Attribute) else f.id if isinstance(f, ast.Name) else None
                if nm in (h.name, caller.name):
                    # x.decode(..) on some other object, or Base.decode(self, ..) of a base class, is not the caller
                    if isinstance(f, ast.Attribute) and not (isinstance(f.value, ast.Name) and (f.value.id == self_name or (own_cls is not None and f.value.id == own_cls.name))):
                        continue
                    return None
        return _simple_shape(h)

    def bind(self, h, args, keywords, receiver, is_method):
        params = [a.arg for a in h.args.args]
        exprs = {}
        if is_method:
            if not params:
                return None
            exprs[params[0]] = receiver
            params = params[1:]
        defaults = h.args.defaults
        dmap = dict(zip([a.arg for a in h.args.args][len(h.args.args) - len(defaults):], defaults))
        if len(args) > len(params):
            return None
        for p, a in zip(params, args):
            exprs[p] = a
        for kw in keywords:
            if kw.arg is None or kw.arg not in params or kw.arg in exprs:
                return None
            exprs[kw.arg] = kw.value
        for p in params:
            if p not in exprs:
                if p in dmap:
                    exprs[p] = dmap[p]
                else:
                    return None
        return exprs

    def expand(self, h, exprs, caller, shape, base_line, adopt=None):
        """-> (statements, value expression or None)"""
        self.uid += 1
        stored = {n.id for n in _own_nodes(h) if isinstance(n, ast.Name) and isinstance(n.ctx, (ast.Store, ast.Del))}
        stored |= {n.name for n in _own_nodes(h) if isinstance(n, ast.ExceptHandler) and n.name}
        stored -= {x for n in _own_nodes(h) if isinstance(n, ast.Global) for x in n.names}      # module globals are the same variable in the caller
        caller_names = _names_in(caller)
        pre = []
        sub = {}
        renames = {}
        for p, e in exprs.items():
            uses = sum(1 for n in _own_nodes(h) if isinstance(n, ast.Name) and n.id == p)
            if p in stored or not (_is_simple_arg(e) or uses <= 1):
                # bind it to a local of the caller
                nm = p if p not in caller_names else "%s__%d" % (p, self.uid)
                renames[p] = nm
                pre.append(ast.Assign(targets=[ast.Name(id=nm, ctx=ast.Store())], value=copy.deepcopy(e)))
            else:
                sub[p] = e
        for v in stored:
            if v in exprs:
                continue
            if v in caller_names:
                renames[v] = "%s__%d" % (v, self.uid)
        body = [s for s in h.body if not (isinstance(s, ast.Expr) and isinstance(s.value, ast.Constant) and isinstance(s.value.value, str)) and not isinstance(s, ast.Global)]
        # `x = helper(..)` where the helper returns one of its own locals: that local simply becomes x
        if isinstance(adopt, str) and shape in ("tail", "search"):
            rnames = {r_.value.id for s_ in body for r_ in ast.walk(s_) if isinstance(r_, ast.Return) and isinstance(r_.value, ast.Name)}
            if len(rnames) == 1 and list(rnames)[0] in stored and list(rnames)[0] not in exprs:
                renames[list(rnames)[0]] = adopt
        if isinstance(adopt, str) and shape == "value" and isinstance(body[-1].value, ast.Name) and body[-1].value.id in stored and body[-1].value.id not in exprs:
            renames[body[-1].value.id] = adopt
        body = [_Subst(sub, renames).visit(copy.deepcopy(s)) for s in body]
        value = None
        if shape == "value":
            value = body[-1].value
            body = body[:-1]
        elif shape == "tail":
            if isinstance(adopt, ast.Attribute):
                tgt = copy.deepcopy(adopt)
                tgt.ctx = ast.Store()
                body = _tailify(body, tgt)
                value = copy.deepcopy(adopt)
                value.ctx = ast.Load()
            else:
                ret = adopt if adopt is not None else "ret__%d" % self.uid
                body = _tailify(body, ast.Name(id=ret, ctx=ast.Store()))
                value = ast.Name(id=ret, ctx=ast.Load())
        elif shape == "search":
            ret = adopt if isinstance(adopt, str) else "ret__%d" % self.uid
            body = _searchify(body, ret)
            value = ast.Name(id=ret, ctx=ast.Load())
        elif any(isinstance(n, ast.Return) for b_ in body for n in ast.walk(b_)):
            body = _unguard(body)
        stmts = pre + body
        for s in stmts:
            ast.fix_missing_locations(s)
        return stmts, value

    def _search_for_else(self, st, nxt, caller, caller_cls):
        """`T = self._find(..)` + `if T is None: <miss>`  where _find is `for x in ITER: if COND: return x` (+ return None)
        -> `for T in ITER: if COND: break` / `else: <miss>`   (the shape such a helper is usually extracted from)"""
        if not (isinstance(st, ast.Assign) and len(st.targets) == 1 and isinstance(st.targets[0], ast.Name) and isinstance(st.value, ast.Call)):
            return None
        T = st.targets[0].id
        if not (isinstance(nxt, ast.If) and not nxt.orelse):
            return None
        t = nxt.test
        is_none = (isinstance(t, ast.Compare) and len(t.ops) == 1 and isinstance(t.ops[0], ast.Is) and isinstance(t.left, ast.Name) and t.left.id == T
                   and isinstance(t.comparators[0], ast.Constant) and t.comparators[0].value is None) or \
                  (isinstance(t, ast.UnaryOp) and isinstance(t.op, ast.Not) and isinstance(t.operand, ast.Name) and t.operand.id == T)
        if not is_none:
            return None
        r = self.resolve(st.value, caller, caller_cls)
        if r is None:
            return None
        h, args, recv = r
        if self.candidate(h, caller) != "search":
            return None
        body = [s_ for s_ in h.body if not (isinstance(s_, ast.Expr) and isinstance(s_.value, ast.Constant) and isinstance(s_.value.value, str))]
        pre, loop, default = _search_shape(body)
        if pre or not (isinstance(default, ast.Constant) and default.value is None) or not isinstance(loop.target, ast.Name):
            return None
        rets = [n for n in ast.walk(loop) if isinstance(n, ast.Return)]
        if not all(isinstance(x.value, ast.Name) and x.value.id == loop.target.id for x in rets):
            return None
        is_method = self.qual.get(id(h), (None, None))[1] is not None
        exprs = self.bind(h, args, st.value.keywords, recv, is_method)
        if exprs is None or not all(_is_simple_arg(e) for e in exprs.values()):
            return None
        stored = {n.id for n in _own_nodes(h) if isinstance(n, ast.Name) and isinstance(n.ctx, (ast.Store, ast.Del))}
        if any(p_ in stored for p_ in exprs):
            return None

        def conv(stmts):
            out = []
            for s_ in stmts:
                if isinstance(s_, ast.Return):
                    out.append(ast.Break())
                    return out
                if isinstance(s_, ast.If):
                    out.append(ast.If(test=s_.test, body=conv(s_.body) or [ast.Pass()], orelse=conv(s_.orelse)))
                else:
                    out.append(s_)
            return out
        new_loop = ast.For(target=ast.Name(id=loop.target.id, ctx=ast.Store()), iter=loop.iter, body=conv(copy.deepcopy(loop.body)), orelse=[], type_comment=None)
        new_loop = _Subst(dict(exprs), {loop.target.id: T}).visit(copy.deepcopy(new_loop))
        ast.fix_missing_locations(new_loop)
        _relocate([new_loop], getattr(st, "lineno", 0), 0)
        new_loop.orelse = nxt.body
        self.count += 1
        return new_loop

    def process_block(self, stmts, caller, caller_cls):
        """inline inside a statement list; returns the new list"""
        out = []
        skip = False
        for idx_, st in enumerate(stmts):
            if skip:
                skip = False
                continue
            if idx_ + 1 < len(stmts):
                fe = self._search_for_else(st, stmts[idx_ + 1], caller, caller_cls)
                if fe is not None:
                    fe.orelse = self.process_block(fe.orelse, caller, caller_cls)
                    out.append(fe)
                    skip = True
                    continue
            # recurse into nested blocks first
            for fld in ("body", "orelse", "finalbody"):
                blk = getattr(st, fld, None)
                if isinstance(blk, list) and blk and isinstance(blk[0], ast.stmt) and not isinstance(st, _SCOPES):
                    setattr(st, fld, self.process_block(blk, caller, caller_cls))
            for h_ in getattr(st, "handlers", []) or []:
                h_.body = self.process_block(h_.body, caller, caller_cls)
            if isinstance(st, _SCOPES):
                out.append(st)
                continue
            done = False
            # calls in the statement's own expressions (not in nested blocks)
            exprs_of_stmt = [x for x in ast.iter_child_nodes(st) if isinstance(x, ast.expr)] if isinstance(st, (ast.If, ast.While, ast.For, ast.With, ast.Try)) else [st]
            calls = []
            for e in exprs_of_stmt:
                for n in ast.walk(e):
                    if isinstance(n, ast.Call):
                        calls.append(n)
            for call in calls:
                r = self.resolve(call, caller, caller_cls)
                if r is None:
                    continue
                h, args, recv = r
                shape = self.candidate(h, caller)
                if shape is None:
                    continue
                is_method = self.qual.get(id(h), (None, None))[1] is not None
                exprs = self.bind(h, args, call.keywords, recv, is_method)
                if exprs is None:
                    continue
                if isinstance(st, (ast.While, ast.For)) and any(call is x for e in exprs_of_stmt for x in ast.walk(e)):
                    if shape != "value" or len(h.body) > 2:
                        continue        # cannot hoist out of a loop header
                if shape in ("tail", "search") and isinstance(st, (ast.While, ast.For)):
                    continue
                adopt = None
                if isinstance(st, ast.Assign) and st.value is call and len(st.targets) == 1 and isinstance(st.targets[0], ast.Name):
                    adopt = st.targets[0].id
                elif isinstance(st, ast.Assign) and st.value is call and len(st.targets) == 1 and isinstance(st.targets[0], ast.Attribute) and shape == "tail" \
                        and _is_simple_arg(st.targets[0]):
                    adopt = st.targets[0]          # `self.x = helper()`: the helper's returns become stores into self.x
                new_stmts, value = self.expand(h, exprs, caller, shape, getattr(st, "lineno", 0), adopt)
                base = getattr(st, "lineno", 0)
                if shape == "stmt":
                    if isinstance(st, ast.Expr) and st.value is call:
                        _relocate(new_stmts, base, 0)
                        out.extend(new_stmts)
                        done = True
                        self.count += 1
                        break
                    continue
                # value shape: hoist the helper's statements before st and put the value in place of the call
                if isinstance(st, (ast.While, ast.For)) and new_stmts:
                    continue
                k = _relocate(new_stmts, base, 0)
                ln = base + (k + 1) / 1000.0 if new_stmts else base
                _replace_node(st, call, value)
                if new_stmts:
                    st.lineno = ln
                    st.end_lineno = max(getattr(st, "end_lineno", ln) or ln, ln)
                    _place_exprs(st, ln)
                else:
                    for n in ast.walk(value):
                        n.lineno = getattr(call, "lineno", base)
                        n.end_lineno = n.lineno
                        n.col_offset = getattr(call, "col_offset", 0)
                        n.end_col_offset = getattr(call, "end_col_offset", 0)
                out.extend(new_stmts)
                self.count += 1
                if isinstance(adopt, str) and isinstance(value, ast.Name) and value.id == adopt:
                    done = True         # `x = x` is not kept
                if isinstance(adopt, ast.Attribute) and isinstance(value, ast.Attribute) and ast.dump(value) == ast.dump(st.targets[0]).replace("Store()", "Load()"):
                    done = True
                # one inlining per statement and pass; further calls are handled in the next pass
                break
            if not done:
                out.append(st)
        return out

    def run(self):
        for _ in range(3):
            before = self.count
            for fn in [n for n in ast.walk(self.tree) if isinstance(n, ast.FunctionDef)]:
                cls = self.qual.get(id(fn), (None, None))[1]
                fn.body = self.process_block(fn.body, fn, cls)
            if self.count == before:
                break
        if self.count:
            self._drop_unreferenced()
        return self.count

    def _drop_unreferenced(self):
        """a helper the reference does not know and that nothing calls any more is not part of the analysed program"""
        used = set()
        for n in ast.walk(self.tree):
            if isinstance(n, ast.Attribute):
                used.add(n.attr)
            elif isinstance(n, ast.Name):
                used.add(n.id)
            elif isinstance(n, ast.Constant) and isinstance(n.value, str):
                used.add(n.value)
        for holder in [self.tree] + list(self.classes.values()):
            keep = []
            for st in holder.body:
                if isinstance(st, ast.FunctionDef):
                    q = self.qual.get(id(st), (None, None))[0]
                    if q is not None and q not in self.known and st.name.startswith("_") and not st.name.startswith("__") and st.name not in used:
                        continue
                keep.append(st)
            if keep:
                holder.body = keep


def _replace_node(root, old, new):
    for parent in ast.walk(root):
        for fld, val in ast.iter_fields(parent):
            if val is old:
                setattr(parent, fld, new)
                return True
            if isinstance(val, list):
                for i, x in enumerate(val):
                    if x is old:
                        val[i] = new
                        return True
    return False


def normalize(tree, modname, reference):
    """in place; -> dict of counts"""
    counts = {}
    objs = {k: (">" + v[1:] if isinstance(v, str) and v.startswith("!") else v) for k, v in _struct_objects(tree).items()}
    r = _StructRewrite(objs)
    r.visit(tree)
    counts["struct_objects"] = r.count
    ref = (reference or {}).get(modname) or {}
    known = set(ref.get("__functions__", []))
    if known:
        quals = {q for q, _ in _qualnames(tree).values()}
        if quals - known:            # only a function the reference does not know can be an extracted helper
            counts["inlined"] = _Inliner(tree, known).run()
    return counts


# ---------------------------------------------------------------- new explaining locals

_PURE_CALLS = {"len", "min", "max", "int", "abs", "isinstance", "issubclass", "bool", "tuple", "divmod", "float", "str", "bytes", "range"}
_PURE_DOTTED = {"struct.unpack", "struct.pack", "struct.calcsize", "struct.unpack_from", "socket.inet_aton", "socket.inet_ntoa", "calendar.monthrange", "calendar.isleap", "calendar.weekday"}


def _is_pure(e):
    for n in ast.walk(e):
        if isinstance(n, ast.Call):
            dotted = _text(n.func)
            if not ((isinstance(n.func, ast.Name) and n.func.id in _PURE_CALLS and not n.keywords) or dotted in _PURE_DOTTED):
                return False
        elif isinstance(n, (ast.Lambda, ast.ListComp, ast.SetComp, ast.DictComp, ast.GeneratorExp, ast.Yield, ast.YieldFrom, ast.Await, ast.NamedExpr, ast.Starred,
                            ast.List, ast.Dict, ast.Set, ast.JoinedStr)):
            return False
    return True


def _text(e):
    try:
        return ast.unparse(e)
    except Exception:
        return ast.dump(e)


def inline_new_locals(tree, modname, reference, qualnames_fn):
    """a local the reviewed reference does not know, assigned once from a pure expression whose inputs are not assigned
    afterwards, and whose assignment dominates its uses, is replaced by that expression (an 'explaining variable')"""
    ref = (reference or {}).get(modname) or {}
    known_fns = set(ref.get("__functions__", []))
    if not known_fns:
        return 0
    count = 0
    for q, fn in qualnames_fn(tree):
        if q not in known_fns:
            continue
        known = {b[0] for b in ref.get(q, [])}
        params = {a.arg for a in fn.args.args + fn.args.kwonlyargs}
        if fn.args.vararg:
            params.add(fn.args.vararg.arg)
        if fn.args.kwarg:
            params.add(fn.args.kwarg.arg)
        own = _own_nodes(fn)
        if not ({n.id for n in own if isinstance(n, ast.Name) and isinstance(n.ctx, ast.Store)} - known - params):
            continue                # no local the reference does not know
        nested_names = set()
        for n in own:
            if isinstance(n, _SCOPES) or isinstance(n, (ast.ListComp, ast.SetComp, ast.DictComp, ast.GeneratorExp)):
                for x in ast.walk(n):
                    if isinstance(x, ast.Name):
                        nested_names.add(x.id)
        stores = {}
        for n in own:
            if isinstance(n, ast.Name) and isinstance(n.ctx, (ast.Store, ast.Del)):
                stores.setdefault(n.id, []).append(n)
            elif isinstance(n, ast.ExceptHandler) and n.name:
                stores.setdefault(n.name, []).append(n)
        # parent links within the function (the model's parent pointers are not set yet)
        parent = {}
        for n in ast.walk(fn):
            for ch in ast.iter_child_nodes(n):
                parent[id(ch)] = n
        changed = True
        rounds = 0
        while changed and rounds < 4:
            changed = False
            rounds += 1
            for v, sts in list(stores.items()):
                if v in known or v in params or v in nested_names or len(sts) != 1 or not isinstance(sts[0], ast.Name):
                    continue
                d = parent.get(id(sts[0]))
                if not (isinstance(d, ast.Assign) and len(d.targets) == 1 and d.targets[0] is sts[0] and _is_pure(d.value)):
                    continue
                blk_owner = parent.get(id(d))
                blk = None
                for fld in ("body", "orelse", "finalbody"):
                    lst = getattr(blk_owner, fld, None)
                    if isinstance(lst, list) and d in lst:
                        blk = lst
                if blk is None:
                    continue
                uses = [n for n in _own_nodes(fn) if isinstance(n, ast.Name) and n.id == v and isinstance(n.ctx, ast.Load)]
                if not uses:
                    continue
                # domination: every use lies in a later statement of the same block (or nested in one)
                later = blk[blk.index(d) + 1:]
                later_ids = set()
                for st in later:
                    for x in ast.walk(st):
                        later_ids.add(id(x))
                if not all(id(u) in later_ids for u in uses):
                    continue
                # kills: nothing the expression mentions is assigned after the definition
                mentioned = {_text(x) for x in ast.walk(d.value) if isinstance(x, (ast.Name, ast.Attribute))}
                dline = getattr(d, "lineno", 0)
                killed = False
                for n in _own_nodes(fn):
                    if isinstance(n, (ast.Name, ast.Attribute, ast.Subscript)) and isinstance(getattr(n, "ctx", None), (ast.Store, ast.Del)) and getattr(n, "lineno", 0) >= dline and n is not sts[0]:
                        t = _text(n.value) if isinstance(n, ast.Subscript) else _text(n)
                        if t in mentioned:
                            killed = True
                            break
                if killed:
                    continue
                for u in uses:
                    new = copy.deepcopy(d.value)
                    for x in ast.walk(new):
                        if hasattr(u, "lineno"):
                            x.lineno = u.lineno
                            x.end_lineno = getattr(u, "end_lineno", u.lineno)
                            x.col_offset = u.col_offset
                            x.end_col_offset = getattr(u, "end_col_offset", u.col_offset)
                    par = parent.get(id(u))
                    if par is None or not _replace_node(par, u, new):
                        killed = True
                        break
                    for x in ast.walk(new):
                        for ch in ast.iter_child_nodes(x):
                            parent[id(ch)] = x
                    parent[id(new)] = par
                if killed:
                    continue
                blk.remove(d)
                if not blk:
                    blk.append(ast.copy_location(ast.Pass(), d))
                del stores[v]
                count += 1
                changed = True
    return count


def ifexp_signatures(fn):
    """signatures of the simple statements that contain a conditional expression"""
    names = {n.id for n in ast.walk(fn) if isinstance(n, ast.Name) and isinstance(n.ctx, ast.Store)}
    out = []
    for n in _own_nodes(fn):
        if isinstance(n, (ast.Assign, ast.Expr, ast.Return, ast.AugAssign)) and any(isinstance(x, ast.IfExp) for x in ast.walk(n)):
            out.append(_comp_signature(n, names))
    return sorted(out)


def hoist_new_ifexps(tree, modname, reference, qualnames_fn):
    """a simple statement with one conditional expression the reference does not have,  s(.. a if c else b ..),  is the
    statement  if c: s(.. a ..) else: s(.. b ..)  when nothing of s is evaluated before c that could matter: every call
    of s outside the conditional expression is applied to (a value computed from) it"""
    ref = (reference or {}).get(modname) or {}
    known_fns = set(ref.get("__functions__", []))
    sigs = ref.get("__ifexps__")
    if not known_fns or sigs is None:
        return 0
    count = 0
    for q, fn in qualnames_fn(tree):
        if q not in known_fns:
            continue
        cur = ifexp_signatures(fn)
        if not cur:
            continue
        have = list(sigs.get(q, []))
        names = {n.id for n in ast.walk(fn) if isinstance(n, ast.Name) and isinstance(n.ctx, ast.Store)}

        def block(stmts):
            nonlocal count
            out = []
            for st in stmts:
                if isinstance(st, _SCOPES):
                    out.append(st)
                    continue
                for fld in ("body", "orelse", "finalbody"):
                    blk = getattr(st, fld, None)
                    if isinstance(blk, list) and blk and isinstance(blk[0], ast.stmt):
                        setattr(st, fld, block(blk))
                for h_ in getattr(st, "handlers", []) or []:
                    h_.body = block(h_.body)
                new = None
                if isinstance(st, (ast.Assign, ast.Expr, ast.Return, ast.AugAssign)):
                    ies = [x for x in ast.walk(st) if isinstance(x, ast.IfExp)]
                    if ies:
                        sg = _comp_signature(st, names)
                        if sg in have:
                            have.remove(sg)
                        elif len(ies) == 1 and _is_pure(ies[0].test) and not any(isinstance(x, (ast.Lambda, ast.ListComp, ast.SetComp, ast.DictComp, ast.GeneratorExp)) for x in ast.walk(st)):
                            ie = ies[0]
                            inside = {id(x) for x in ast.walk(ie)}
                            # ancestors of the conditional expression
                            anc = set()

                            def mark(n):
                                if n is ie:
                                    return True
                                hit = False
                                for ch in ast.iter_child_nodes(n):
                                    if mark(ch):
                                        hit = True
                                if hit:
                                    anc.add(id(n))
                                return hit
                            mark(st)
                            others = [x for x in ast.walk(st) if isinstance(x, ast.Call) and id(x) not in inside and id(x) not in anc]
                            if not others:
                                a_st, b_st = copy.deepcopy(st), copy.deepcopy(st)
                                ia = [x for x in ast.walk(a_st) if isinstance(x, ast.IfExp)][0]
                                ib = [x for x in ast.walk(b_st) if isinstance(x, ast.IfExp)][0]
                                _replace_node(a_st, ia, ia.body)
                                _replace_node(b_st, ib, ib.orelse)
                                new = [ast.If(test=ie.test, body=[a_st], orelse=[b_st])]
                if new is not None:
                    for x in new:
                        ast.copy_location(x, st)
                        ast.fix_missing_locations(x)
                    _relocate(new, getattr(st, "lineno", 0), 0)
                    out.extend(new)
                    count += 1
                else:
                    out.append(st)
            return out
        fn.body = block(fn.body)
    return count


# ---------------------------------------------------------------- new comprehensions back to loops

def _blank_clone(node, local_names):
    """copy of the syntax below node (fields only: no parent pointers, no positions) with local names blanked"""
    if isinstance(node, ast.Name):
        return ast.Name(id="_L" if node.id in local_names else node.id, ctx=node.ctx)
    if isinstance(node, ast.AST):
        new = type(node)()
        for f in node._fields:
            try:
                v = getattr(node, f)
            except AttributeError:
                continue
            if isinstance(v, list):
                setattr(new, f, [_blank_clone(x, local_names) for x in v])
            else:
                setattr(new, f, _blank_clone(v, local_names))
        return new
    return node


def _comp_signature(node, local_names):
    try:
        return ast.unparse(ast.fix_missing_locations(_blank_clone(node, local_names)))
    except Exception:
        return ast.dump(node)


def comprehension_signatures(fn):
    names = {n.id for n in ast.walk(fn) if isinstance(n, ast.Name) and isinstance(n.ctx, ast.Store)}
    return sorted(_comp_signature(n, names) for n in ast.walk(fn) if isinstance(n, (ast.ListComp, ast.SetComp, ast.GeneratorExp, ast.DictComp)))


def comprehensions_to_loops(tree, modname, reference, qualnames_fn):
    """`x = [e for t in it if c]` / `{e for ...}` assigned to a plain local, in a function the reference knows without that
    comprehension, becomes  x = [] / set();  for t in it: if c: x.append(e) / x.add(e).  A generator expression bound to a
    new local and consumed only as the iterable of such a comprehension is folded into it as an outer loop."""
    ref = (reference or {}).get(modname) or {}
    known_fns = set(ref.get("__functions__", []))
    comps = ref.get("__comprehensions__", {})
    if not known_fns:
        return 0
    count = 0
    for q, fn in qualnames_fn(tree):
        if q not in known_fns:
            continue
        have = list(comps.get(q, []))
        ncomp = sum(1 for n in ast.walk(fn) if isinstance(n, (ast.ListComp, ast.SetComp, ast.GeneratorExp, ast.DictComp)))
        if ncomp <= len(have):
            continue                # nothing the reference does not already have
        names = {n.id for n in ast.walk(fn) if isinstance(n, ast.Name) and isinstance(n.ctx, ast.Store)}

        def is_new(node):
            sig = _comp_signature(node, names)
            if sig in have:
                have.remove(sig)
                return False
            return True

        uid = [0]

        def convert_block(stmts):
            nonlocal count
            out = []
            gens = {}          # local -> generator expression (new, single use)
            for st in stmts:
                for fld in ("body", "orelse", "finalbody"):
                    blk = getattr(st, fld, None)
                    if isinstance(blk, list) and blk and isinstance(blk[0], ast.stmt) and not isinstance(st, _SCOPES):
                        setattr(st, fld, convert_block(blk))
                for h_ in getattr(st, "handlers", []) or []:
                    h_.body = convert_block(h_.body)
                # `if [not] any(<new generator>)` : name the result first
                if isinstance(st, ast.If):
                    t_ = st.test.operand if isinstance(st.test, ast.UnaryOp) and isinstance(st.test.op, ast.Not) else st.test
                    if isinstance(t_, ast.Call) and isinstance(t_.func, ast.Name) and t_.func.id == "any" and len(t_.args) == 1 and isinstance(t_.args[0], ast.GeneratorExp):
                        uid[0] += 1
                        nm = "any__%d" % uid[0]
                        pre = ast.Assign(targets=[ast.Name(id=nm, ctx=ast.Store())], value=t_)
                        ast.copy_location(pre, st)
                        ast.fix_missing_locations(pre)
                        ref_ = ast.copy_location(ast.Name(id=nm, ctx=ast.Load()), t_)
                        if t_ is st.test:
                            st.test = ref_
                        else:
                            st.test.operand = ref_
                        for x_ in convert_block([pre]):
                            out.append(x_)
                        out.append(st)
                        continue
                # obj.attr = next((e for t in it if c), d)   ->   for t in it: if c: obj.attr = e; break   else: obj.attr = d
                if isinstance(st, ast.Assign) and len(st.targets) == 1 and isinstance(st.targets[0], ast.Attribute) and _is_simple_arg(st.targets[0]):
                    v = st.value
                    if isinstance(v, ast.Call) and isinstance(v.func, ast.Name) and v.func.id == "next" and len(v.args) == 2 and isinstance(v.args[0], ast.GeneratorExp) \
                            and not v.keywords and len(v.args[0].generators) == 1 and is_new(v.args[0]):
                        g = v.args[0].generators[0]
                        body = [ast.Assign(targets=[copy.deepcopy(st.targets[0])], value=v.args[0].elt), ast.Break()]
                        for cnd in reversed(list(g.ifs)):
                            body = [ast.If(test=cnd, body=body, orelse=[])]
                        loop = ast.For(target=g.target, iter=g.iter, body=body, orelse=[ast.Assign(targets=[copy.deepcopy(st.targets[0])], value=v.args[1])], type_comment=None)
                        ast.fix_missing_locations(loop)
                        _relocate([loop], getattr(st, "lineno", 0), 0)
                        out.append(loop)
                        count += 1
                        continue
                if isinstance(st, ast.Assign) and len(st.targets) == 1 and isinstance(st.targets[0], ast.Name):
                    v = st.value
                    # x = next((e for t in it if c), d)   /   x = any(c for t in it)   ->   x = d; for t in it: if c: x = e; break
                    if isinstance(v, ast.Call) and isinstance(v.func, ast.Name) and v.func.id in ("next", "any") and v.args and isinstance(v.args[0], ast.GeneratorExp) \
                            and not v.keywords and len(v.args[0].generators) == 1 and is_new(v.args[0]):
                        g = v.args[0].generators[0]
                        tgt = st.targets[0].id
                        if v.func.id == "next" and len(v.args) == 2:
                            default, found, conds_ = v.args[1], v.args[0].elt, list(g.ifs)
                        elif v.func.id == "any" and len(v.args) == 1:
                            default, found, conds_ = ast.Constant(value=False), ast.Constant(value=True), list(g.ifs) + [v.args[0].elt]
                        else:
                            default = None
                        if default is not None:
                            body = [ast.Assign(targets=[ast.Name(id=tgt, ctx=ast.Store())], value=found), ast.Break()]
                            for cnd in reversed(conds_):
                                body = [ast.If(test=cnd, body=body, orelse=[])]
                            new = [ast.Assign(targets=[ast.Name(id=tgt, ctx=ast.Store())], value=default),
                                   ast.For(target=g.target, iter=g.iter, body=body, orelse=[], type_comment=None)]
                            for x in new:
                                ast.fix_missing_locations(x)
                            _relocate(new, getattr(st, "lineno", 0), 0)
                            new[1]._search_flag = tgt
                            out.extend(new)
                            count += 1
                            continue
                    if isinstance(v, ast.GeneratorExp) and is_new(v):
                        uses = [n for n in ast.walk(fn) if isinstance(n, ast.Name) and n.id == st.targets[0].id and isinstance(n.ctx, ast.Load)]
                        if len(uses) == 1:
                            gens[st.targets[0].id] = (v, st)
                            continue
                    if isinstance(v, (ast.ListComp, ast.SetComp)) and is_new(v):
                        tgt = st.targets[0].id
                        init = ast.List(elts=[], ctx=ast.Load()) if isinstance(v, ast.ListComp) else ast.Call(func=ast.Name(id="set", ctx=ast.Load()), args=[], keywords=[])
                        meth = "append" if isinstance(v, ast.ListComp) else "add"
                        generators = list(v.generators)
                        elt = v.elt
                        pre_bind = []
                        # fold a new single-use generator local used as the (first) iterable
                        g0 = generators[0]
                        if isinstance(g0.iter, ast.Name) and g0.iter.id in gens:
                            gexp, gst = gens.pop(g0.iter.id)
                            inner_target = g0.target
                            generators = list(gexp.generators) + [ast.comprehension(target=inner_target, iter=None, ifs=g0.ifs, is_async=0)] + generators[1:]
                            pre_bind = [(len(gexp.generators), gexp.elt)]
                        body = [ast.Expr(value=ast.Call(func=ast.Attribute(value=ast.Name(id=tgt, ctx=ast.Load()), attr=meth, ctx=ast.Load()), args=[elt], keywords=[]))]
                        for gi in range(len(generators) - 1, -1, -1):
                            g = generators[gi]
                            for cnd in reversed(g.ifs):
                                body = [ast.If(test=cnd, body=body, orelse=[])]
                            if g.iter is None:
                                # the element of the folded generator is bound to the inner target
                                body = [ast.Assign(targets=[g.target], value=pre_bind[0][1])] + body
                            else:
                                body = [ast.For(target=g.target, iter=g.iter, body=body, orelse=[], type_comment=None)]
                        new = [ast.Assign(targets=[ast.Name(id=tgt, ctx=ast.Store())], value=init)] + body
                        for x in new:
                            ast.fix_missing_locations(x)
                        _relocate(new, getattr(st, "lineno", 0), 0)
                        out.extend(new)
                        count += 1
                        continue
                out.append(st)
            # generator locals that were not folded are put back where they were (order is not critical for a lazy object)
            if gens:
                keep = [g[1] for g in gens.values()]
                out = keep + out
            return _flag_loops_to_for_else(out, fn)
        fn.body = convert_block(fn.body)
    return count


def _flag_loops_to_for_else(stmts, fn):
    """x = d; for ..: if c: x = e; break      followed by   if x is not None / if x / if not x / if x is None: A [else: B]
    (the search loop generated above)  ->  for ..: if c: x = e; A; break  [else: B]"""
    out = []
    i = 0
    while i < len(stmts):
        st = stmts[i]
        flag = getattr(st, "_search_flag", None)
        if flag is not None and i + 1 < len(stmts) and isinstance(stmts[i + 1], ast.If):
            nxt = stmts[i + 1]
            t = nxt.test
            found_when = None
            if isinstance(t, ast.Name) and t.id == flag:
                found_when = True
            elif isinstance(t, ast.UnaryOp) and isinstance(t.op, ast.Not) and isinstance(t.operand, ast.Name) and t.operand.id == flag:
                found_when = False
            elif isinstance(t, ast.Compare) and len(t.ops) == 1 and isinstance(t.left, ast.Name) and t.left.id == flag and isinstance(t.comparators[0], ast.Constant) and t.comparators[0].value is None:
                found_when = isinstance(t.ops[0], ast.IsNot) if isinstance(t.ops[0], (ast.Is, ast.IsNot)) else None
            other_uses = [n for n in ast.walk(fn) if isinstance(n, ast.Name) and n.id == flag and isinstance(n.ctx, ast.Load) and not any(n is y for y in ast.walk(nxt.test))]
            uses_in_arms = [n for n in other_uses if any(n is y for y in ast.walk(nxt))]
            if found_when is not None and len(other_uses) == len(uses_in_arms):
                found_arm, miss_arm = (nxt.body, nxt.orelse) if found_when else (nxt.orelse, nxt.body)
                # put the found-arm in front of the break
                inner = st.body
                while inner and isinstance(inner[-1], ast.If) and not inner[-1].orelse:
                    inner = inner[-1].body
                if inner and isinstance(inner[-1], ast.Break):
                    inner[-1:] = list(found_arm) + [inner[-1]]
                    st.orelse = list(miss_arm)
                    # the initial `x = default` is dead when x is only read inside the found-arm
                    if out and isinstance(out[-1], ast.Assign) and len(out[-1].targets) == 1 and isinstance(out[-1].targets[0], ast.Name) and out[-1].targets[0].id == flag \
                            and not any(isinstance(n, ast.Name) and n.id == flag and isinstance(n.ctx, ast.Load) for arm_st in miss_arm for n in ast.walk(arm_st)):
                        out.pop()
                    out.append(st)
                    i += 2
                    continue
        out.append(st)
        i += 1
    return out


# ---------------------------------------------------------------- statement-level respellings (new constructs only)

def _sig(node, names):
    return _comp_signature(node, names)


_NEGATED_OP = {ast.Eq: ast.NotEq, ast.NotEq: ast.Eq, ast.Is: ast.IsNot, ast.IsNot: ast.Is, ast.In: ast.NotIn, ast.NotIn: ast.In}


def _int_like(cmp_):
    """== / != / is / in can be negated by swapping the operator for any operands (no NaN ordering involved)"""
    return True


def _setdefault_call(st):
    """the single d.setdefault(k, <empty container or constant>) call of a simple statement whose other parts have no effects"""
    calls = [n for n in ast.walk(st) if isinstance(n, ast.Call)]
    sd = [c for c in calls if isinstance(c.func, ast.Attribute) and c.func.attr == "setdefault" and len(c.args) == 2 and not c.keywords]
    if len(sd) != 1:
        return None
    c = sd[0]
    d = c.args[1]
    empty = (isinstance(d, (ast.Dict, ast.List, ast.Set, ast.Tuple)) and not (getattr(d, "keys", None) or getattr(d, "elts", None))) or isinstance(d, ast.Constant) \
        or (isinstance(d, ast.Call) and isinstance(d.func, ast.Name) and d.func.id in ("dict", "list", "set") and not d.args and not d.keywords)
    if not (empty and _is_simple_arg(c.func.value) and (_is_simple_arg(c.args[0]) or (isinstance(c.args[0], ast.Tuple) and all(_is_simple_arg(e) for e in c.args[0].elts)))):
        return None
    # every other call of the statement is a method of the looked-up container (d.setdefault(k, []).append(v)) with simple arguments
    for x in calls:
        if x is c or x is d:
            continue
        if not (isinstance(x.func, ast.Attribute) and x.func.value is c and all(_is_simple_arg(a) for a in x.args) and not x.keywords):
            return None
    return c


def _search_return_shape(lp):
    """for ..: [pre]; if c: S..; return [v]      (no else on the loop or the if, no other way out of the loop)"""
    if lp.orelse or not lp.body:
        return False
    last = lp.body[-1]
    if not (isinstance(last, ast.If) and not last.orelse and last.body and isinstance(last.body[-1], ast.Return)):
        return False
    ret = last.body[-1]
    for st in lp.body:
        for n in ast.walk(st):
            if isinstance(n, (ast.Return, ast.Break)) and n is not ret:
                return False
            if isinstance(n, (ast.For, ast.While, ast.Try, ast.With)) and any(isinstance(x, (ast.Return, ast.Break, ast.Continue)) for x in ast.walk(n)):
                return False
    if any(isinstance(n, ast.Continue) for x in last.body for n in ast.walk(x)):
        return False
    return True


def _flag_test(t, flag):
    """-> True if the test holds when the flag was set (found), False if it holds when it was not, else None; and the kind of test"""
    if isinstance(t, ast.Name) and t.id == flag:
        return True, "truth"
    if isinstance(t, ast.UnaryOp) and isinstance(t.op, ast.Not) and isinstance(t.operand, ast.Name) and t.operand.id == flag:
        return False, "truth"
    if isinstance(t, ast.Compare) and len(t.ops) == 1 and isinstance(t.left, ast.Name) and t.left.id == flag and isinstance(t.comparators[0], ast.Constant) \
            and t.comparators[0].value is None and isinstance(t.ops[0], (ast.Is, ast.IsNot)):
        return isinstance(t.ops[0], ast.IsNot), "none"
    return None, None


def _user_flag_loops(stmts, fn, new_local):
    """F = False|None            (F a local the reference does not know)
       for ..: .. if c: F = v; break        (the only stores of F; v is known to be true / not None)
       if F: A else: B           (or: if not F / F is None / F is not None)
    ->  for ..: .. if c: A[F:=v]; break      else: B
    The found arm runs where the flag was set, the other arm where the loop ran out: the for/else the flag spells out."""
    out = []
    i = 0
    done = 0
    while i < len(stmts):
        st = stmts[i]
        for fld in ("body", "orelse", "finalbody"):
            blk = getattr(st, fld, None)
            if isinstance(blk, list) and blk and isinstance(blk[0], ast.stmt) and not isinstance(st, _SCOPES):
                nb, k = _user_flag_loops(blk, fn, new_local)
                setattr(st, fld, nb)
                done += k
        for h in getattr(st, "handlers", []) or []:
            h.body, k = _user_flag_loops(h.body, fn, new_local)
            done += k
        ok = False
        if isinstance(st, ast.Assign) and len(st.targets) == 1 and isinstance(st.targets[0], ast.Name) and new_local(st.targets[0].id) \
                and isinstance(st.value, ast.Constant) and (st.value.value is None or st.value.value is False) \
                and i + 2 < len(stmts) + 0 and isinstance(stmts[i + 1], ast.For) and not stmts[i + 1].orelse and isinstance(stmts[i + 2], ast.If):
            flag = st.targets[0].id
            lp, nxt = stmts[i + 1], stmts[i + 2]
            found_when, kind = _flag_test(nxt.test, flag)
            all_stores = [n for n in ast.walk(fn) if isinstance(n, ast.Name) and n.id == flag and isinstance(n.ctx, (ast.Store, ast.Del))]
            # the stores inside the loop: each `F = v` directly followed by the loop's break, at the end of an if arm
            sets = []

            def find(sts, depth_ok):
                for k, x in enumerate(sts):
                    if isinstance(x, ast.Assign) and len(x.targets) == 1 and isinstance(x.targets[0], ast.Name) and x.targets[0].id == flag:
                        sets.append((sts, k, depth_ok and k + 1 < len(sts) and isinstance(sts[k + 1], ast.Break) and k + 2 == len(sts)))
                    elif isinstance(x, ast.If):
                        find(x.body, depth_ok)
                        find(x.orelse, depth_ok)
                    elif isinstance(x, (ast.For, ast.While, ast.Try, ast.With)):
                        find(getattr(x, "body", []), False)
                        find(getattr(x, "orelse", []), False)
            find(lp.body, True)
            breaks = [n for n in _loop_level(lp.body) if isinstance(n, ast.Break)]
            loop_targets = {n.id for n in ast.walk(lp.target) if isinstance(n, ast.Name)}
            index_targets = set()
            it = lp.iter
            if isinstance(it, ast.Call) and isinstance(it.func, ast.Name) and it.func.id == "range" and isinstance(lp.target, ast.Name):
                index_targets.add(lp.target.id)
            if isinstance(it, ast.Call) and isinstance(it.func, ast.Name) and it.func.id == "enumerate" and isinstance(lp.target, ast.Tuple) and isinstance(lp.target.elts[0], ast.Name):
                index_targets.add(lp.target.elts[0].id)

            def value_ok(v):
                if isinstance(v, ast.Constant):
                    return bool(v.value) if kind == "truth" else v.value is not None
                if isinstance(v, ast.Name) and kind == "none":
                    return v.id in index_targets
                return False
            if found_when is not None and len(sets) == 1 and sets[0][2] and len(all_stores) == 2 and len(breaks) == 1 and value_ok(sets[0][0][sets[0][1]].value):
                blk, k, _ = sets[0]
                val = blk[k].value
                found_arm, miss_arm = (nxt.body, nxt.orelse) if found_when else (nxt.orelse, nxt.body)
                loads = [n for n in ast.walk(fn) if isinstance(n, ast.Name) and n.id == flag and isinstance(n.ctx, ast.Load)]
                in_test = [n for n in loads if any(n is y for y in ast.walk(nxt.test))]
                in_found = [n for n in loads if any(n is y for a_ in found_arm for y in ast.walk(a_))]
                arm_nodes = [n for a_ in found_arm for n in ast.walk(a_)]
                val_names = {n.id for n in ast.walk(val) if isinstance(n, ast.Name)}
                arm_leaves_loop = any(isinstance(n, (ast.Break, ast.Continue)) for n in arm_nodes)      # would bind to the wrong loop once moved
                arm_stores_val = any(isinstance(n, ast.Name) and n.id in val_names and isinstance(n.ctx, (ast.Store, ast.Del)) for n in arm_nodes)
                if len(loads) == len(in_test) + len(in_found) and not arm_leaves_loop and not arm_stores_val:
                    class S_(ast.NodeTransformer):
                        def visit_Name(self, node):
                            if node.id == flag and isinstance(node.ctx, ast.Load):
                                return ast.copy_location(copy.deepcopy(val), node)
                            return node
                    moved = [S_().visit(a_) for a_ in found_arm]
                    moved = [a_ for a_ in moved if not isinstance(a_, ast.Pass)]
                    blk[k:k + 1] = moved                      # F = v replaced by the found arm, the break stays behind it
                    lp.orelse = [a_ for a_ in miss_arm if not isinstance(a_, ast.Pass)]
                    out.append(lp)
                    i += 3
                    done += 1
                    ok = True
        if not ok:
            out.append(st)
            i += 1
    return out, done


def _const_flag_to_control(stmts, fn, new_local):
    """if ..: F = False / else: ..; F = True      (F a new local, assigned a constant as the last statement of every arm)
       if not F: return                           (the arm of the test always leaves)
    ->  the leaving statements take the place of the assignments they are selected by, the others are dropped"""
    out = list(stmts)
    done = 0
    for i, st in enumerate(out):
        for fld in ("body", "orelse", "finalbody"):
            blk = getattr(st, fld, None)
            if isinstance(blk, list) and blk and isinstance(blk[0], ast.stmt) and not isinstance(st, _SCOPES):
                nb, k = _const_flag_to_control(blk, fn, new_local)
                setattr(st, fld, nb)
                done += k
        for h in getattr(st, "handlers", []) or []:
            h.body, k = _const_flag_to_control(h.body, fn, new_local)
            done += k
    i = 0
    while i + 1 < len(out):
        st, nxt = out[i], out[i + 1]
        if isinstance(st, ast.If) and isinstance(nxt, ast.If) and not nxt.orelse and _always_returns(nxt.body):
            t = nxt.test
            flag, when = None, None
            if isinstance(t, ast.Name):
                flag, when = t.id, True
            elif isinstance(t, ast.UnaryOp) and isinstance(t.op, ast.Not) and isinstance(t.operand, ast.Name):
                flag, when = t.operand.id, False
            if flag and new_local(flag):
                leaves = []

                def collect(sts):
                    """-> True if every way through sts ends in `flag = <bool constant>`"""
                    if not sts:
                        return False
                    last = sts[-1]
                    if isinstance(last, ast.Assign) and len(last.targets) == 1 and isinstance(last.targets[0], ast.Name) and last.targets[0].id == flag \
                            and isinstance(last.value, ast.Constant) and isinstance(last.value.value, bool):
                        leaves.append((sts, last))
                        return True
                    if isinstance(last, ast.If):
                        return collect(last.body) and collect(last.orelse)
                    return False
                stores = [n for n in ast.walk(fn) if isinstance(n, ast.Name) and n.id == flag and isinstance(n.ctx, (ast.Store, ast.Del))]
                loads = [n for n in ast.walk(fn) if isinstance(n, ast.Name) and n.id == flag and isinstance(n.ctx, ast.Load)]
                if collect([st]) and len(stores) == len(leaves) and len(loads) == 1:
                    for sts, last in leaves:
                        k = sts.index(last)
                        if last.value.value == when:
                            sts[k:k + 1] = copy.deepcopy(nxt.body)
                        else:
                            sts[k:k + 1] = [] if len(sts) > 1 else [ast.copy_location(ast.Pass(), last)]
                    del out[i + 1]
                    done += 1
                    continue
        i += 1
    return out, done


def _loop_level(body):
    """statements (any depth) that belong to this loop, not to a loop nested in it"""
    res = []

    def rec(sts):
        for x in sts:
            res.append(x)
            if isinstance(x, (ast.For, ast.While)):
                rec(x.orelse)
            elif not isinstance(x, _SCOPES):
                for fld in ("body", "orelse", "finalbody"):
                    rec([y for y in getattr(x, fld, None) or [] if isinstance(y, ast.stmt)])
                for h in getattr(x, "handlers", None) or []:
                    rec(h.body)
    rec(body)
    return res


def _search_returns_to_for_else(stmts, tail, is_new):
    """for ..: if c: S; return v      REST        ->   for ..: if c: break / else: REST [; return]      S; return v
    when REST cannot run into the code that now follows the loop: it always leaves, or it runs off the end of the function"""
    out = list(stmts)
    n_done = 0
    for i, st in enumerate(out):
        last_here = i == len(out) - 1
        if isinstance(st, ast.If):
            st.body, k1 = _search_returns_to_for_else(st.body, tail and last_here, is_new)
            st.orelse, k2 = _search_returns_to_for_else(st.orelse, tail and last_here, is_new)
            n_done += k1 + k2
        elif isinstance(st, (ast.For, ast.While)) and not (isinstance(st, ast.For) and _search_return_shape(st)):
            st.body, k1 = _search_returns_to_for_else(st.body, False, is_new)
            n_done += k1
        elif isinstance(st, (ast.Try, ast.With)):
            st.body, k1 = _search_returns_to_for_else(st.body, False, is_new)
            n_done += k1
    for i, st in enumerate(out):
        if isinstance(st, ast.For) and _search_return_shape(st) and is_new("searchreturn", st):
            rest = out[i + 1:]
            if not (_always_returns(rest) or tail):
                continue
            if any(isinstance(n, (ast.Break, ast.Continue)) for x in rest for n in ast.walk(x)) and not _always_returns(rest):
                continue
            found = st.body[-1]
            action = found.body
            found.body = [ast.copy_location(ast.Break(), action[-1])]
            st.orelse = list(rest) + ([] if _always_returns(rest) else [ast.copy_location(ast.Return(value=None), st)])
            out[i + 1:] = action
            n_done += 1
            break
    return out, n_done


def construct_signatures(fn):
    """kind -> sorted signatures of the statement-level constructs the respelling pass knows, for the reference"""
    names = {n.id for n in ast.walk(fn) if isinstance(n, ast.Name) and isinstance(n.ctx, ast.Store)}
    out = {"ifexp": [], "tupleassign": [], "unpack1": [], "chained": [], "nameloop": [], "while": [], "storealias": [], "rowloop": [], "searchreturn": [], "setdefault": [], "unpackcall": [], "guardcontinue": [], "whiletrue": [], "supercall": [], "tableloop": []}
    for n in _own_nodes(fn):
        if isinstance(n, ast.Assign):
            if isinstance(n.value, ast.IfExp):
                out["ifexp"].append(_sig(n, names))
            if len(n.targets) == 1 and isinstance(n.targets[0], (ast.Tuple, ast.List)):
                if len(n.targets[0].elts) == 1:
                    out["unpack1"].append(_sig(n, names))
                elif isinstance(n.value, (ast.Tuple, ast.List)) and len(n.value.elts) == len(n.targets[0].elts):
                    out["tupleassign"].append(_sig(n, names))
            if len(n.targets) > 1:
                out["chained"].append(_sig(n, names))
            if len(n.targets) == 1 and isinstance(n.targets[0], (ast.Tuple, ast.List)) and len(n.targets[0].elts) > 1 and isinstance(n.value, ast.Call):
                out["unpackcall"].append(_sig(n, names))
            if len(n.targets) == 1 and isinstance(n.targets[0], ast.Attribute) and isinstance(n.value, ast.Name) and n.value.id in names:
                out["storealias"].append(_sig(n, names))
        elif isinstance(n, ast.For) and isinstance(n.iter, (ast.Tuple, ast.List)) and n.iter.elts and all(isinstance(e, ast.Constant) and isinstance(e.value, str) for e in n.iter.elts):
            out["nameloop"].append(_sig(n, names))
        elif isinstance(n, ast.For) and isinstance(n.iter, (ast.Tuple, ast.List)):
            out["rowloop"].append(_sig(n, names))
        if isinstance(n, ast.For) and isinstance(n.iter, (ast.Name, ast.Attribute)):
            out["tableloop"].append(_sig(ast.For(target=n.target, iter=n.iter, body=[ast.Pass()], orelse=[]), names))
        if _is_super_call(n):
            out["supercall"].append(_sig(n, names))
        if isinstance(n, ast.While) and isinstance(n.test, ast.Constant) and n.test.value and n.body and isinstance(n.body[0], ast.If) and not n.body[0].orelse \
                and len(n.body[0].body) == 1 and isinstance(n.body[0].body[0], ast.Break):
            out["whiletrue"].append(_sig(n.body[0].test, names))
        if isinstance(n, ast.If) and not n.orelse and n.body and isinstance(n.body[-1], ast.Continue):
            out["guardcontinue"].append(_sig(n.test, names))
        if isinstance(n, ast.For) and _search_return_shape(n):
            out["searchreturn"].append(_sig(n, names))
        if isinstance(n, (ast.Assign, ast.Expr, ast.AugAssign)) and _setdefault_call(n) is not None:
            out["setdefault"].append(_sig(n, names))
        elif isinstance(n, ast.While):
            out["while"].append(_sig(n.test, names))
    return {k: sorted(v) for k, v in out.items() if v}


def _is_super_call(n):
    return isinstance(n, ast.Call) and isinstance(n.func, ast.Attribute) and isinstance(n.func.value, ast.Call) and isinstance(n.func.value.func, ast.Name) \
        and n.func.value.func.id == "super" and not n.func.value.keywords


def _explicit_base_calls(tree, fn, q, is_new):
    """super().m(..) / super(C, self).m(..)  (new)  ->  B.m(self, ..)  where B is the base class the call reaches: the only
    base of C, or - with several bases - the first one that (within this module) defines or inherits m"""
    if "." not in q:
        return 0
    cname = q.split(".")[-2]
    classes = {c.name: c for c in ast.walk(tree) if isinstance(c, ast.ClassDef)}
    cls = classes.get(cname)
    if cls is None or not fn.args.args:
        return 0
    self_name = fn.args.args[0].arg

    def defines(cn, meth, seen=()):
        c = classes.get(cn)
        if c is None or cn in seen:
            return None                 # a class of another module: unknown
        if any(isinstance(x, ast.FunctionDef) and x.name == meth for x in c.body):
            return True
        res = False
        for b in c.bases:
            if not isinstance(b, ast.Name):
                return None
            r = defines(b.id, meth, seen + (cn,))
            if r is None:
                return None
            res = res or r
        return res
    n_done = 0
    for call in [n for n in ast.walk(fn) if _is_super_call(n)]:
        sc = call.func.value
        if sc.args and not (len(sc.args) == 2 and isinstance(sc.args[0], ast.Name) and sc.args[0].id == cname and isinstance(sc.args[1], ast.Name) and sc.args[1].id == self_name):
            continue
        if not is_new("supercall", call):
            continue
        meth = call.func.attr
        bases = [b for b in cls.bases]
        if not bases or not all(isinstance(b, ast.Name) for b in bases):
            continue
        target = None
        if len(bases) == 1:
            target = bases[0].id
        else:
            for b in bases:
                r = defines(b.id, meth)
                if r is None:
                    target = None
                    break
                if r:
                    target = b.id
                    break
        if target is None:
            continue
        call.func = ast.copy_location(ast.Attribute(value=ast.copy_location(ast.Name(id=target, ctx=ast.Load()), call), attr=meth, ctx=ast.Load()), call)
        call.args = [ast.copy_location(ast.Name(id=self_name, ctx=ast.Load()), call)] + list(call.args)
        n_done += 1
    return n_done


def respell_new_constructs(tree, modname, reference, qualnames_fn):
    """statement-level clean-ups undone when the reference function does not have them:
      x = a if c else b                  ->  if c: x = a / else: x = b
      a, b = e1, e2   (independent)      ->  a = e1; b = e2
      (x,) = e                           ->  x = e[0]
      self.f = v = e  /  v = self.f = e  ->  self.f = e, later reads of the new local v become self.f
      for n in ("a", "b"): setattr(o, n, ..getattr(p, n)..)   ->  o.a = ..p.a..; o.b = ..p.b..
      i = s; while i > b: ...; i -= 1    ->  for i in range(s, b, -1): ...
    """
    ref = (reference or {}).get(modname) or {}
    known_fns = set(ref.get("__functions__", []))
    cons = ref.get("__constructs__", {})
    if not known_fns:
        return 0
    count = 0
    for q, fn in qualnames_fn(tree):
        if q not in known_fns:
            continue
        have = {k: list(v) for k, v in cons.get(q, {}).items()}
        cur = construct_signatures(fn)
        names = {n.id for n in ast.walk(fn) if isinstance(n, ast.Name) and isinstance(n.ctx, ast.Store)}
        known_locals = {b[0] for b in ref.get(q, [])}
        if all(len(cur.get(k, [])) <= len(have.get(k, [])) for k in cur) and not (names - known_locals):
            continue

        def is_new(kind, node):
            s_ = _sig(node, names)
            lst = have.get(kind, [])
            if s_ in lst:
                lst.remove(s_)
                return False
            return True
        aliases = {}
        if len(cur.get("supercall", [])) > len(have.get("supercall", [])):
            count += _explicit_base_calls(tree, fn, q, is_new)
        if names - known_locals:
            fn.body, k_ = _user_flag_loops(fn.body, fn, lambda nm: nm not in known_locals)
            count += k_
            fn.body, k_ = _const_flag_to_control(fn.body, fn, lambda nm: nm not in known_locals)
            count += k_
        if len(cur.get("searchreturn", [])) > len(have.get("searchreturn", [])):
            fn.body, k_ = _search_returns_to_for_else(fn.body, True, is_new)
            count += k_

        def block(stmts, loop_body=False):
            nonlocal count
            out = []
            i = 0
            stmts = list(stmts)
            while i < len(stmts):
                st = stmts[i]
                # while True: if c: break; BODY   (new)   ->   while not c: BODY
                if isinstance(st, ast.While) and isinstance(st.test, ast.Constant) and st.test.value and not st.orelse and st.body \
                        and isinstance(st.body[0], ast.If) and not st.body[0].orelse and len(st.body[0].body) == 1 and isinstance(st.body[0].body[0], ast.Break) \
                        and len(st.body) > 1 and is_new("whiletrue", st.body[0].test):
                    c_ = st.body[0].test
                    if isinstance(c_, ast.UnaryOp) and isinstance(c_.op, ast.Not):
                        st.test = c_.operand
                    elif isinstance(c_, ast.Compare) and len(c_.ops) == 1 and type(c_.ops[0]) in _NEGATED_OP and _int_like(c_):
                        st.test = ast.Compare(left=c_.left, ops=[_NEGATED_OP[type(c_.ops[0])]()], comparators=c_.comparators)
                    else:
                        st.test = ast.UnaryOp(op=ast.Not(), operand=c_)
                    ast.copy_location(st.test, c_)
                    ast.fix_missing_locations(st.test)
                    del st.body[0]
                    count += 1
                # if c: S; continue   REST      (directly in a loop body, new)   ->   if c: S  else: REST
                if loop_body and isinstance(st, ast.If) and not st.orelse and st.body and isinstance(st.body[-1], ast.Continue) and i + 1 < len(stmts) \
                        and is_new("guardcontinue", st.test):
                    st.body = st.body[:-1] or [ast.copy_location(ast.Pass(), st)]
                    st.orelse = stmts[i + 1:]
                    del stmts[i + 1:]
                    count += 1
                for fld in ("body", "orelse", "finalbody"):
                    blk = getattr(st, fld, None)
                    if isinstance(blk, list) and blk and isinstance(blk[0], ast.stmt) and not isinstance(st, _SCOPES):
                        setattr(st, fld, block(blk, loop_body=(fld == "body" and isinstance(st, (ast.For, ast.While)))
                                                    or (loop_body and isinstance(st, ast.If) and i == len(stmts) - 1)))
                for h_ in getattr(st, "handlers", []) or []:
                    h_.body = block(h_.body)
                new = None
                # v = E  directly followed by a NEW statement  self.f = v : in the rest of the block, where neither v nor self.f
                # can change, the attribute is the variable
                if isinstance(st, ast.Assign) and len(st.targets) == 1 and isinstance(st.targets[0], ast.Name) \
                        and i + 1 < len(stmts) and isinstance(stmts[i + 1], ast.Assign) and len(stmts[i + 1].targets) == 1 \
                        and isinstance(stmts[i + 1].value, ast.Name) and stmts[i + 1].value.id == st.targets[0].id \
                        and isinstance(stmts[i + 1].targets[0], ast.Attribute) and _is_simple_arg(stmts[i + 1].targets[0]) \
                        and is_new("storealias", stmts[i + 1]):
                    v_ = st.targets[0].id
                    a_ = stmts[i + 1].targets[0]
                    after = [n for s_ in stmts[i + 2:] for n in ast.walk(s_)]
                    base_ = _text(a_.value)
                    # code called with the object can store the attribute only if some other function of the module does
                    # (stores from other modules and through setattr are not seen: stated in DESIGN.md)
                    storing = [f2 for q2, f2 in qualnames_fn(tree) if f2 is not fn and any(
                        isinstance(n, ast.Attribute) and n.attr == a_.attr and isinstance(n.ctx, (ast.Store, ast.Del)) for n in ast.walk(f2))]
                    stored_elsewhere = any(isinstance(n, ast.Constant) and n.value == a_.attr for n in ast.walk(tree))
                    if storing and not stored_elsewhere:
                        # ... and only if that function can be reached (by name, transitively) from a call made here
                        called = {n.func.attr if isinstance(n.func, ast.Attribute) else getattr(n.func, "id", None) for n in after if isinstance(n, ast.Call)}
                        byname = {}
                        reach = set()
                        for q2, f2 in qualnames_fn(tree):
                            # a constructor is called by the name of its class
                            byname.setdefault(q2.split(".")[-2] if f2.name == "__init__" and "." in q2 else f2.name, []).append(f2)
                        todo = list(called)
                        while todo:
                            nm = todo.pop()
                            for f2 in byname.get(nm, []):
                                reach.add(id(f2))
                                for n in ast.walk(f2):
                                    if isinstance(n, ast.Call):
                                        c2 = n.func.attr if isinstance(n.func, ast.Attribute) else getattr(n.func, "id", None)
                                        if c2 not in called:
                                            called.add(c2)
                                            todo.append(c2)
                        stored_elsewhere = any(id(f2) in reach for f2 in storing)
                    disturbed = any(
                        (isinstance(n, ast.Attribute) and isinstance(n.ctx, (ast.Store, ast.Del)) and _text(n) == _text(a_))
                        or (isinstance(n, ast.Name) and n.id == v_ and isinstance(n.ctx, (ast.Store, ast.Del)))
                        or (stored_elsewhere and isinstance(n, ast.Call) and ((isinstance(n.func, ast.Attribute) and _text(n.func.value) == base_)
                                                                              or any(_text(x) == base_ for x in n.args)))
                        or isinstance(n, (ast.FunctionDef, ast.Lambda))
                        for n in after)
                    if not disturbed:
                        class A_(ast.NodeTransformer):
                            def visit_Name(self, node):
                                if isinstance(node.ctx, ast.Load) and node.id == v_:
                                    x = copy.deepcopy(a_)
                                    x.ctx = ast.Load()
                                    return ast.copy_location(x, node)
                                return node
                        for s_ in stmts[i + 2:]:
                            A_().visit(s_)
                        v_stores = sum(1 for n in ast.walk(fn) if isinstance(n, ast.Name) and n.id == v_ and isinstance(n.ctx, (ast.Store, ast.Del)))
                        v_loads = sum(1 for n in ast.walk(fn) if isinstance(n, ast.Name) and n.id == v_ and isinstance(n.ctx, ast.Load) and n is not stmts[i + 1].value)
                        if v_stores == 1 and v_loads == 0:
                            stmts[i + 1].value = st.value
                            new = []           # the variable is gone: its definition moves into the attribute store
                        elif _is_pure(st.value):
                            stmts[i + 1].value = copy.deepcopy(st.value)
                        count += 1
                if new is None and isinstance(st, (ast.Assign, ast.Expr, ast.AugAssign)) and _setdefault_call(st) is not None and is_new("setdefault", st):
                    # d.setdefault(k, {})...   ->   if k not in d: d[k] = {}   then   d[k]...
                    c_ = _setdefault_call(st)
                    item = ast.Subscript(value=copy.deepcopy(c_.func.value), slice=copy.deepcopy(c_.args[0]), ctx=ast.Load())
                    item_st = copy.deepcopy(item)
                    item_st.ctx = ast.Store()
                    guard = ast.If(test=ast.Compare(left=copy.deepcopy(c_.args[0]), ops=[ast.NotIn()], comparators=[copy.deepcopy(c_.func.value)]),
                                   body=[ast.Assign(targets=[item_st], value=c_.args[1])], orelse=[])
                    _replace_node(st, c_, item)
                    new = [guard, st]
                if new is None and isinstance(st, ast.Assign):
                    tg = st.targets
                    if isinstance(st.value, ast.IfExp) and len(tg) == 1 and isinstance(tg[0], ast.Name) and tg[0].id not in known_locals and _is_pure(st.value) \
                            and sum(1 for n in ast.walk(fn) if isinstance(n, ast.Name) and n.id == tg[0].id and isinstance(n.ctx, ast.Store)) == 1:
                        pass            # a new explaining local: left for inline_new_locals
                    elif isinstance(st.value, ast.IfExp) and len(tg) == 1 and is_new("ifexp", st):
                        new = [ast.If(test=st.value.test, body=[ast.Assign(targets=[copy.deepcopy(tg[0])], value=st.value.body)],
                                      orelse=[ast.Assign(targets=[copy.deepcopy(tg[0])], value=st.value.orelse)])]
                    elif len(tg) == 1 and isinstance(tg[0], (ast.Tuple, ast.List)) and len(tg[0].elts) == 1 and is_new("unpack1", st):
                        new = [ast.Assign(targets=[tg[0].elts[0]], value=ast.Subscript(value=st.value, slice=ast.Constant(value=0), ctx=ast.Load()))]
                    elif len(tg) == 1 and isinstance(tg[0], (ast.Tuple, ast.List)) and isinstance(st.value, (ast.Tuple, ast.List)) and len(tg[0].elts) == len(st.value.elts) \
                            and len(tg[0].elts) > 1 and is_new("tupleassign", st):
                        # sequential only if no right-hand side reads a target assigned before it
                        ok = True
                        done_t = set()
                        for te, ve in zip(tg[0].elts, st.value.elts):
                            if {_text(x) for x in ast.walk(ve) if isinstance(x, (ast.Name, ast.Attribute))} & done_t:
                                ok = False
                            done_t.add(_text(te))
                        if ok:
                            new = [ast.Assign(targets=[te], value=ve) for te, ve in zip(tg[0].elts, st.value.elts)]
                    elif len(tg) == 1 and isinstance(tg[0], (ast.Tuple, ast.List)) and len(tg[0].elts) > 1 and isinstance(st.value, ast.Call) and _is_pure(st.value) \
                            and all(isinstance(e, ast.Name) for e in tg[0].elts) and is_new("unpackcall", st):
                        # a, b = f(x)  (f pure)  ->  a = f(x)[0]; b = f(x)[1]; a new name that is never read is not assigned at all
                        arg_names = {x.id for x in ast.walk(st.value) if isinstance(x, ast.Name)}
                        if not ({e.id for e in tg[0].elts} & arg_names):
                            new = []
                            for k_, e in enumerate(tg[0].elts):
                                read = any(isinstance(x, ast.Name) and x.id == e.id and isinstance(x.ctx, ast.Load) for x in ast.walk(fn))
                                if not read and e.id not in known_locals:
                                    continue
                                new.append(ast.Assign(targets=[e], value=ast.Subscript(value=copy.deepcopy(st.value), slice=ast.Constant(value=k_), ctx=ast.Load())))
                    elif len(tg) == 2 and is_new("chained", st):
                        attr = [t for t in tg if isinstance(t, ast.Attribute) and _is_simple_arg(t)]
                        loc = [t for t in tg if isinstance(t, ast.Name) and t.id not in known_locals]
                        if len(attr) == 1 and len(loc) == 1:
                            stores = [n for n in ast.walk(fn) if isinstance(n, ast.Name) and n.id == loc[0].id and isinstance(n.ctx, (ast.Store, ast.Del))]
                            attr_stores = [n for n in ast.walk(fn) if isinstance(n, ast.Attribute) and isinstance(n.ctx, (ast.Store, ast.Del)) and _text(n) == _text(attr[0])]
                            if len(stores) == 1 and len(attr_stores) == 1:
                                aliases[loc[0].id] = attr[0]
                                new = [ast.Assign(targets=[attr[0]], value=st.value)]
                        elif len(loc) == 0 and len(attr) == 0:
                            pass
                        if new is None and all(isinstance(t, (ast.Name, ast.Attribute, ast.Subscript)) for t in tg):
                            # a = b = e  ->  b = e; a = b   (python assigns left to right from one evaluation of e)
                            simple = [t for t in tg if _is_simple_arg(t)]
                            if len(simple) >= 1:
                                first = simple[-1]
                                rest = [t for t in tg if t is not first]
                                src = copy.deepcopy(first)
                                src.ctx = ast.Load()
                                new = [ast.Assign(targets=[first], value=st.value)] + [ast.Assign(targets=[t], value=copy.deepcopy(src)) for t in rest]
                elif isinstance(st, ast.For) and isinstance(st.iter, (ast.Tuple, ast.List)) and st.iter.elts and isinstance(st.target, ast.Name) and not st.orelse \
                        and all(isinstance(e, ast.Constant) and isinstance(e.value, str) and e.value.isidentifier() for e in st.iter.elts) and is_new("nameloop", st):
                    # the loop variable may only appear as the name argument of setattr / getattr
                    v = st.target.id
                    uses = [n for n in ast.walk(st) if isinstance(n, ast.Name) and n.id == v and isinstance(n.ctx, ast.Load)]
                    okuse = True
                    for u in uses:
                        par = None
                        for n in ast.walk(st):
                            if isinstance(n, ast.Call) and isinstance(n.func, ast.Name) and n.func.id in ("setattr", "getattr") and len(n.args) >= 2 and n.args[1] is u:
                                par = n
                        if par is None:
                            okuse = False
                    if okuse and uses:
                        new = []
                        for e in st.iter.elts:
                            for bst in st.body:
                                c_ = copy.deepcopy(bst)

                                class R(ast.NodeTransformer):
                                    def visit_Call(self, node):
                                        self.generic_visit(node)
                                        if isinstance(node.func, ast.Name) and node.func.id == "getattr" and len(node.args) == 2 and isinstance(node.args[1], ast.Name) and node.args[1].id == v:
                                            return ast.Attribute(value=node.args[0], attr=e.value, ctx=ast.Load())
                                        return node
                                c_ = R().visit(c_)
                                if isinstance(c_, ast.Expr) and isinstance(c_.value, ast.Call) and isinstance(c_.value.func, ast.Name) and c_.value.func.id == "setattr" \
                                        and len(c_.value.args) == 3 and isinstance(c_.value.args[1], ast.Name) and c_.value.args[1].id == v:
                                    c_ = ast.Assign(targets=[ast.Attribute(value=c_.value.args[0], attr=e.value, ctx=ast.Store())], value=c_.value.args[2])
                                new.append(c_)
                elif isinstance(st, ast.While) and not st.orelse and out and is_new("while", st.test):
                    # counting loop:  i = START  ;  while i > BOUND: body ; i -= STEP      (no continue, i not assigned elsewhere in the body)
                    t = st.test
                    prev = out[-1]
                    if isinstance(t, ast.Compare) and len(t.ops) == 1 and isinstance(t.left, ast.Name) and isinstance(prev, ast.Assign) and len(prev.targets) == 1 \
                            and isinstance(prev.targets[0], ast.Name) and prev.targets[0].id == t.left.id and st.body and isinstance(st.body[-1], ast.AugAssign) \
                            and isinstance(st.body[-1].target, ast.Name) and st.body[-1].target.id == t.left.id and isinstance(st.body[-1].value, ast.Constant) \
                            and isinstance(st.body[-1].op, (ast.Add, ast.Sub)) and not any(isinstance(x, ast.Continue) for b_ in st.body for x in ast.walk(b_)):
                        iv = t.left.id
                        others = [n for b_ in st.body[:-1] for n in ast.walk(b_) if isinstance(n, ast.Name) and n.id == iv and isinstance(n.ctx, (ast.Store, ast.Del))]
                        step = st.body[-1].value.value * (1 if isinstance(st.body[-1].op, ast.Add) else -1)
                        bound = t.comparators[0]
                        stop = None
                        if step < 0 and isinstance(t.ops[0], ast.Gt):
                            stop = bound
                        elif step < 0 and isinstance(t.ops[0], ast.GtE):
                            stop = ast.BinOp(left=bound, op=ast.Sub(), right=ast.Constant(value=1))
                        elif step > 0 and isinstance(t.ops[0], ast.Lt):
                            stop = bound
                        elif step > 0 and isinstance(t.ops[0], ast.LtE):
                            stop = ast.BinOp(left=bound, op=ast.Add(), right=ast.Constant(value=1))
                        later_use = any(isinstance(n, ast.Name) and n.id == iv and isinstance(n.ctx, ast.Load) for s2 in stmts[i + 1:] for n in ast.walk(s2))
                        if not others and stop is not None and not later_use:
                            out.pop()
                            new = [ast.For(target=ast.Name(id=iv, ctx=ast.Store()), iter=ast.Call(func=ast.Name(id="range", ctx=ast.Load()),
                                           args=[prev.value, stop, ast.Constant(value=step)], keywords=[]), body=st.body[:-1] or [ast.Pass()], orelse=[], type_comment=None)]
                if new is not None:
                    for x in new:
                        ast.copy_location(x, st)
                        ast.fix_missing_locations(x)
                    _relocate(new, getattr(st, "lineno", 0), 0)
                    out.extend(new)
                    count += 1
                else:
                    out.append(st)
                i += 1
            return out
        fn.body = block(fn.body)
        if aliases:
            class A(ast.NodeTransformer):
                def visit_Name(self, node):
                    if isinstance(node.ctx, ast.Load) and node.id in aliases:
                        new = copy.deepcopy(aliases[node.id])
                        new.ctx = ast.Load()
                        return ast.copy_location(new, node)
                    return node
            for st in fn.body:
                A().visit(st)
            ast.fix_missing_locations(fn)
    return count
