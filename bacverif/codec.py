"""E4 - codec layout extraction.

A syntax-directed walk of an encode()/decode() body produces, for every
branch (combination of `if` outcomes, loops kept as nested items), the
ordered list of wire operations with their *symbolic* operands: locals are
substituted forward (`buff = t << 4; buff += 8` becomes `(t << 4) + 8`),
every buffer read gets a fresh symbol `_rK`, field stores keep the
expression over those symbols and later conditions are rewritten over them.
No statement of the target is executed; rules compare the extracted
expressions with each other (encode vs decode) and with the reference layout
by evaluating *expressions* on finite grids that exercise every bit.
"""
import ast

from .model import norm, ShapeError, NotConst
from .astutil import clone, Subst as _Subst, norm_nc

PUT = {"put": 1, "put_short": 2, "put_long": 4, "put_data": "data"}
GET = {"get": 1, "get_short": 2, "get_long": 4, "get_data": "data"}


class Item:
    __slots__ = ("kind", "width", "expr", "target", "sub", "node", "extra")

    def __init__(self, kind, width=None, expr=None, target=None, sub=None, node=None, extra=None):
        self.kind = kind      # emit | read | store | loop | raise | call | return
        self.width = width
        self.expr = expr
        self.target = target
        self.sub = sub
        self.node = node
        self.extra = extra

    def text(self):
        if self.kind == "emit":
            return "emit%s(%s)" % (self.width, norm(self.expr))
        if self.kind == "read":
            return "read%s->%s" % (self.width if self.width != "data" else "data[%s]" % norm(self.expr), self.target)
        if self.kind == "store":
            return "%s=%s" % (self.target, norm(self.expr))
        if self.kind == "loop":
            return "loop[%s]{%s}" % (self.extra, " | ".join(";".join(i.text() for i in b.items) for b in self.sub))
        if self.kind == "raise":
            return "raise %s" % self.extra
        if self.kind == "call":
            return "call %s" % self.extra
        return self.kind

    def __repr__(self):
        return self.text()


class Branch:
    __slots__ = ("conds", "items", "term", "env")

    def __init__(self, conds, items, term, env):
        self.conds = conds      # [(symbolic test, polarity)]
        self.items = items
        self.term = term        # fall | return | raise
        self.env = env

    def emits(self):
        return [i for i in self.items if i.kind == "emit"]

    def reads(self):
        return [i for i in self.items if i.kind == "read"]

    def stores(self):
        return {i.target: i.expr for i in self.items if i.kind == "store"}

    def widths(self):
        out = []
        for i in self.items:
            if i.kind in ("emit", "read"):
                out.append(i.width)
            elif i.kind == "loop":
                out.append(("loop", tuple(tuple(b.widths()) for b in i.sub)))
        return out

    def describe(self):
        return "[%s] %s" % (" & ".join(("" if p else "not ") + norm(t) for t, p in self.conds), "; ".join(i.text() for i in self.items))


class Extractor:
    def __init__(self, prog, cls, buf, role, inline=None, max_branches=4000):
        self.prog = prog
        self.cls = cls
        self.buf = buf          # name of the buffer parameter
        self.role = role        # 'encode' | 'decode'
        self.nread = 0
        self.max_branches = max_branches
        self.inline = inline or (lambda call: None)

    def sym(self, expr, env):
        return _Subst(env).visit(clone(expr))

    def _io_call(self, call):
        f = call.func
        if isinstance(f, ast.Attribute) and isinstance(f.value, ast.Name) and f.value.id == self.buf:
            if f.attr in PUT:
                return "put", PUT[f.attr]
            if f.attr in GET:
                return "get", GET[f.attr]
        return None

    def branches(self, stmts, env=None, conds=None):
        out = []
        for b in self._walk(list(stmts), dict(env or {}), list(conds or []), []):
            out.append(b)
            if len(out) > self.max_branches:
                raise ShapeError("codec has more than %d branches" % self.max_branches)
        return out

    def _expr_with_reads(self, expr, env, items):
        """substitute locals; replace buffer reads nested in the expression by fresh symbols (emitting read items)"""
        ex = self

        class R(ast.NodeTransformer):
            def visit_Call(self, node):
                self.generic_visit(node)
                io = ex._io_call(node)
                if io and io[0] == "get":
                    name = "_r%d" % ex.nread
                    ex.nread += 1
                    items.append(Item("read", io[1], expr=(node.args[0] if node.args else None), target=name, node=node))
                    return ast.Name(id=name, ctx=ast.Load())
                return node
        e = self.sym(expr, env)
        return R().visit(e)

    def _walk(self, stmts, env, conds, items):
        if not stmts:
            yield Branch(conds, items, "fall", env)
            return
        st, rest = stmts[0], stmts[1:]
        if isinstance(st, ast.If):
            it0 = list(items)
            test = self._expr_with_reads(st.test, env, it0)
            for pol, body in ((True, st.body), (False, st.orelse)):
                for b in self._walk(list(body), dict(env), conds + [(test, pol)], list(it0)):
                    if b.term != "fall":
                        yield b
                    else:
                        yield from self._walk(rest, dict(b.env), b.conds, b.items)
            return
        if isinstance(st, (ast.For, ast.While)):
            sub_ex = self
            if isinstance(st, ast.For):
                # the iterable is evaluated once, before the first pass: buffer reads in it (for _ in range(pdu.get())) are
                # wire items in front of the loop
                items = list(items)
                hdr = norm(self._expr_with_reads(st.iter, env, items))
            else:
                hdr = norm(self.sym(st.test, env))
            loop_env = dict(env)
            if isinstance(st, ast.For):
                for n in ast.walk(st.target):
                    if isinstance(n, ast.Name):
                        loop_env.pop(n.id, None)
            subs = [b for b in self._walk(list(st.body), loop_env, [], [])]
            it = Item("loop", sub=subs, node=st, extra=hdr)
            # locals assigned in the loop are unknown afterwards
            env2 = dict(env)
            for n in ast.walk(st):
                if isinstance(n, ast.Assign):
                    for t in n.targets:
                        for x in ast.walk(t):
                            if isinstance(x, ast.Name):
                                env2.pop(x.id, None)
                elif isinstance(n, ast.AugAssign) and isinstance(n.target, ast.Name):
                    env2.pop(n.target.id, None)
            yield from self._walk(rest, env2, conds, items + [it])
            return
        if isinstance(st, ast.Try):
            # body (+else); handlers that re-raise another class are recorded as a raise alternative
            yield from self._walk(list(st.body) + list(st.orelse) + rest, env, conds, items)
            return
        if isinstance(st, ast.Return):
            its = list(items)
            if st.value is not None:
                its.append(Item("return", expr=self._expr_with_reads(st.value, env, its), node=st))
            yield Branch(conds, its, "return", env)
            return
        if isinstance(st, ast.Raise):
            name = None
            if st.exc is not None:
                name = norm(st.exc.func) if isinstance(st.exc, ast.Call) else norm(st.exc)
            yield Branch(conds, items + [Item("raise", extra=name, node=st)], "raise", env)
            return
        if isinstance(st, (ast.Break, ast.Continue)):
            yield Branch(conds, items, "fall", env)
            return
        items = list(items)
        env = dict(env)
        if isinstance(st, ast.Assign):
            val = self._expr_with_reads(st.value, env, items)
            for t in st.targets:
                if isinstance(t, ast.Name):
                    env[t.id] = val
                elif isinstance(t, ast.Tuple) and isinstance(val, ast.Tuple) and len(t.elts) == len(val.elts):
                    for tt, vv in zip(t.elts, val.elts):
                        if isinstance(tt, ast.Name):
                            env[tt.id] = vv
                        else:
                            items.append(Item("store", target=norm(tt), expr=vv, node=st))
                elif isinstance(t, ast.Tuple):
                    for k, tt in enumerate(t.elts):
                        sub = ast.Subscript(value=val, slice=ast.Constant(k), ctx=ast.Load())
                        if isinstance(tt, ast.Name):
                            env[tt.id] = sub
                        else:
                            items.append(Item("store", target=norm(tt), expr=sub, node=st))
                else:
                    items.append(Item("store", target=norm(t), expr=val, node=st))
                    if isinstance(t, ast.Attribute):
                        if isinstance(val, (ast.List, ast.Dict, ast.Set, ast.Call, ast.ListComp)) or (isinstance(val, ast.Constant) and val.value is None):
                            env.pop(norm(t), None)      # mutable / opaque value: keep the field symbolic
                        else:
                            env[norm(t)] = val      # later reads of self.f see the stored expression
        elif isinstance(st, ast.AugAssign):
            val = self._expr_with_reads(st.value, env, items)
            if isinstance(st.target, ast.Name):
                cur = env.get(st.target.id, ast.Name(id=st.target.id, ctx=ast.Load()))
                env[st.target.id] = ast.BinOp(left=clone(cur), op=st.op, right=val)
            else:
                k = norm(st.target)
                cur = env.get(k, clone(st.target))
                new = ast.BinOp(left=clone(cur), op=st.op, right=val)
                items.append(Item("store", target=k, expr=new, node=st))
                env[k] = new
        elif isinstance(st, ast.Expr) and isinstance(st.value, ast.Call):
            call = st.value
            io = self._io_call(call)
            if io and io[0] == "put":
                arg = self._expr_with_reads(call.args[0], env, items) if call.args else None
                items.append(Item("emit", io[1], expr=arg, node=call))
            elif io and io[0] == "get":
                self._expr_with_reads(call, env, items)
            else:
                inl = self.inline(call)
                if inl is not None:
                    # inline another codec function operating on the same buffer
                    fn, buf = inl
                    saved = self.buf
                    self.buf = buf
                    subs = list(self._walk(list(fn.body), {}, [], []))
                    self.buf = saved
                    for sb in subs:
                        if sb.term == "raise":
                            yield Branch(conds + sb.conds, items + sb.items, "raise", env)
                        else:
                            e2 = dict(env)
                            for k, v in sb.env.items():
                                if "." in k:
                                    e2[k] = v
                            yield from self._walk(rest, e2, conds + sb.conds, items + sb.items)
                    return
                # argument expressions may contain reads
                for a in call.args:
                    self._expr_with_reads(a, env, items)
                items.append(Item("call", extra=norm(self.sym(call, env)), node=call))
        elif isinstance(st, (ast.Pass, ast.Global, ast.Expr, ast.Delete, ast.Import, ast.ImportFrom)):
            pass
        else:
            items.append(Item("call", extra="?%s" % type(st).__name__, node=st))
        yield from self._walk(rest, env, conds, items)


def _renumber(branch):
    """rename read symbols to _r0.._rN in order of appearance on this branch (also inside loops: _l<k>r<j>)"""
    mapping = {}
    k = 0
    for it in branch.items:
        if it.kind == "read":
            mapping[it.target] = ast.Name(id="_r%d" % k, ctx=ast.Load())
            k += 1
    if all(old == new.id for old, new in mapping.items()):
        return branch
    # two-phase rename to avoid clashes
    tmp = {old: ast.Name(id="_tmp" + new.id, ctx=ast.Load()) for old, new in mapping.items()}
    fin = {"_tmp" + new.id: new for new in mapping.values()}

    def ren(e):
        if e is None:
            return None
        return _Subst(fin).visit(_Subst(tmp).visit(clone(e)))
    items = []
    for it in branch.items:
        n = Item(it.kind, it.width, ren(it.expr) if isinstance(it.expr, ast.AST) else it.expr, it.target, it.sub, it.node, it.extra)
        if it.kind == "read":
            n.target = mapping[it.target].id
        items.append(n)
    conds = [(ren(t), p) for t, p in branch.conds]
    return Branch(conds, items, branch.term, branch.env)


def extract(prog, cls, fn, role, inline=None, buf=None):
    if buf is None:
        buf = fn.args.args[1].arg if len(fn.args.args) > 1 else None
    ex = Extractor(prog, cls, buf, role, inline=inline)
    return [_renumber(b) for b in ex.branches(fn.body)]


def consistent_branch(b):
    seen = {}
    for t, p in b.conds:
        k = norm_nc(t)
        if k in seen and seen[k] != p:
            return False
        seen[k] = p
    return True


def feasible_branches(branches, ev, env):
    out = []
    for b in branches:
        ok = True
        for t, pol in b.conds:
            v = ev.eval3(t, env)
            if v is not None and v != pol:
                ok = False
                break
        if ok:
            out.append(b)
    return out
