from .variants import M, B

N = "npdu.py"
M("C08", "snet-bit", N, "            snetPresent = 0x08", "            snetPresent = 0x10", "C08.R1", "source-present flag on the wrong control bit")
M("C08", "hop-before-sadr", N, "        if snetPresent:\n            pdu.put_short(self.npduSADR.addrNet)\n            pdu.put(self.npduSADR.addrLen)\n            pdu.put_data(self.npduSADR.addrAddr)\n\n        # put the hop count\n        if dnetPresent:\n            pdu.put(self.npduHopCount)",
  "        # put the hop count\n        if dnetPresent:\n            pdu.put(self.npduHopCount)\n\n        if snetPresent:\n            pdu.put_short(self.npduSADR.addrNet)\n            pdu.put(self.npduSADR.addrLen)\n            pdu.put_data(self.npduSADR.addrAddr)", "C08.R1", "hop count emitted before the source address (only visible when both are present)")
M("C08", "der-mask-decode", N, "        self.pduExpectingReply = (control & 0x04) != 0", "        self.pduExpectingReply = (control & 0x08) != 0", "C08.R1")
M("C08", "prio-mask", N, "        control |= (self.pduNetworkPriority & 0x03)", "        control |= (self.pduNetworkPriority & 0x01)", "C08.R1")
M("C08", "rbcast-len", N, "            elif self.npduDADR.addrType == Address.remoteBroadcastAddr:\n                pdu.put_short(self.npduDADR.addrNet)\n                pdu.put(0)", "            elif self.npduDADR.addrType == Address.remoteBroadcastAddr:\n                pdu.put_short(self.npduDADR.addrNet)\n                pdu.put(1)", "C08.R1")
M("C08", "global-net", N, "                pdu.put_short(0xFFFF)\n                pdu.put(0)", "                pdu.put_short(0xFFFE)\n                pdu.put(0)", "C08.R1")
M("C08", "vendor-threshold", N, "            if (self.npduNetMessage >= 0x80) and (self.npduNetMessage <= 0xFF):\n                pdu.put_short(self.npduVendorID)", "            if (self.npduNetMessage > 0x80) and (self.npduNetMessage <= 0xFF):\n                pdu.put_short(self.npduVendorID)", "C08.R1", "message type 0x80 loses its vendor id on encode only")
M("C08", "decode-dlen-class", N, "            elif dlen == 0:\n                self.npduDADR = RemoteBroadcast(dnet)", "            elif dlen == 1:\n                self.npduDADR = RemoteBroadcast(dnet)", "C08.R1", allow_error=True)
M("C08", "decode-hop-guard", N, "        if dnetPresent:\n            self.npduHopCount = pdu.get()", "        if snetPresent:\n            self.npduHopCount = pdu.get()", "C08.R1")
M("C08", "version-accepted", N, "        if (self.npduVersion != 0x01):\n            raise DecodingError(\"only version 1 messages supported\")\n", "", "C08.R2")
M("C08", "sadr-bcast-accepted", N, "            elif slen == 0:\n                raise DecodingError(\"SADR can't be a remote broadcast\")\n", "", "C08.R2")
M("C08", "sadr-global-accepted", N, "            if snet == 0xFFFF:\n                raise DecodingError(\"SADR can't be a global broadcast\")\n            elif slen == 0:", "            if slen == 0:", "C08.R2")
M("C08", "short-accepted", N, "        if len(pdu.pduData) < 2:", "        if len(pdu.pduData) < 1:", "C08.R2")
M("C08", "reject-order", N, "        self.rmtnRejectionReason = npdu.get()\n        self.rmtnDNET = npdu.get_short()", "        self.rmtnDNET = npdu.get_short()\n        self.rmtnRejectionReason = npdu.get()", "C08.R3")
M("C08", "nni-width", N, "        npdu.put_short( self.nniNet )\n        npdu.put( self.nniFlag )", "        npdu.put_short( self.nniNet )\n        npdu.put_short( self.nniFlag )", "C08.R3")
M("C08", "fields-crossed", N, "        self.ectnDNET = npdu.get_short()\n        self.ectnTerminationTime = npdu.get()", "        self.ectnDNET = npdu.get_short()\n        self.ectnDNET = npdu.get()", "C08.R3", allow_error=True)
M("C08", "table-len-field", N, "            npdu.put(len(rte.rtPortInfo))\n            npdu.put_data(rte.rtPortInfo)\n\n    def decode(self, npdu):\n        NPCI.update(self, npdu)\n        self.irtaTable = []", "            npdu.put(rte.rtPortID)\n            npdu.put_data(rte.rtPortInfo)\n\n    def decode(self, npdu):\n        NPCI.update(self, npdu)\n        self.irtaTable = []", "C08.R3")
M("C08", "table-count", N, "        npdu.put(len(self.irtTable))", "        npdu.put(len(self.irtTable) + 1)", "C08.R3")
M("C08", "portinfo-len-sym", N, "            portInfo = npdu.get_data(portInfoLen)\n            rte = RoutingTableEntry(dnet, portID, portInfo)\n            self.irtTable.append(rte)", "            portInfo = npdu.get_data(portID)\n            rte = RoutingTableEntry(dnet, portID, portInfo)\n            self.irtTable.append(rte)", "C08.R3")
M("C08", "list-wrong-target", N, "        self.ratnNetworkList = []\n        while npdu.pduData:\n            self.ratnNetworkList.append(npdu.get_short())", "        self.ratnNetworkList = []\n        while npdu.pduData:\n            self.rbtnNetworkList.append(npdu.get_short())", "C08.R3", allow_error=True)
M("C08", "type-number", N, "class NetworkNumberIs(NPDU):\n\n    _debug_contents = ('nniNet', 'nniFlag',)\n\n    messageType = 0x13", "class NetworkNumberIs(NPDU):\n\n    _debug_contents = ('nniNet', 'nniFlag',)\n\n    messageType = 0x14", "C08.R4")
M("C08", "ctor-wrong-type", N, "        self.npduNetMessage = RouterAvailableToNetwork.messageType", "        self.npduNetMessage = RouterBusyToNetwork.messageType", "C08.R4")
M("C08", "unregistered", N, "register_npdu_type(DisconnectConnectionToNetwork)\n", "", "C08.R4")
B("C08", "control-plus", N, "        control = netLayerMessage | dnetPresent | snetPresent", "        control = netLayerMessage + dnetPresent + snetPresent")
B("C08", "der-respelled", N, "        self.pduExpectingReply = (control & 0x04) != 0", "        self.pduExpectingReply = bool(control & 4)")
B("C08", "locals-renamed", N, "        self.rmtnRejectionReason = npdu.get()\n        self.rmtnDNET = npdu.get_short()", "        reason = npdu.get()\n        net = npdu.get_short()\n        self.rmtnDNET = net\n        self.rmtnRejectionReason = reason")
M("C08", "header-copy-after-decode", "npdu.py", "", "", "C08.R1", "PCI.update moved to the end of NPCI.decode: decoded expecting-reply / priority overwritten",
  edits=[dict(file="npdu.py", old="        PCI.update(self, pdu)\n\n        # check the length", new="        # check the length"),
         dict(file="npdu.py", old="            # application layer message\n            self.npduNetMessage = None\n", new="            # application layer message\n            self.npduNetMessage = None\n\n        PCI.update(self, pdu)\n")])
