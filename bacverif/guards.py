"""E5 - guard normal form.

Guards are compared as *sets of integer values that reach an effect*, never as
text.  A test that touches a variable only through comparisons with constants
is piecewise constant between those constants, so evaluating it (three-valued)
at every constant and its two neighbours decides the accepted set exactly:
`x >= 65535`, `x > 65534`, `not (x < 65535)` and `65535 <= x` are the same set.
"""
import ast
from .model import norm, NotConst

UNKNOWN = None
_PURE = {"range": range, "min": min, "max": max, "abs": abs, "int": int, "bool": bool, "len": len, "divmod": divmod,
         "enumerate": lambda *a: list(enumerate(*a)), "reversed": lambda x: list(reversed(x)), "list": list, "tuple": tuple,
         "sorted": sorted, "zip": lambda *a: list(zip(*a)), "sum": sum, "bytes": bytes}


class Evaluator:
    def __init__(self, prog, module, cls=None):
        self.prog = prog
        self.module = module
        self.cls = cls

    def value(self, node, env):
        """concrete value of an expression under env (keys: normalised text) or raise NotConst"""
        k = norm(node)
        if k in env:
            return env[k]
        if isinstance(node, ast.Constant):
            return node.value
        if isinstance(node, ast.UnaryOp) and isinstance(node.op, ast.USub):
            return -self.value(node.operand, env)
        if isinstance(node, ast.UnaryOp) and isinstance(node.op, ast.Invert):
            return ~self.value(node.operand, env)
        if isinstance(node, ast.UnaryOp) and isinstance(node.op, ast.UAdd):
            return +self.value(node.operand, env)
        if isinstance(node, ast.BinOp):
            a = self.value(node.left, env)
            b = self.value(node.right, env)
            from .model import _BINOPS
            try:
                return _BINOPS[type(node.op)](a, b)
            except Exception as e:
                raise NotConst(str(e))
        if isinstance(node, (ast.Tuple, ast.List, ast.Set)):
            return tuple(self.value(e, env) for e in node.elts)
        if isinstance(node, ast.Call) and isinstance(node.func, ast.Name) and node.func.id in _PURE and not node.keywords:
            args = [self.value(a, env) for a in node.args]
            try:
                return _PURE[node.func.id](*args)
            except Exception as e:
                raise NotConst(str(e))
        if isinstance(node, (ast.Compare, ast.BoolOp)) or (isinstance(node, ast.UnaryOp) and isinstance(node.op, ast.Not)):
            if isinstance(node, ast.BoolOp):
                # python value semantics of and/or
                vals = [self.value(v, env) for v in node.values]
                r = vals[0]
                for v in vals[1:]:
                    if isinstance(node.op, ast.And):
                        r = r and v
                    else:
                        r = r or v
                return r
            v = self.eval3(node, env)
            if v is UNKNOWN:
                raise NotConst("unknown truth value of %s" % norm(node))
            return v
        if isinstance(node, ast.IfExp):
            return self.value(node.body, env) if self.value(node.test, env) else self.value(node.orelse, env)
        if isinstance(node, ast.Subscript) and isinstance(node.ctx, ast.Load):
            base = self.value(node.value, env)
            try:
                if isinstance(node.slice, ast.Slice):
                    lo = self.value(node.slice.lower, env) if node.slice.lower is not None else None
                    hi = self.value(node.slice.upper, env) if node.slice.upper is not None else None
                    stp = self.value(node.slice.step, env) if node.slice.step is not None else None
                    return base[lo:hi:stp]
                return base[self.value(node.slice, env)]
            except (TypeError, IndexError, KeyError) as e:
                raise NotConst(str(e))
        if isinstance(node, ast.Name) and isinstance(node.ctx, ast.Load):
            # an explaining local: the single assignment that defines it, when nothing it mentions changes in between
            d = _single_local_def(node)
            if d is not None:
                depth = env.get("__depth__", 0)
                if depth < 6:
                    e2 = dict(env)
                    e2["__depth__"] = depth + 1
                    return self.value(d, e2)
        return self.prog.const(self.module, node, self.cls)

    def eval3(self, test, env):
        """True / False / None(unknown)"""
        k = norm(test)
        if k in env and isinstance(env[k], bool):
            return env[k]
        if isinstance(test, ast.Call) and isinstance(test.func, ast.Name) and test.func.id == "isinstance" and len(test.args) == 2:
            kk = "isinstance:" + norm(test.args[0])
            if kk in env:
                t = test.args[1]
                names = [norm(e) for e in (t.elts if isinstance(t, ast.Tuple) else [t])]
                return env[kk] in names
            return UNKNOWN
        if isinstance(test, ast.BoolOp):
            vals = [self.eval3(v, env) for v in test.values]
            if isinstance(test.op, ast.And):
                if any(v is False for v in vals):
                    return False
                if all(v is True for v in vals):
                    return True
                return UNKNOWN
            else:
                if any(v is True for v in vals):
                    return True
                if all(v is False for v in vals):
                    return False
                return UNKNOWN
        if isinstance(test, ast.UnaryOp) and isinstance(test.op, ast.Not):
            v = self.eval3(test.operand, env)
            return UNKNOWN if v is None else (not v)
        if isinstance(test, ast.Compare):
            try:
                left = self.value(test.left, env)
                res = True
                for op, comp in zip(test.ops, test.comparators):
                    right = self.value(comp, env)
                    r = _cmp(op, left, right)
                    if r is UNKNOWN:
                        return UNKNOWN
                    if not r:
                        res = False
                        break
                    left = right
                return res
            except NotConst:
                return UNKNOWN
            except TypeError:
                return UNKNOWN
        try:
            v = self.value(test, env)
            return bool(v)
        except NotConst:
            return UNKNOWN

    def may_hold(self, facts, env):
        """False iff some fact is definitely contradicted under env."""
        for f in facts:
            v = self.eval3(f.test, env)
            if v is not UNKNOWN and v != f.pol:
                return False
        return True

    def must_hold(self, facts, env):
        """True iff every fact is definitely satisfied (no unknown)."""
        for f in facts:
            v = self.eval3(f.test, env)
            if v is UNKNOWN or v != f.pol:
                return False
        return True


def _enclosing_function(node):
    p = getattr(node, "_parent", None)
    while p is not None and not isinstance(p, (ast.FunctionDef, ast.AsyncFunctionDef, ast.Lambda)):
        p = getattr(p, "_parent", None)
    return p if isinstance(p, (ast.FunctionDef, ast.AsyncFunctionDef)) else None


_DEF_CACHE = {}


def _single_local_def(name_node):
    """value expression of the only assignment to this local in its function, if that assignment precedes the use, is not
    in a loop the use is outside of, and nothing the expression mentions is assigned between it and the use"""
    fn = _enclosing_function(name_node)
    if fn is None:
        return None
    key = (id(fn), name_node.id)
    if key not in _DEF_CACHE:
        params = {a.arg for a in fn.args.args + fn.args.kwonlyargs}
        stores = []
        if name_node.id not in params:
            for n in ast.walk(fn):
                if isinstance(n, ast.Name) and n.id == name_node.id and isinstance(n.ctx, (ast.Store, ast.Del)):
                    stores.append(n)
        d = None
        if len(stores) == 1:
            st = getattr(stores[0], "_parent", None)
            if isinstance(st, ast.Assign) and len(st.targets) == 1 and st.targets[0] is stores[0]:
                d = st
        _DEF_CACHE[key] = d
    st = _DEF_CACHE[key]
    if st is None or st.lineno >= name_node.lineno:
        return None
    # loops: the definition must not sit in a loop that does not also contain the use
    p = getattr(st, "_parent", None)
    while p is not None and p is not fn:
        if isinstance(p, (ast.For, ast.While)) and not any(x is name_node for x in ast.walk(p)):
            return None
        p = getattr(p, "_parent", None)
    # a container that is filled after its creation is not described by its defining expression
    container = isinstance(st.value, (ast.List, ast.Dict, ast.Set, ast.ListComp, ast.DictComp, ast.SetComp)) or \
        (isinstance(st.value, ast.Call) and norm(st.value.func) in ("list", "dict", "set", "bytearray", "collections.OrderedDict"))
    for n in ast.walk(fn):
        if isinstance(n, ast.Call) and isinstance(n.func, ast.Attribute) and isinstance(n.func.value, ast.Name) and n.func.value.id == name_node.id \
                and (container or st.lineno < n.lineno <= name_node.lineno):
            return None         # a method is called on it (may change it): in between, or anywhere for a container
        if isinstance(n, ast.Subscript) and isinstance(n.ctx, (ast.Store, ast.Del)) and isinstance(n.value, ast.Name) and n.value.id == name_node.id:
            return None
    mentioned = {norm(x) for x in ast.walk(st.value) if isinstance(x, (ast.Name, ast.Attribute))}
    for n in ast.walk(fn):
        if isinstance(n, (ast.Name, ast.Attribute)) and isinstance(n.ctx, (ast.Store, ast.Del)) and st.lineno < getattr(n, "lineno", 0) < name_node.lineno:
            if norm(n) in mentioned:
                return None
        if isinstance(n, ast.AugAssign) and st.lineno < n.lineno < name_node.lineno and norm(n.target) in mentioned:
            return None
    return st.value


def _cmp(op, a, b):
    try:
        if isinstance(op, ast.Eq):
            return a == b
        if isinstance(op, ast.NotEq):
            return a != b
        if isinstance(op, ast.Lt):
            return a < b
        if isinstance(op, ast.LtE):
            return a <= b
        if isinstance(op, ast.Gt):
            return a > b
        if isinstance(op, ast.GtE):
            return a >= b
        if isinstance(op, ast.In):
            return a in b
        if isinstance(op, ast.NotIn):
            return a not in b
        if isinstance(op, ast.Is):
            return a is b if (a is None or b is None or isinstance(a, bool) or isinstance(b, bool)) else (a == b)
        if isinstance(op, ast.IsNot):
            return a is not b if (a is None or b is None or isinstance(a, bool) or isinstance(b, bool)) else (a != b)
    except TypeError:
        return UNKNOWN
    return UNKNOWN


def int_constants(prog, module, nodes, cls=None):
    """all integer constants (literal or resolvable names) mentioned in the nodes"""
    out = set()
    for node in nodes:
        for n in ast.walk(node):
            if isinstance(n, (ast.Constant, ast.Name, ast.Attribute, ast.BinOp, ast.UnaryOp)):
                try:
                    v = prog.const(module, n, cls)
                except NotConst:
                    continue
                except Exception:
                    continue
                if isinstance(v, bool):
                    continue
                if isinstance(v, int):
                    out.add(v)
    return out


def probe_points(consts, extra=()):
    pts = set(extra)
    for c in consts:
        pts.update((c - 1, c, c + 1))
    if pts:
        pts.add(min(pts) - 1000)
        pts.add(max(pts) + 1000)
    else:
        pts.update((-1000, 0, 1000))
    return sorted(pts)


def accepted_values(prog, module, facts, var_key, cls=None, extra=(), extra_env=None):
    """(probe points, accepted subset): values of `var_key` under which the facts may all hold."""
    consts = int_constants(prog, module, [f.test for f in facts], cls)
    pts = probe_points(consts, extra)
    ev = Evaluator(prog, module, cls)
    acc = []
    for v in pts:
        env = dict(extra_env or {})
        env[var_key] = v
        if ev.may_hold(facts, env):
            acc.append(v)
    return pts, acc


def mentions(test, key):
    for n in ast.walk(test):
        if isinstance(n, (ast.Name, ast.Attribute, ast.Subscript, ast.Call)) and norm(n) == key:
            return True
    return False


def conjuncts(test, pol=True):
    """flatten a test under polarity into a list of (atom, polarity) that all hold
    (and: under True; or: under False via De Morgan); otherwise the test itself."""
    if isinstance(test, ast.UnaryOp) and isinstance(test.op, ast.Not):
        return conjuncts(test.operand, not pol)
    if isinstance(test, ast.BoolOp):
        if (isinstance(test.op, ast.And) and pol) or (isinstance(test.op, ast.Or) and not pol):
            out = []
            for v in test.values:
                out.extend(conjuncts(v, pol))
            return out
    return [(test, pol)]


def atoms_of_facts(facts):
    out = []
    for f in facts:
        out.extend(conjuncts(f.test, f.pol))
    return out


def eq_pairs(atoms):
    """{frozenset({lhs_text, rhs_text})} for every `a == b` atom holding positively
    (or `a != b` negatively)."""
    out = set()
    for a, pol in atoms:
        if isinstance(a, ast.Compare) and len(a.ops) == 1:
            if (isinstance(a.ops[0], ast.Eq) and pol) or (isinstance(a.ops[0], ast.NotEq) and not pol):
                out.add(frozenset((norm(a.left), norm(a.comparators[0]))))
    return out


def atom_texts(facts):
    """[(normalised text, polarity)] of the flattened atoms of the facts"""
    return [(norm(a), pol) for a, pol in atoms_of_facts(facts)]
