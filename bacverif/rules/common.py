"""Helpers shared by the per-property rule modules."""
import ast

from ..model import norm, is_self_attr, AnchorMissing, ShapeError, NotConst, calls_in, stores_in, qualname
from ..paths import enumerate_paths, facts_at, Path, walk_shallow, always_leaves, enclosing_stmt, statements_before
from ..guards import Evaluator, accepted_values, atoms_of_facts, eq_pairs, conjuncts, mentions


def where(module, node):
    return "%s:%d" % (module.relpath, getattr(node, "lineno", 0))


def self_call(call, name=None):
    """is `call` self.<name>(...)?  returns the method name or None"""
    f = call.func
    if isinstance(f, ast.Attribute) and isinstance(f.value, ast.Name) and f.value.id == "self":
        if name is None or f.attr == name:
            return f.attr
    return None


def base_call(call, prog, cls):
    """Base.method(self, ...) or super(K, self).method(...) -> (ClassInfo, method name) or None"""
    f = call.func
    if not isinstance(f, ast.Attribute):
        return None
    v = f.value
    if isinstance(v, ast.Name) and call.args and isinstance(call.args[0], ast.Name) and call.args[0].id == "self":
        c = prog.resolve_class_expr(cls.module, v, cls.bindings)
        if c is not None:
            return c, f.attr
    if isinstance(v, ast.Call) and isinstance(v.func, ast.Name) and v.func.id == "super":
        mro = prog.mro(cls)
        start = 1
        if v.args:
            k = prog.resolve_class_expr(cls.module, v.args[0], cls.bindings)
            if k is None and isinstance(v.args[0], ast.Name) and v.args[0].id == cls.node.name:
                k = cls
            if k in mro:
                start = mro.index(k) + 1
        for x in mro[start:]:
            if f.attr in x.methods:
                return x, f.attr
    return None


def feasible(path, ev, env):
    """may all branch conditions of the path hold under env?  Locals assigned on the path (flags such as
    `ok = a and b`, values returned by an inlined helper) are followed: a condition is evaluated with every local
    replaced by the expression it holds at that point of the path."""
    sym = {}
    plain = True
    for e in path.events:
        if e.kind == "stmt" and isinstance(e.node, (ast.Assign, ast.AugAssign)):
            plain = False
            break
    if plain:
        for test, pol in path.conds():
            v = ev.eval3(test, env)
            if v is not None and v != pol:
                return False
        return True
    for e in path.events:
        if e.kind == "cond":
            v = ev.eval3(e.node, env)
            if v is None and sym:
                names = {x.id for x in ast.walk(e.node) if isinstance(x, ast.Name)}
                if names & set(sym):
                    try:
                        v = ev.eval3(_SubstText(sym).visit(clone(e.node)), env)
                    except Exception:
                        v = None
            if v is not None and v != e.pol:
                return False
        elif e.kind == "stmt":
            n = e.node
            if isinstance(n, ast.Assign) and len(n.targets) == 1 and isinstance(n.targets[0], ast.Name):
                k = n.targets[0].id
                if k in env:
                    continue            # the caller fixed this name
                try:
                    sym[k] = _SubstText(sym).visit(clone(n.value))
                except Exception:
                    sym.pop(k, None)
            elif isinstance(n, ast.Assign):
                for t in n.targets:
                    for x in ast.walk(t):
                        if isinstance(x, ast.Name):
                            sym.pop(x.id, None)
            elif isinstance(n, ast.AugAssign) and isinstance(n.target, ast.Name):
                sym.pop(n.target.id, None)
        elif e.kind in ("loop1", "loop0") and isinstance(e.node, ast.For):
            for x in ast.walk(e.node.target):
                if isinstance(x, ast.Name):
                    sym.pop(x.id, None)
    return True


def call_positions(path, pred):
    """indices (in path.calls()) of calls satisfying pred"""
    return [i for i, c in enumerate(path.calls()) if pred(c)]


class EffectSummary:
    """Counts of classified calls along every non-raising path of a method,
    following calls to methods of the same class (through the MRO) to any
    depth; recursion is cut with the neutral element.

    classify(call) -> key or None.  A call that gets a key is counted and not
    descended into.  Result: dict {tuple(counts per key) -> example trace}.
    """

    def __init__(self, prog, cls, keys, classify, stop=(), max_tuples=400):
        self.prog = prog
        self.cls = cls
        self.keys = list(keys)
        self.classify = classify
        self.stop = set(stop)
        self.memo = {}
        self.active = set()
        self.max_tuples = max_tuples
        self.paths_seen = 0

    def zero(self):
        return tuple(0 for _ in self.keys)

    def of_method(self, name):
        r = self.prog.find_method(self.cls, name)
        if r is None:
            return {self.zero(): []}
        owner, fn = r
        return self.of_function(fn)

    def of_function(self, fn):
        k = id(fn)
        if k in self.memo:
            return self.memo[k]
        if k in self.active:
            return {self.zero(): ["<recursion %s>" % fn.name]}
        self.active.add(k)
        out = {}
        for p in enumerate_paths(fn):
            self.paths_seen += 1
            if p.term in ("raise", "cut"):
                continue
            acc = {self.zero(): []}
            for call in p.calls():
                key = self.classify(call)
                if key is not None:
                    idx = self.keys.index(key)
                    acc = {tuple(v + (1 if i == idx else 0) for i, v in enumerate(t)): tr + ["%s@%d" % (key, call.lineno)]
                           for t, tr in acc.items()}
                    continue
                sub = None
                m = self_call(call)
                if m and m not in self.stop:
                    r = self.prog.find_method(self.cls, m)
                    if r is not None:
                        sub = self.of_function(r[1])
                else:
                    bc = base_call(call, self.prog, self.cls)
                    if bc and bc[1] not in self.stop and bc[1] in bc[0].methods:
                        sub = self.of_function(bc[0].methods[bc[1]])
                if sub is not None:
                    new = {}
                    for t, tr in acc.items():
                        for t2, tr2 in sub.items():
                            tt = tuple(a + b for a, b in zip(t, t2))
                            if tt not in new:
                                new[tt] = tr + (["%s(" % norm(call.func)] + tr2 + [")"] if tr2 else [])
                    acc = new
                    if len(acc) > self.max_tuples:
                        raise ShapeError("effect summary of %s explodes" % fn.name)
            for t, tr in acc.items():
                if t not in out:
                    out[t] = ["%s:%d" % (fn.name, fn.lineno)] + tr
        self.active.discard(k)
        self.memo[k] = out
        return out


def const_arg(prog, module, call, idx, cls=None, kw=None, default=NotConst):
    node = None
    if len(call.args) > idx:
        node = call.args[idx]
    elif kw:
        for k in call.keywords:
            if k.arg == kw:
                node = k.value
    if node is None:
        if default is NotConst:
            raise NotConst("missing argument")
        return default
    return prog.const(module, node, cls)


def find_calls(fn, pred):
    return [c for c in calls_in(fn) if pred(c)]


def attr_stores(fn, attr, base="self"):
    """(target, stmt) for every store to <base>.<attr> in fn"""
    out = []
    for tgt, st in stores_in(fn):
        if isinstance(tgt, ast.Attribute) and tgt.attr == attr and isinstance(tgt.value, ast.Name) and (base is None or tgt.value.id == base):
            out.append((tgt, st))
    return out


def must_precede(fn, is_before, is_after, unroll=1):
    """On every path, is each event node satisfying is_after preceded by one satisfying is_before?
    predicates get ast nodes (statements and the calls inside them, in order).
    returns list of offending (path, node)"""
    bad = []
    for p in enumerate_paths(fn, unroll=unroll):
        seen = False
        for n in path_nodes(p):
            if is_before(n):
                seen = True
            if is_after(n) and not seen:
                bad.append((p, n))
                break
    return bad


def path_nodes(p):
    """statement nodes and the calls nested in them in execution order"""
    if p._nodes is not None:
        return p._nodes
    out = []
    p._nodes = out
    for e in p.events:
        if e.kind in ("stmt", "return", "raise"):
            from ..paths import _calls_postorder
            out.extend(_calls_postorder(e.node))
            out.append(e.node)
        elif e.kind == "cond":
            from ..paths import _calls_postorder
            out.extend(_calls_postorder(e.node))
    return out


# ------------------------------------------------------------ expressions
from ..astutil import clone, Subst as _Subst, norm_nc  # noqa: E402


def local_defs(fn):
    """{local name: value expr} for locals assigned exactly once by a plain `x = expr`
    (not in a loop target / augmented / tuple target)."""
    counts = {}
    vals = {}
    for n in walk_shallow(fn):
        if isinstance(n, ast.Assign):
            for t in n.targets:
                if isinstance(t, ast.Name):
                    counts[t.id] = counts.get(t.id, 0) + 1
                    vals[t.id] = n.value
                elif isinstance(t, (ast.Tuple, ast.List)):
                    for e in ast.walk(t):
                        if isinstance(e, ast.Name):
                            counts[e.id] = counts.get(e.id, 0) + 2
        elif isinstance(n, ast.AugAssign) and isinstance(n.target, ast.Name):
            counts[n.target.id] = counts.get(n.target.id, 0) + 2
        elif isinstance(n, ast.For):
            for e in ast.walk(n.target):
                if isinstance(e, ast.Name):
                    counts[e.id] = counts.get(e.id, 0) + 2
    params = {a.arg for a in fn.args.args + fn.args.kwonlyargs}
    return {k: v for k, v in vals.items() if counts.get(k) == 1 and k not in params}


def subst_locals(fn, expr, depth=4):
    """expression with single-assignment locals replaced by their definitions"""
    defs = local_defs(fn)
    e = clone(expr)
    for _ in range(depth):
        before = ast.dump(e)
        e = _Subst(defs).visit(e)
        if ast.dump(e) == before:
            break
    return e


def expr_values(ev, expr, grid):
    """[value or NotConst marker] of a pure expression for each env of the grid"""
    out = []
    for env in grid:
        try:
            out.append(ev.value(expr, env))
        except NotConst as e:
            out.append(("?", str(e)))
        except (TypeError, ZeroDivisionError, ValueError) as e:
            out.append(("!", type(e).__name__))
    return out


def grid(**axes):
    """cartesian product of named axes -> list of env dicts"""
    import itertools
    keys = list(axes)
    return [dict(zip(keys, vals)) for vals in itertools.product(*[axes[k] for k in keys])]


def same_function(ev, expr, grid_envs, ref):
    """does expr evaluate to ref(env) on every grid point?  -> (ok, first counterexample)"""
    for env in grid_envs:
        try:
            v = ev.value(expr, env)
        except NotConst as e:
            return False, ("not evaluable: %s" % e, env)
        except Exception as e:
            return False, ("%s" % type(e).__name__, env)
        want = ref(env)
        if isinstance(want, bool) or isinstance(v, bool):
            if bool(v) != bool(want):
                return False, (v, env)
        elif v != want:
            return False, (v, env)
    return True, None


def last_store_value(nodes, target_text, before=None):
    """value expr of the last `target = value` in the node list (optionally before index)"""
    val = None
    for i, n in enumerate(nodes):
        if before is not None and i >= before:
            break
        if isinstance(n, ast.Assign):
            for t in n.targets:
                if norm(t) == target_text:
                    val = n.value
    return val


def symbolic_value_on_path(path, stmt, expr=None, params=()):
    """Expression `expr` (default: the value of Assign `stmt`) with every local
    replaced by the expression it holds when `stmt` is reached along `path`
    (straight-line substitution along the path; augmented assignments folded)."""
    env = {}
    for n in path_nodes(path):
        if n is stmt:
            break
        if isinstance(n, ast.Assign) and len(n.targets) == 1 and isinstance(n.targets[0], ast.Name):
            env[n.targets[0].id] = _Subst(env).visit(clone(n.value))
        elif isinstance(n, ast.AugAssign) and isinstance(n.target, ast.Name):
            cur = env.get(n.target.id, ast.Name(id=n.target.id, ctx=ast.Load()))
            env[n.target.id] = ast.BinOp(left=clone(cur), op=n.op, right=_Subst(env).visit(clone(n.value)))
    e = expr if expr is not None else stmt.value
    return _Subst(env).visit(clone(e))


# --------------------------------------------------- path-sensitive reach
def body_paths(stmts, lineno=0):
    """paths through a statement list (e.g. a loop body) treated as a function body;
    break/continue end the path like a return"""
    from ..paths import _paths, Path
    out = []
    for evs, term in _paths(list(stmts), 1, True):
        out.append(Path(evs, term or "fall"))
    return out


def _contains(node, target):
    if node is target:
        return True
    for n in ast.walk(node):
        if n is target:
            return True
    return False


def conds_before(path, target):
    """branch conditions (test, polarity) on the path before the event that contains
    `target`; None if the path does not reach the target"""
    conds = []
    for e in path.events:
        if e.kind in ("stmt", "return", "raise", "cond"):
            if _contains(e.node, target):
                return conds
        elif e.kind in ("loop0", "loop1"):
            hdr = e.node.iter if isinstance(e.node, ast.For) else e.node.test
            if _contains(hdr, target):
                return conds
        if e.kind == "cond":
            conds.append((e.node, e.pol))
    return None


def consistent(conds):
    """no atomic condition occurs with both polarities (the analysed bodies do
    not re-assign what their guards test between two occurrences); `not x` and
    conjunctions are flattened first"""
    from ..guards import conjuncts
    seen = {}
    for t, p in conds:
        for a, pol in conjuncts(t, p):
            k = norm(a)
            if k in seen and seen[k] != pol:
                return False
            seen[k] = pol
    return True


def reaches(paths, target, ev, env):
    """is there a path on which every condition before `target` may hold under env?"""
    for p in paths:
        cs = conds_before(p, target)
        if cs is None or not consistent(cs):
            continue
        ok = True
        for t, pol in cs:
            v = ev.eval3(t, env)
            if v is not None and v != pol:
                ok = False
                break
        if ok:
            return True
    return False


def check_names_bound(ctx, module_names):
    """every global name the functions of these modules read is bound (no latent NameError)"""
    from .c19 import unresolved_names
    for mn in module_names:
        m = ctx.prog.module(mn)
        bad = unresolved_names(m)
        byfn = {}
        for q, n, ln in bad:
            byfn.setdefault(q, []).append((n, ln))
        for q, lst in sorted(byfn.items()):
            names = sorted({n for n, ln in lst})
            ctx.bad("%s.%s:unbound[%s]" % (mn, q, ",".join(names)), "%s:%d" % (m.relpath, lst[0][1]),
                    "reads %s, which is never bound (not a parameter, local, module name, import or builtin): NameError as soon as the path executes" % names)
        if not bad:
            ctx.ok("%s:names-bound" % mn, m.relpath + ":1")


def update_fields(prog, cls, depth=0):
    """attribute names written on `self` by cls.update(), following Base.update(self, x) calls"""
    found = prog.find_method(cls, "update")
    out = set()
    if found is None or depth > 4:
        return out
    owner, f = found
    for t, s in stores_in(f):
        if is_self_attr(t):
            out.add(t.attr)
    for call in calls_in(f):
        if isinstance(call.func, ast.Attribute) and call.func.attr == "update" and isinstance(call.func.value, ast.Name) and call.args and norm(call.args[0]) == "self":
            base = prog.resolve_class_expr((owner or cls).module, call.func.value)
            if base is not None and base is not cls:
                out |= update_fields(prog, base, depth + 1)
    return out


def check_header_copy_first(ctx, cls, fn, label):
    """in a decode method: the copy of the carrier's header fields into self (X.update(self, pdu)) must not follow a
    store of a decoded value into one of the fields the copy writes - the decoded value would be overwritten"""
    prog = ctx.prog
    calls = [c for c in calls_in(fn) if isinstance(c.func, ast.Attribute) and c.func.attr == "update" and c.args and norm(c.args[0]) == "self"
             and isinstance(c.func.value, ast.Name)]
    bad = []
    for c in calls:
        k = prog.resolve_class_expr(cls.module, c.func.value)
        if k is None:
            continue
        flds = update_fields(prog, k)
        for t, s in stores_in(fn):
            if is_self_attr(t) and t.attr in flds and s.lineno < c.lineno and same_block_chain(s, c):
                bad.append((t.attr, s.lineno, c.lineno))
    ctx.check("%s:header-copy-before-decoded-fields" % label, bool(calls) and not bad, where(cls.module, calls[0] if calls else fn),
              "the header copy %s overwrites decoded field(s) %s stored before it" % (norm(calls[0]) if calls else "(missing)", sorted({b[0] for b in bad})) if calls else
              "decode does not copy the carrier's addressing into the decoded PDU")


def same_block_chain(a, b):
    """may statement-level nodes a and b lie on one path?  (not in different arms of the same if/try)"""
    def chain(n):
        out = []
        p = n
        while p is not None:
            par = getattr(p, "_parent", None)
            if par is not None:
                for fld in ("body", "orelse", "handlers", "finalbody"):
                    lst = getattr(par, fld, None)
                    if isinstance(lst, list) and p in lst:
                        out.append((id(par), fld))
            p = par
        return out
    ca, cb = dict(chain(a)), dict(chain(b))
    for par, fld in ca.items():
        if par in cb and cb[par] != fld and {fld, cb[par]} == {"body", "orelse"}:
            return False
    return True


# --------------------------------------------------- value of a target along a path, on a finite environment
def path_value(path, ev, env0, target, upto=None):
    """Walk the events of `path` in order, keeping for every local name / self attribute the expression it holds
    (straight-line substitution; tuple unpacking of divmod() and of literal tuples; augmented assignments folded).
    Branch conditions are evaluated under `env0` after substitution: a definitely contradicted condition makes the
    path infeasible.  -> ('infeasible', None) | ('value', v) | ('unknown', reason) for the final value of `target`
    (normalised text, e.g. 'self.segmentCount'); ('absent', None) when the path never stores it."""
    sym = {}
    stored = False

    def sub(e):
        return _SubstText(sym).visit(clone(e))

    def put(tgt, val):
        nonlocal stored
        k = norm_nc(tgt)
        sym[k] = val
        if k == target:
            stored = True
    for e in path.events:
        if upto is not None and e.node is upto:
            break
        if e.kind == "cond":
            try:
                v = ev.eval3(sub(e.node), env0)
            except Exception:
                v = None
            if v is not None and v != e.pol:
                return "infeasible", None
        elif e.kind == "stmt":
            n = e.node
            if isinstance(n, ast.Assign) and len(n.targets) == 1:
                t = n.targets[0]
                if isinstance(t, (ast.Name, ast.Attribute)):
                    put(t, sub(n.value))
                elif isinstance(t, ast.Tuple):
                    val = n.value
                    parts = None
                    if isinstance(val, ast.Call) and isinstance(val.func, ast.Name) and val.func.id == "divmod" and len(val.args) == 2 and len(t.elts) == 2:
                        a, b = sub(val.args[0]), sub(val.args[1])
                        parts = [ast.BinOp(left=a, op=ast.FloorDiv(), right=b), ast.BinOp(left=clone(a), op=ast.Mod(), right=clone(b))]
                    elif isinstance(val, ast.Tuple) and len(val.elts) == len(t.elts):
                        parts = [sub(x) for x in val.elts]
                    for i, te in enumerate(t.elts):
                        if isinstance(te, (ast.Name, ast.Attribute)):
                            put(te, parts[i] if parts is not None else ast.Name(id="__unknown__", ctx=ast.Load()))
            elif isinstance(n, ast.AugAssign) and isinstance(n.target, (ast.Name, ast.Attribute)):
                k = norm_nc(n.target)
                cur = sym.get(k, clone(n.target))
                put(n.target, ast.BinOp(left=clone(cur), op=n.op, right=sub(n.value)))
    if target == "<return-expr>":
        last = path.events[-1] if path.events else None
        if path.term != "return" or last is None or not isinstance(last.node, ast.Return) or last.node.value is None:
            return "absent", None
        return "expr", sub(last.node.value)
    if target == "<return>":
        last = path.events[-1] if path.events else None
        if path.term != "return" or last is None or not isinstance(last.node, ast.Return):
            return "absent", None
        if last.node.value is None:
            return "value", None
        try:
            return "value", ev.value(sub(last.node.value), env0)
        except NotConst as ex:
            return "unknown", str(ex)
        except (TypeError, ZeroDivisionError, ValueError) as ex:
            return "unknown", type(ex).__name__
    if not stored:
        return "absent", None
    try:
        return "value", ev.value(sym[target], env0)
    except NotConst as ex:
        return "unknown", str(ex)
    except (TypeError, ZeroDivisionError, ValueError) as ex:
        return "unknown", type(ex).__name__


def path_return_expr(path, ev, env0):
    """the expression returned at the end of the path with the locals assigned on the path substituted (not evaluated);
    -> ('infeasible'|'absent'|'expr', ast or None)"""
    return path_value(path, ev, env0, "<return-expr>")


def path_return_value(path, ev, env0):
    """value returned at the end of the path, with the locals assigned on the path followed (see path_value)"""
    return path_value(path, ev, env0, "<return>")


class _SubstText(ast.NodeTransformer):
    """replace names and attribute chains whose normalised text is a key by (a clone of) the mapped expression"""
    def __init__(self, mapping):
        self.mapping = mapping

    def visit_Name(self, node):
        if isinstance(node.ctx, ast.Load) and node.id in self.mapping:
            return clone(self.mapping[node.id])
        return node

    def visit_Attribute(self, node):
        if isinstance(node.ctx, ast.Load):
            k = norm_nc(node)
            if k in self.mapping:
                return clone(self.mapping[k])
        self.generic_visit(node)
        return node


def conds_before_sym(path, target):
    """like conds_before, with every condition rewritten so that a local assigned earlier on the path (a flag such as
    `acceptable = datatype.is_valid(value)`) is replaced by the expression it holds"""
    sym = {}
    conds = []
    for e in path.events:
        if e.kind in ("stmt", "return", "raise") and _contains(e.node, target):
            return conds
        if e.kind == "cond":
            if _contains(e.node, target):
                return conds
            t = e.node
            if sym and {x.id for x in ast.walk(t) if isinstance(x, ast.Name)} & set(sym):
                t = _SubstText(sym).visit(clone(t))
            conds.append((t, e.pol))
        elif e.kind == "stmt":
            n = e.node
            if isinstance(n, ast.Assign) and len(n.targets) == 1 and isinstance(n.targets[0], ast.Name):
                sym[n.targets[0].id] = _SubstText(sym).visit(clone(n.value))
            elif isinstance(n, ast.Assign):
                for t_ in n.targets:
                    for x in ast.walk(t_):
                        if isinstance(x, ast.Name):
                            sym.pop(x.id, None)
            elif isinstance(n, ast.AugAssign) and isinstance(n.target, ast.Name):
                sym.pop(n.target.id, None)
    return None
