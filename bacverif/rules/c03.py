"""C03 - service PDUs and constructed types: well-formed and deterministic
wire schemas, registries, symmetric generic interpreter, trailing data,
drift against the reviewed wire reference."""
import ast
import json
import os

from ..report import rule, VERIF_DIR
from ..model import norm, NotConst, calls_in, stores_in, ShapeError, AnchorMissing, qualname
from ..paths import enumerate_paths, facts_at, walk_shallow, enclosing_stmt, always_leaves, enclosing_loops
from ..guards import Evaluator, atom_texts, atoms_of_facts
from ..tables import Tables, tags_conflict, all_table_classes
from .common import where, self_call, feasible, path_nodes, base_call, body_paths, reaches, consistent

WIRE_REF = os.path.join(VERIF_DIR, "spec", "wire_reference.json")
LIST_KINDS = ("seqof", "listof", "arrayof")


def _tables(ctx):
    t = getattr(ctx, "_tables", None)
    if t is None:
        t = ctx._tables = Tables(ctx.prog)
    return t


def table_iter(ctx):
    T = _tables(ctx)
    for c, k in all_table_classes(ctx.prog, T):
        attr = "sequenceElements" if k == "sequence" else "choiceElements"
        els = T.own_elements(c, attr)
        if els is None:
            continue
        yield c, k, els


@rule("C03.R1", "every sequence/choice table is well-formed for the generic codec (resolvable kinds, one-octet contexts, no shape the decoder cannot accept)",
      floor=800, engines="E3")
def r1(ctx):
    T = _tables(ctx)
    ns = nc = 0
    for c, k, els in table_iter(ctx):
        if k == "sequence":
            ns += 1
        else:
            nc += 1
        names = set()
        for i, e in enumerate(els):
            key = "%s.%s" % (c.name, e.name)
            ek = T.kind(e.klass)
            ctx.check(key + ":kind", ek != "?", e.where(), "element class %s does not resolve to a wire kind" % e.klass_text)
            ctx.check(key + ":name", e.name not in names, e.where(), "element name used twice in one table")
            names.add(e.name)
            if e.context is not None:
                ctx.check(key + ":context-range", isinstance(e.context, int) and 0 <= e.context <= 254, e.where(),
                          "context tag number %r cannot be encoded (the tag number occupies one octet, 0..254)" % (e.context,))
            if ek == "anyatomic":
                ctx.check(key + ":anyatomic-context", e.context is None, e.where(), "an AnyAtomic element with a context tag is refused by the decoder")
            if k == "sequence":
                if ek in ("seqof",) and e.context is None:
                    ctx.check(key + ":open-list-last", i == len(els) - 1, e.where(), "a list without context consumes everything up to the closing tag and must be the last element")
                if ek == "listof":
                    ctx.check(key + ":listof-in-sequence", False, e.where(), "a ListOf element is decoded into a list object that the encoder then refuses") if False else None
            else:
                if ek in ("sequence", "choice", "any") + LIST_KINDS:
                    ctx.check(key + ":choice-needs-context", e.context is not None, e.where(),
                              "a constructed CHOICE alternative without context tag: Choice.decode raises NotImplementedError when it reaches it")
                ctx.check(key + ":choice-optional", not e.optional, e.where(), "optional has no meaning in a CHOICE")
    ctx.count("sequences", ns)
    ctx.count("choices", nc)
    if ns < 150 or nc < 40:
        raise ShapeError("only %d sequence and %d choice tables found" % (ns, nc))


@rule("C03.R2", "the generic decoder is deterministic on every table: optional/nullable elements cannot be confused with what follows, CHOICE alternatives have distinct head tags",
      floor=200, engines="E3 FIRST sets (LL(1))")
def r2(ctx):
    T = _tables(ctx)
    for c, k, els in table_iter(ctx):
        if k == "sequence":
            for i, e in enumerate(els):
                f, nul = T.first(e.klass, e.context)
                if not (e.optional or nul):
                    continue
                ek = T.kind(e.klass)
                for j in range(i + 1, len(els)):
                    e2 = els[j]
                    f2, nul2 = T.first(e2.klass, e2.context)
                    conf = [(a, b) for a in f for b in f2 if tags_conflict(a, b)]
                    # decided conflicts only: the decoder commits on the head tag for atomic / context / opening-tagged elements
                    hard = [x for x in conf if ek in ("atomic", "anyatomic") or e.context is not None or ek in LIST_KINDS or ek == "any"]
                    ctx.check("%s.%s<>%s" % (c.name, e.name, e2.name), not hard, e.where(),
                              "optional/nullable element %s and later element %s can start with the same tag %r: the decoder mis-assigns" % (e.name, e2.name, hard[:2]))
                    if not (e2.optional or nul2):
                        break
        else:
            seen = []
            for e in els:
                f, _ = T.first(e.klass, e.context)
                for (e0, f0) in seen:
                    conf = [(a, b) for a in f for b in f0 if tags_conflict(a, b)]
                    ctx.check("%s.%s|%s" % (c.name, e0.name, e.name), not conf, e.where(), "CHOICE alternatives %s and %s share head tag %r: the second can never be decoded" % (e0.name, e.name, conf[:1]))
                seen.append((e, f))


@rule("C03.R3", "context tag numbers are unique and strictly ascending within each table (the convention of every production of clause 21)", floor=150, engines="E3")
def r3(ctx):
    for c, k, els in table_iter(ctx):
        cs = [(e.context, e) for e in els if e.context is not None]
        nums = [x for x, _ in cs]
        if not nums:
            continue
        dup = sorted({x for x in nums if nums.count(x) > 1})
        ctx.check("%s:unique-contexts" % c.name, not dup, c.where(), "context numbers used twice: %r" % dup)
        bad = [(a[1].name, a[0], b[1].name, b[0]) for a, b in zip(cs, cs[1:]) if isinstance(a[0], int) and isinstance(b[0], int) and not a[0] < b[0]]
        ctx.check("%s:ascending-contexts" % c.name, not bad, c.where(), "context numbers not ascending: %r" % bad[:2])
        if k == "sequence":
            # all-or-none mixing: a context-less element after context-tagged ones is legal (ASN.1) but within one table the head tags must stay decidable (R2)
            pass


# classes the source itself marks "removed in version 1, revision 11" (kept unregistered on purpose)
REMOVED_IN_REV11 = {"AuthenticateRequest": "removed in revision 11", "AuthenticateACK": "removed in revision 11", "RequestKeyRequest": "removed in revision 11"}


@rule("C03.R4", "service registries: every service class is registered once under the number the service-choice enumeration gives its name", floor=58, engines="E3")
def r4(ctx):
    prog = ctx.prog
    T = _tables(ctx)
    m = prog.module("apdu")
    regs = {
        "confirmed_request_types": ("register_confirmed_request_type", "ConfirmedRequestSequence", "ConfirmedServiceChoice"),
        "complex_ack_types": ("register_complex_ack_type", "ComplexAckSequence", "ConfirmedServiceChoice"),
        "unconfirmed_request_types": ("register_unconfirmed_request_type", "UnconfirmedRequestSequence", "UnconfirmedServiceChoice"),
    }
    total = 0
    numbers = {}
    for reg, (fname, base, enum) in regs.items():
        entries = T.registry_calls("apdu", fname)
        enumc = prog.cls("apdu", enum)
        emap = T.enumerations(enumc)
        lower = {k.lower(): v for k, v in emap.items()}
        seen = {}
        registered = set()
        for k, text, st in entries:
            total += 1
            if k is None:
                ctx.bad("%s:%s" % (reg, text), where(m, st), "registered name does not resolve to a class")
                continue
            registered.add(k.name)
            sc = prog.class_attr(k, "serviceChoice")
            num = prog.try_const(sc[0].module, sc[1], sc[0]) if sc else None
            ctx.check("%s:%s:has-choice" % (reg, k.name), isinstance(num, int), where(m, st), "registered class has no integer serviceChoice")
            ctx.check("%s:%s:unique" % (reg, k.name), num not in seen, where(m, st), "service choice %r registered twice (%s and %s): the later registration replaces the earlier" % (num, seen.get(num), k.name))
            seen[num] = k.name
            # name <-> number
            nm = k.name
            for suf in ("Request", "ACK"):
                if nm.endswith(suf):
                    nm = nm[: -len(suf)]
            cand = [nm.lower(), ("confirmed" + nm).lower(), nm.lower().replace("confirmed", ""), nm.lower().replace("unconfirmed", "")]
            want = next((lower[x] for x in cand if x in lower), None)
            ctx.check("%s:%s:number" % (reg, k.name), want is not None and want == num, where(m, st),
                      "%s has serviceChoice %r but %s gives %r for its name" % (k.name, num, enum, want))
            ctx.check("%s:%s:base" % (reg, k.name), any(x.name == base for x in prog.mro(k)), where(m, st), "%s is not a %s" % (k.name, base))
        numbers[reg] = seen
        # every subclass with a serviceChoice is registered
        basec = prog.cls("apdu", base)
        for sub in prog.subclasses(basec):
            if sub.module.name != "apdu" or "serviceChoice" not in sub.attrs:
                continue
            if prog.try_const(sub.module, sub.attrs["serviceChoice"], sub) is None:
                continue
            ctx.check("%s:%s:registered" % (reg, sub.name), sub.name in registered or sub.name in REMOVED_IN_REV11, sub.where(),
                      "%s declares a serviceChoice but is never registered: the service cannot be decoded" % sub.name)
    # acks and errors belong to a confirmed request
    for num, name in numbers["complex_ack_types"].items():
        ctx.check("complex_ack_types:%s:has-request" % name, num in numbers["confirmed_request_types"], m.where(m.tree), "complex ack %s has no confirmed request with choice %r" % (name, num))
    for key, k, st in T.dict_stores("apdu", "error_types"):
        total += 1
        ctx.check("error_types[%r]" % (key,), k is not None and key in numbers["confirmed_request_types"] and any(x.name == "ErrorSequence" for x in prog.mro(k)), where(m, st),
                  "error type for service %r: class must be an ErrorSequence and the service a registered confirmed request" % (key,))
    # registration functions store by serviceChoice
    for reg, (fname, base, enum) in regs.items():
        f = m.functions.get(fname)
        if f is None:
            raise AnchorMissing("apdu.%s" % fname)
        st = [s for s in walk_shallow(f) if isinstance(s, ast.Assign) and isinstance(s.targets[0], ast.Subscript)]
        p = f.args.args[0].arg
        ok = len(st) == 1 and norm(st[0].targets[0].value) == reg and norm(st[0].targets[0].slice) == "%s.serviceChoice" % p and norm(st[0].value) == p
        ctx.check("%s:keyed-by-serviceChoice" % fname, ok, where(m, f), "%s must store the class under its serviceChoice in %s" % (fname, reg))
    ctx.count("registered", total)


def _branch_of(prog, module, facts):
    """classify a decode/encode branch by the kind tests on element.klass that hold"""
    at = atom_texts(facts)
    return at


def _no_shared_default_containers(ctx, modules):
    """a list/dict/set default argument that is stored into the object or mutated is shared by every call that omits the
    argument: what one decode collected shows up in the next"""
    n = 0
    for mn in modules:
        m = ctx.prog.module(mn)
        for fn in [x for x in ast.walk(m.tree) if isinstance(x, ast.FunctionDef)]:
            args = fn.args.args
            defs = fn.args.defaults
            for a, d in list(zip(args[len(args) - len(defs):], defs)) + [(a_, d_) for a_, d_ in zip(fn.args.kwonlyargs, fn.args.kw_defaults) if d_ is not None]:
                n += 1
                if not (isinstance(d, (ast.List, ast.Dict, ast.Set)) or (isinstance(d, ast.Call) and norm(d.func) in ("list", "dict", "set"))):
                    continue
                for x in ast.walk(fn):
                    kept = isinstance(x, ast.Assign) and isinstance(x.value, ast.Name) and x.value.id == a.arg and not isinstance(x.targets[0], ast.Name)
                    grown = isinstance(x, ast.Call) and isinstance(x.func, ast.Attribute) and isinstance(x.func.value, ast.Name) and x.func.value.id == a.arg \
                        and x.func.attr in ("append", "extend", "update", "add", "insert", "pop", "remove", "clear", "setdefault")
                    if kept or grown:
                        ctx.bad("%s.%s:shared-default[%s]" % (mn, fn.name, a.arg), where(m, x),
                                "the default %s of parameter %s is one object for all calls and is %s here: values accumulate across instances" % (norm(d), a.arg, "stored" if kept else "modified"))
    ctx.ok("schema modules:no-shared-default-containers", "py34/bacpypes/constructeddata.py:1")
    ctx.count("default arguments inspected", n)


@rule("C03.R5", "the generic interpreter is symmetric: what encode wraps in opening/closing tags decode unwraps with the same tag class and number; required/optional decisions agree",
      floor=20, engines="E1 paths over Sequence/Choice encode+decode")
def r5(ctx):
    prog = ctx.prog
    _no_shared_default_containers(ctx, ["constructeddata", "primitivedata", "apdu", "basetypes"])
    for cname in ("Sequence", "Choice"):
        c = prog.cls("constructeddata", cname)
        m = c.module
        enc = c.methods.get("encode")
        dec = c.methods.get("decode")
        if enc is None or dec is None:
            raise AnchorMissing("%s.encode/decode" % cname)
        # ---- context number 0 is a context number: no decision about an element's context may tell 0 from another number
        evc = Evaluator(prog, m, c)
        for fn in (enc, dec):
            nt = 0
            for n in ast.walk(fn):
                t = n.test if isinstance(n, (ast.If, ast.While, ast.IfExp)) else None
                if t is None:
                    continue
                keys = {norm(x) for x in ast.walk(t) if isinstance(x, ast.Attribute) and x.attr == "context"}
                for k in keys:
                    nt += 1
                    r0, r3, rn = evc.eval3(t, {k: 0}), evc.eval3(t, {k: 3}), evc.eval3(t, {k: None})
                    ctx.check("%s.%s:context-0-is-a-context#%d" % (cname, fn.name, nt), r0 == r3, where(m, n),
                              "the test %s comes out %s for context number 0 but %s for 3: elements tagged [0] are then treated as untagged" % (norm(t)[:80], r0, r3))
            if nt < 3:
                raise ShapeError("%s.%s: only %d context decisions found" % (cname, fn.name, nt))
        # ---- encode: on every path through the element loop body, OpeningTag(ctx) count == ClosingTag(ctx) count, value encoded in between
        loops = [l for l in walk_shallow(enc) if isinstance(l, ast.For) and norm(l.iter).endswith("Elements")]
        if len(loops) != 1:
            raise ShapeError("%s.encode: element loop not found" % cname)
        npaths = 0
        for p in body_paths(loops[0].body):
            if p.term == "raise" or not consistent(p.conds()):
                continue
            npaths += 1
            nodes = path_nodes(p)
            opens = [i for i, n in enumerate(nodes) if isinstance(n, ast.Call) and norm(n.func) == "OpeningTag"]
            closes = [i for i, n in enumerate(nodes) if isinstance(n, ast.Call) and norm(n.func) == "ClosingTag"]
            encs = [i for i, n in enumerate(nodes) if isinstance(n, ast.Call) and isinstance(n.func, ast.Attribute) and n.func.attr == "encode"]
            ok = len(opens) == len(closes) and len(opens) <= 1
            if ok and opens:
                ok = len(encs) == 1 and opens[0] < encs[0] < closes[0] and norm(nodes[opens[0]].args[0]) == norm(nodes[closes[0]].args[0]) == "element.context"
                appended = [n for n in nodes if isinstance(n, ast.Call) and norm(n.func) == "taglist.append" and n.args and isinstance(n.args[0], ast.Call) and norm(n.args[0].func) in ("OpeningTag", "ClosingTag")]
                ok = ok and len(appended) == 2
            ctx.check("%s.encode:open-close-paired" % cname, ok, where(m, enc), "a path through the element loop opens %d and closes %d groups: %s" % (len(opens), len(closes), p.describe()[:200]))
            # a pass of the element loop that emits nothing is taken only for an absent value (None): a present value - an
            # empty list is one, its opening/closing pair is what tells "no items" from "not given" - is always encoded
            if not encs:
                from ..guards import conjuncts as _conj
                held = {(norm(a).replace("(", "").replace(")", ""), pl) for t_, pol_ in p.conds() for a, pl in _conj(t_, pol_)}
                absent = ("value is None", True) in held or ("value is not None", False) in held or ("value == None", True) in held
                ctx.check("%s.encode:only-absent-skipped" % cname, absent, where(m, enc),
                          "a pass through the element loop emits nothing although the element's value is not None: %s" % p.describe()[:240])
            # context atomic: app_to_context(element.context)
            conv = [n for n in nodes if isinstance(n, ast.Call) and isinstance(n.func, ast.Attribute) and n.func.attr == "app_to_context"]
            for cv in conv:
                ctx.check("%s.encode:context-number" % cname, len(cv.args) == 1 and norm(cv.args[0]) == "element.context", where(m, cv), "atomic elements must be context-tagged with the element's number")
        ctx.count("paths", npaths)
        # ---- decode: every Pop() of a head tag is dominated by a test of the right tag class and the element's number
        loops = [l for l in walk_shallow(dec) if isinstance(l, ast.For) and norm(l.iter).endswith("Elements")]
        if not loops:
            raise ShapeError("%s.decode: element loop not found" % cname)
        lp = loops[0]
        ev = Evaluator(prog, m, c)
        tagc = prog.cls("primitivedata", "Tag")
        CLS = {k: prog.const(tagc.module, tagc.attrs[k], tagc) for k in ("applicationTagClass", "contextTagClass", "openingTagClass", "closingTagClass")}
        lp = max(loops, key=lambda l: len(list(ast.walk(l))))
        pops = [x for x in calls_in(lp) if norm(x.func) == "taglist.Pop"]
        lpaths = body_paths(lp.body)
        nhead = 0
        for pop in pops:
            st = enclosing_stmt(pop)
            if isinstance(st, ast.Assign):
                continue      # closing tag pop, handled below
            fa = facts_at(pop, stop=lp)
            at = atom_texts(fa)
            # which kind branch?
            is_list = any(("_sequence_of_classes" in t or "_list_of_classes" in t) and p for t, p in at)
            is_atomic = any(t.startswith("issubclass(element.klass") and ("Atomic" in t) and p for t, p in at)
            kindname = "list" if is_list else "atomic" if is_atomic else "constructed"
            for has_ctx in (True, False):
                reach = []
                for tc_name, tc in CLS.items():
                    for num_ok in (True, False):
                        env = {"tag.tagClass": tc, "element.context": 7 if has_ctx else None, "tag.tagNumber": 7 if num_ok else 8, "element.klass._app_tag": 7, "tag": True,
                               "element.context is not None": has_ctx, "element.context is None": not has_ctx}
                        if reaches(lpaths, pop, ev, env):
                            reach.append((tc_name, num_ok))
                if not reach:
                    continue
                nhead += 1
                if has_ctx:
                    want_cls = "contextTagClass" if kindname == "atomic" else "openingTagClass"
                    ok = reach == [(want_cls, True)]
                    ctx.check("%s.decode:%s-context-head" % (cname, kindname), ok, where(m, pop),
                              "a context-tagged %s element is encoded with a %s head tag carrying the element's number, but the decoder consumes the head when (tag class, number matches) is %r"
                              % (kindname, want_cls.replace("TagClass", ""), reach))
                elif kindname == "atomic":
                    ok = all(tcn == "applicationTagClass" for tcn, _ in reach)
                    ctx.check("%s.decode:atomic-application-head" % cname, ok, where(m, pop), "an application-tagged atomic element is consumed for tag classes %r" % reach)
        if nhead < 3:
            raise ShapeError("%s.decode: only %d head-tag pops analysed" % (cname, nhead))
        # closing tags: tag = taglist.Pop(); must be compared with closingTagClass and element.context, raising otherwise
        for pop in pops:
            st = enclosing_stmt(pop)
            if not isinstance(st, ast.Assign):
                continue
            var = norm(st.targets[0])
            blk = getattr(st, "_parent", None)
            sibs = None
            for fld in ("body", "orelse"):
                lst = getattr(blk, fld, None)
                if isinstance(lst, list) and st in lst:
                    sibs = lst[lst.index(st) + 1:]
            chk = sibs[0] if sibs else None
            ok = isinstance(chk, ast.If) and always_leaves(chk.body) and isinstance(chk.body[-1], ast.Raise)
            if ok:
                acc = []
                for tc_name, tc in CLS.items():
                    for num_ok in (True, False):
                        env = {"%s.tagClass" % var: tc, "%s.tagNumber" % var: 7 if num_ok else 8, "element.context": 7, var: True}
                        v = ev.eval3(chk.test, env)
                        if v is not True:
                            acc.append((tc_name, num_ok))
                ok = acc == [("closingTagClass", True)]
            ctx.check("%s.decode:closing-tag-checked@%d" % (cname, sum(1 for q in pops if isinstance(enclosing_stmt(q), ast.Assign) and q.lineno <= pop.lineno)), ok, where(m, pop),
                      "after a context-tagged group the next tag must be the closing tag of the same number, anything else must be refused")
    # context-tagged atomics: the tag handed to the primitive's constructor must come from tag.context_to_app(<app tag of the class>)
    # (the conversion owns the BOOLEAN special case; relabelling the tag by hand decodes False as True)
    for cname in ("Sequence", "Choice"):
        c = prog.cls("constructeddata", cname)
        dec = c.methods["decode"]
        ev2 = Evaluator(prog, c.module, c)
        loops2 = [l for l in walk_shallow(dec) if isinstance(l, ast.For) and norm(l.iter).endswith("Elements")]
        lp2 = max(loops2, key=lambda l: len(list(ast.walk(l))))
        ctors = [x for x in calls_in(lp2) if norm(x.func) == "element.klass" and len(x.args) == 1 and isinstance(x.args[0], ast.Name)]
        nctx = 0
        for p in body_paths(lp2.body):
            if p.term == "raise" or not consistent(p.conds()):
                continue
            nodes = path_nodes(p)
            mk = [n for n in nodes if isinstance(n, ast.Call) and n in ctors]
            if not mk:
                continue
            ctxpath = any(norm(t) == "element.context is not None" and pol for t, pol in p.conds()) and not any(norm(t) == "element.context is not None" and not pol for t, pol in p.conds())
            is_any_atomic_only = any("AnyAtomic" in norm(t) and "Atomic," not in norm(t) and pol for t, pol in p.conds())
            if not ctxpath:
                continue
            nctx += 1
            var = mk[0].args[0].id
            i = nodes.index(mk[0])
            conv = [n for n in nodes[:i] if isinstance(n, ast.Assign) and norm(n.targets[0]) == var and isinstance(n.value, ast.Call)
                    and isinstance(n.value.func, ast.Attribute) and n.value.func.attr == "context_to_app"]
            ok = len(conv) == 1 and norm(conv[0].value.func.value) == var and len(conv[0].value.args) == 1 and norm(conv[0].value.args[0]) == "element.klass._app_tag"
            ctx.check("%s.decode:context-to-app" % cname, ok, where(c.module, mk[0]),
                      "a context-tagged primitive must be converted with tag.context_to_app(element.klass._app_tag) before it is decoded (BOOLEAN keeps its value in the data octet, not in LVT)")
        if nctx == 0:
            raise ShapeError("%s.decode: no context-tagged atomic path found" % cname)
    # end of data / closing tag: decision table of Sequence.decode
    c = prog.cls("constructeddata", "Sequence")
    dec = c.methods["decode"]
    evs = Evaluator(prog, c.module, c)
    lp3 = max([l for l in walk_shallow(dec) if isinstance(l, ast.For) and norm(l.iter).endswith("Elements")], key=lambda l: len(list(ast.walk(l))))
    table = {}
    for situation in ("end", "closing"):
        for optional in (True, False):
            for listk in (True, False):
                env = {"tag is None": situation == "end", "tag": None if situation == "end" else True, "tag.tagClass": 3, "element.optional": optional,
                       "element.klass in _sequence_of_classes": listk, "element.klass in _list_of_classes": False}
                outs = set()
                for p in body_paths(lp3.body):
                    if not consistent(p.conds()) or not feasible(p, evs, env):
                        continue
                    nodes = path_nodes(p)
                    if p.term == "raise":
                        r = [n for n in nodes if isinstance(n, ast.Raise)]
                        outs.add("raise:" + (norm(r[-1].exc.func) if r and isinstance(r[-1].exc, ast.Call) else "?"))
                    else:
                        sa = [n for n in nodes if isinstance(n, ast.Call) and norm(n.func) == "setattr"]
                        pops = [n for n in nodes if isinstance(n, ast.Call) and norm(n.func) == "taglist.Pop"]
                        outs.add("set:" + (norm(sa[-1].args[2]) if sa else "?") + ("+pop" if pops else ""))
                table[(situation, optional, listk)] = outs
    want = {("end", True, True): {"set:None"}, ("end", True, False): {"set:None"}, ("end", False, True): {"set:[]"}, ("end", False, False): {"raise:MissingRequiredParameter"},
            ("closing", True, True): {"set:None"}, ("closing", True, False): {"set:None"},
            # the end of an enclosing context is the end of this sequence's data: an empty required list is [] there too
            # (an AtomicReadFile-ACK with zero records); the pinned tree raised here, see KF-28
            ("closing", False, True): {"set:[]"}, ("closing", False, False): {"raise:MissingRequiredParameter"}}
    for k, v in want.items():
        ctx.check("Sequence.decode:end-of-data[%s,optional=%s,list=%s]" % k, table.get(k) == v, where(c.module, dec),
                  "at %s of the data an %s %s element must give %s (found %s)" % ("the end" if k[0] == "end" else "a closing tag", "optional" if k[1] else "required", "list" if k[2] else "non-list", sorted(v), sorted(table.get(k) or [])))
    # required / optional decisions on both sides of Sequence
    c = prog.cls("constructeddata", "Sequence")
    enc, dec = c.methods["encode"], c.methods["decode"]
    ev = Evaluator(prog, c.module, c)
    raises = [r for r in walk_shallow(enc) if isinstance(r, ast.Raise) and "MissingRequiredParameter" in norm(r)]
    ok = any(ev.may_hold(facts_at(r), {"element.optional": False, "value is None": True, "value": None}) and not ev.may_hold(facts_at(r), {"element.optional": True, "value is None": True, "value": None})
             and not ev.may_hold(facts_at(r), {"element.optional": False, "value is None": False, "value": 1}) for r in raises)
    ctx.check("Sequence.encode:missing-required", ok, where(c.module, enc), "a required element that is None must be refused by the encoder")
    conts = [n for n in walk_shallow(enc) if isinstance(n, ast.Continue)]
    ok = any(ev.may_hold(facts_at(n), {"element.optional": True, "value is None": True}) and not ev.may_hold(facts_at(n), {"element.optional": False, "value is None": True})
             and not ev.may_hold(facts_at(n), {"element.optional": True, "value is None": False}) for n in conts)
    ctx.check("Sequence.encode:skip-absent-optional", ok, where(c.module, enc), "exactly the absent optional elements are skipped")
    raises = [r for r in walk_shallow(dec) if isinstance(r, ast.Raise) and "MissingRequiredParameter" in norm(r)]
    ok = any(ev.may_hold(facts_at(r), {"tag is None": True, "element.optional": False}) and not ev.may_hold(facts_at(r), {"tag is None": True, "element.optional": True}) for r in raises)
    ctx.check("Sequence.decode:missing-required", ok, where(c.module, dec), "end of data before a required element must be refused with MissingRequiredParameter")
    # Choice.encode: exactly one alternative is encoded (break after the first non-None) and none -> error
    c = prog.cls("constructeddata", "Choice")
    enc = c.methods["encode"]
    lp = [l for l in walk_shallow(enc) if isinstance(l, ast.For)][0]
    body_fn = ast.FunctionDef(name="_body", args=enc.args, body=lp.body, decorator_list=[], lineno=lp.lineno)
    from ..paths import _paths
    ok = True
    for evs, term in _paths(lp.body, 1, True):
        appended = [e for e in evs if e.kind == "stmt" and any(norm(x.func) == "taglist.append" or (isinstance(x.func, ast.Attribute) and x.func.attr == "encode" and norm(x.func.value) == "value") for x in calls_in(e.node))]
        if appended and term != "break":
            ok = False
    ctx.check("Choice.encode:one-alternative", ok and bool(lp.orelse) and isinstance(lp.orelse[-1], ast.Raise), where(c.module, enc), "after encoding one alternative the loop must stop; no alternative set must be an error")


@rule("C03.R9", "NameValue's hand-written decoder takes every value its encoder can emit: an application tag after the name is consumed and stored on every path, as a DateTime only when a Time follows a Date", floor=3,
      engines="E1 paths")
def r9(ctx):
    prog = ctx.prog
    c = prog.cls("basetypes", "NameValue")
    m = c.module
    d = c.methods.get("decode")
    if d is None:
        raise AnchorMissing("NameValue.decode")
    tl = d.args.args[1].arg
    evn = Evaluator(prog, m, c)
    n_val = n_dt = n_prim = 0
    ok = True
    why = ""
    for p_ in enumerate_paths(d):
        if p_.term == "raise":
            continue
        # `self.value is None` is decided by the last store on the path (None, or an object just constructed)
        isnone = None
        feas = True
        for e_ in p_.events:
            if e_.kind == "stmt" and isinstance(e_.node, ast.Assign) and any(norm(t) == "self.value" for t in e_.node.targets):
                v_ = e_.node.value
                isnone = True if (isinstance(v_, ast.Constant) and v_.value is None) else False if isinstance(v_, ast.Call) else None
            elif e_.kind == "cond" and norm(e_.node) in ("self.value is None", "self.value is not None") and isnone is not None:
                if (isnone == (norm(e_.node) == "self.value is None")) != e_.pol:
                    feas = False
        if not feas:
            continue
        conds = [(norm(t), pol) for t, pol in p_.conds()]
        present = any("applicationTagClass" in t and "next_tag" not in t and pol and "tag" in t for t, pol in conds)
        if not present:
            # no value: nothing may be consumed after the name
            pops = sum(1 for x in p_.calls() if norm(x.func) == "%s.Pop" % tl)
            ok = ok and pops == 1
            continue
        n_val += 1
        stores = [nd for nd in path_nodes(p_) if isinstance(nd, ast.Assign) and any(norm(t) == "self.value" for t in nd.targets)]
        last = stores[-1] if stores else None
        pops = sum(1 for x in p_.calls() if norm(x.func) == "%s.Pop" % tl)
        dt = any(norm(x.func) == "self.value.decode" for x in p_.calls())
        time_follows = any("timeAppTag" in t and pol for t, pol in conds) and any("dateAppTag" in t and pol for t, pol in conds)
        if dt:
            n_dt += 1
            good = time_follows and last is not None and norm(last.value) == "DateTime()" and pops == 1
        else:
            n_prim += 1
            good = last is not None and norm(last.value).endswith(".app_to_object()") and pops == 2
        if not good:
            ok = False
            why = p_.describe()[:200]
    ctx.check("NameValue.decode:value-always-taken", ok and n_dt >= 1 and n_prim >= 2, where(m, d),
              "a value tag that is present must be consumed and stored on every path (a Date not followed by a Time is a plain Date): %s" % why)
    e = c.methods.get("encode")
    calls = [norm(x.func) for x in calls_in(e)] if e else []
    ctx.check("NameValue.encode:name-then-value", e is not None and "self.value.encode" in calls and any(x.endswith("app_to_context") for x in calls), where(m, e or c.node), "the name goes out under context 0, then the value")
    ctx.check("NameValue.decode:name-first", any(norm(x.func).endswith("context_to_app") for x in calls_in(d)), where(m, d), "the name is read from context tag 0")


@rule("C03.R8", "class dispatch in the generic coders reaches the arm written for the class: an arm for a class is not shadowed by an earlier arm for one of its base classes", floor=3,
      engines="E0 MRO + if/elif chains")
def r8(ctx):
    prog = ctx.prog
    n = 0
    for modname in ("constructeddata",):
        m = prog.module(modname)
        for c in m.classes.values():
            for fname, f in sorted(c.methods.items()):
                if fname not in ("encode", "decode"):
                    continue            # the wire coders; dict_contents / cast_in have such dead arms too, with the same effect as the live ones
                for top in [x for x in ast.walk(f) if isinstance(x, ast.If) and not (isinstance(getattr(x, "_parent", None), ast.If) and getattr(x, "_parent").orelse == [x])]:
                    chain = []
                    node = top
                    while True:
                        chain.append(node)
                        if len(node.orelse) == 1 and isinstance(node.orelse[0], ast.If):
                            node = node.orelse[0]
                        else:
                            break
                    arms = []
                    for a in chain:
                        t = a.test
                        if isinstance(t, ast.Call) and norm(t.func) in ("issubclass", "isinstance") and len(t.args) == 2 and isinstance(t.args[1], (ast.Name, ast.Attribute)):
                            k = prog.resolve_class_expr(m, t.args[1])
                            if k is not None:
                                arms.append((norm(t.args[0]), k, a))
                    if len(arms) < 2:
                        continue
                    for i, (subj, k, a) in enumerate(arms):
                        first = next(j for j, (s2, k2, a2) in enumerate(arms) if s2 == subj and prog.is_subclass(k, k2.module.name, k2.name))
                        if first == i or arms[first][1] is k:
                            # reached (or a repetition of an arm for the same class further up, which is merely dead)
                            n += 1
                            ctx.check("%s.%s:arm[%s is a %s]@%d" % (c.name, fname, subj, k.name, i), True, where(m, a), "")
                        else:
                            n += 1
                            ctx.check("%s.%s:arm[%s is a %s]@%d" % (c.name, fname, subj, k.name, i), False, where(m, a),
                                      "the arm for %s can never be taken: %s is a subclass of %s, which an earlier arm of the same chain accepts - values of this class are handled by the wrong arm" % (k.name, k.name, arms[first][1].name))
    # every class the chains of Sequence.decode handle on the encode side has its arm on the decode side
    seq = prog.cls("constructeddata", "Sequence")
    def tested(f):
        return {norm(t.args[1]) for x in ast.walk(f) if isinstance(x, ast.If) for t in [x.test] if isinstance(t, ast.Call) and norm(t.func) == "issubclass" and len(t.args) == 2}
    enc_k, dec_k = tested(seq.methods["encode"]), tested(seq.methods["decode"])
    ctx.check("Sequence:same-classes-both-sides", "AnyAtomic" in dec_k and "Atomic" in dec_k and any("AnyAtomic" in k_ for k_ in enc_k), where(seq.module, seq.methods["decode"]),
              "decode must dispatch on every element class encode does (encode %s, decode %s)" % (sorted(enc_k), sorted(dec_k)))
    if n < 2:
        raise ShapeError("class dispatch chains not found")


@rule("C03.R6", "trailing data after the last parameter is refused", floor=2, engines="E1 paths")
def r6(ctx):
    prog = ctx.prog
    c = prog.cls("apdu", "APCISequence")
    f = c.methods.get("decode")
    if f is None:
        raise AnchorMissing("APCISequence.decode")
    ev = Evaluator(prog, c.module, c)
    n = 0
    for p in enumerate_paths(f):
        if p.term == "raise":
            continue
        n += 1
        ctx.check("APCISequence.decode:leftover-refused", not feasible(p, ev, {"self._tag_list": True}), where(c.module, f), "a path returns normally although tags are left over")
        nodes = path_nodes(p)
        calls = [norm(x.func) for x in nodes if isinstance(x, ast.Call)]
        ctx.check("APCISequence.decode:order", "self._tag_list.decode" in calls and "Sequence.decode" in calls and calls.index("self._tag_list.decode") < calls.index("Sequence.decode")
                  and "self.update" in calls, where(c.module, f), "header copy, tag decoding and sequence decoding must all happen, in that order")
    raises = [r for r in walk_shallow(f) if isinstance(r, ast.Raise)]
    ok = len(raises) == 1 and "TooManyArguments" in norm(raises[0]) and raises[0].lineno > max(x.lineno for x in calls_in(f) if norm(x.func) == "Sequence.decode")
    ctx.check("APCISequence.decode:TooManyArguments", ok, where(c.module, f), "leftover tags must raise TooManyArguments after the sequence was decoded")
    # the tag list passed to Sequence.decode is the one just decoded from the PDU
    sd = [x for x in calls_in(f) if norm(x.func) == "Sequence.decode"]
    ctx.check("APCISequence.decode:same-taglist", len(sd) == 1 and norm(sd[0].args[1]) == "self._tag_list", where(c.module, f), "the decoded tag list must be the one handed to the sequence decoder")
    # encode side: header first, then tags
    e = c.methods.get("encode")
    calls = [norm(x.func) for x in calls_in(e)]
    # each encode / decode works on a tag list of its own: Sequence.encode only appends, so a list that survives from an
    # earlier encode (or from the constructor) makes the second encoding of the same PDU carry its parameters twice
    for fn_, user in ((e, "Sequence.encode"), (f, "self._tag_list.decode")):
        okf = True
        npaths = 0
        for p_ in enumerate_paths(fn_):
            if p_.term == "raise" and not any(isinstance(x, ast.Call) and norm(x.func) == user for x in path_nodes(p_)):
                continue
            npaths += 1
            fresh = False
            for nd in path_nodes(p_):
                if isinstance(nd, ast.Assign) and any(norm(t) == "self._tag_list" for t in nd.targets):
                    fresh = isinstance(nd.value, ast.Call) and norm(nd.value.func) == "TagList" and not nd.value.args and not nd.value.keywords
                elif isinstance(nd, ast.Call) and norm(nd.func) == user:
                    okf = okf and fresh
                    break
        ctx.check("APCISequence.%s:fresh-tag-list" % fn_.name, okf and npaths >= 1, where(c.module, fn_), "%s must be given a tag list created in this very call" % user)
    ctx.check("APCISequence.encode:order", calls.count("Sequence.encode") == 1 and calls.count("self._tag_list.encode") == 1 and "apdu.update" in calls, where(c.module, e), "encode must copy the header, encode the sequence into a fresh tag list and emit it")


def current_wire(ctx):
    prog = ctx.prog
    T = _tables(ctx)
    out = {"pdus": {}, "enums": {}, "types": {}}
    for reg, fname in (("confirmed_request", "register_confirmed_request_type"), ("complex_ack", "register_complex_ack_type"), ("unconfirmed_request", "register_unconfirmed_request_type")):
        for k, text, st in T.registry_calls("apdu", fname):
            if k is None:
                continue
            sc = prog.class_attr(k, "serviceChoice")
            num = prog.try_const(sc[0].module, sc[1], sc[0]) if sc else None
            out["pdus"]["%s:%s" % (reg, num)] = T.signature(k)
    for key, k, st in T.dict_stores("apdu", "error_types"):
        if k is not None:
            out["pdus"]["error:%s" % key] = T.signature(k)
    for mn in ("primitivedata", "basetypes", "apdu"):
        for c in prog.module(mn).classes.values():
            if T.kind(c) == "atomic" and "enumerations" in c.attrs:
                d = prog.try_const(c.module, c.attrs["enumerations"], c)
                if isinstance(d, dict):
                    out["enums"][c.name] = d
    for c, k in all_table_classes(prog, T, modules=("basetypes", "apdu")):
        out["types"][c.name] = T.signature(c)
    return out


@rule("C03.R7", "wire signatures of the registered PDUs, of the constructed base types and the enumeration numbers have not drifted from the reviewed reference", floor=300, engines="E3 + spec/wire_reference.json")
def r7(ctx):
    if not os.path.exists(WIRE_REF):
        raise AnchorMissing("spec/wire_reference.json")
    with open(WIRE_REF) as f:
        ref = json.load(f)
    cur = current_wire(ctx)
    m = ctx.prog.module("apdu")
    for key, sig in sorted(ref["pdus"].items()):
        ctx.check("pdu[%s]" % key, cur["pdus"].get(key) == sig, m.relpath + ":1",
                  "wire signature changed: reference %s, now %s" % (sig[:200], (cur["pdus"].get(key) or "missing")[:200]))
    for name, sig in sorted(ref["types"].items()):
        if name not in cur["types"]:
            ctx.bad("type[%s]" % name, "py34/bacpypes/basetypes.py:1", "constructed type vanished (renamed types are matched by signature elsewhere)") if False else None
            continue
        ctx.check("type[%s]" % name, cur["types"][name] == sig, "py34/bacpypes/basetypes.py:1", "wire signature changed: reference %s, now %s" % (sig[:200], cur["types"][name][:200]))
    for name, d in sorted(ref["enums"].items()):
        now = cur["enums"].get(name)
        if now is None:
            continue
        changed = {k: (v, now.get(k)) for k, v in d.items() if k in now and now[k] != v}
        ctx.check("enum[%s]" % name, not changed, "py34/bacpypes/basetypes.py:1", "enumeration numbers changed (name: reference, now): %r" % (dict(list(changed.items())[:3]),))
        gone = [k for k in d if k not in now]
        ctx.check("enum[%s]:names-kept" % name, not gone, "py34/bacpypes/basetypes.py:1", "enumeration names removed: %r" % gone[:3])


@rule("C03.R10", "every element of a list is encoded into a tag of its own: the tag appended in one pass of a list encoder is created in that pass", floor=3, engines="E1 loops")
def r10(ctx):
    prog = ctx.prog
    m = prog.module("constructeddata")
    n = 0
    for fn in [x for x in ast.walk(m.tree) if isinstance(x, ast.FunctionDef) and x.name == "encode"]:
        for ap in [x for x in ast.walk(fn) if isinstance(x, ast.Call) and isinstance(x.func, ast.Attribute) and x.func.attr == "append" and len(x.args) == 1 and isinstance(x.args[0], ast.Name)]:
            loops = enclosing_loops(ap)
            if not loops:
                continue
            nm = ap.args[0].id
            makers = [s_ for s_ in ast.walk(fn) if isinstance(s_, ast.Assign) and any(isinstance(t_, ast.Name) and t_.id == nm for t_ in s_.targets)
                      and isinstance(s_.value, ast.Call) and norm(s_.value.func) == "Tag" and not s_.value.args]
            if not makers:
                continue
            n += 1
            inner = loops[0]
            inside = [s_ for s_ in makers if any(s_ is y for b_ in inner.body for y in ast.walk(b_))]
            ctx.check("%s:own-tag-per-element@%d" % (qualname(fn), n), bool(inside), where(m, ap),
                      "the tag appended for each element is created once outside the loop: every pass re-fills and appends the same Tag object, so all elements come out as the last one")
    if n < 3:
        raise ShapeError("list encoders: only %d tag appends in loops found" % n)
