"""C14 - scheduled work: heap ownership, key shape, flag pairing, re-install
moves, never early, once per installation, isolation of deferred calls, FIFO."""
import ast

from ..report import rule
from ..model import norm, NotConst, calls_in, stores_in, ShapeError, AnchorMissing, is_self_attr
from ..paths import enumerate_paths, facts_at, walk_shallow, enclosing_stmt, always_leaves, enclosing_loops
from ..guards import Evaluator, atom_texts, atoms_of_facts, conjuncts
from .common import where, self_call, feasible, path_nodes, same_function, grid, subst_locals

HEAP_FUNCS = ("heappush", "heappop", "heapify")


def _tm(ctx):
    c = ctx.prog.cls("task", "TaskManager")
    return c


@rule("C14.R1", "the task heap is only modified by TaskManager through heap operations (delete is followed by heapify on every path)", floor=4, engines="E0 who-may-write + E1 paths")
def r1(ctx):
    prog = ctx.prog
    tm = _tm(ctx)
    n = 0
    for m, c, fn in prog.all_functions():
        if m.name.startswith(("bsll", "console", "tcp", "udp")):
            continue
        for node in walk_shallow(fn):
            # stores / deletes / mutating calls on <x>.tasks
            tgt = None
            if isinstance(node, (ast.Assign, ast.AugAssign, ast.Delete)):
                for t, _ in stores_in(node):
                    base = t.value if isinstance(t, ast.Subscript) else t
                    if isinstance(base, ast.Attribute) and base.attr == "tasks" and (is_self_attr(base) or norm(base.value) in ("_task_manager", "taskManager")):
                        tgt = t
            elif isinstance(node, ast.Call):
                f = node.func
                if isinstance(f, ast.Attribute) and isinstance(f.value, ast.Attribute) and f.value.attr == "tasks" and f.attr in ("append", "insert", "remove", "pop", "sort", "clear", "extend", "reverse") \
                        and (is_self_attr(f.value) or norm(f.value.value) in ("_task_manager", "taskManager")):
                    tgt = f
                if isinstance(f, ast.Name) and f.id in HEAP_FUNCS and node.args and isinstance(node.args[0], ast.Attribute) and node.args[0].attr == "tasks":
                    n += 1
                    ctx.check("%s.%s:%s" % (c.name if c else m.name, fn.name, f.id), c is tm, where(m, node), "only TaskManager may operate on the task heap")
            if tgt is None:
                continue
            if c is not None and c is not tm and not (tm in prog.mro(c)):
                # another class's own attribute called tasks?
                if is_self_attr(tgt.value if isinstance(tgt, ast.Subscript) else (tgt.value if isinstance(tgt, ast.Attribute) and tgt.attr != "tasks" else tgt)):
                    owner_has = any("tasks" == t.attr for f2 in c.methods.values() for t, _ in stores_in(f2) if isinstance(t, ast.Attribute) and is_self_attr(t))
                    if owner_has:
                        continue
            n += 1
            q = "%s.%s" % (c.name, fn.name) if c else fn.name
            if c is tm and fn.name == "__init__" and isinstance(node, ast.Assign) and isinstance(node.value, ast.List) and not node.value.elts:
                ctx.ok("%s:init-empty" % q, where(m, node))
                continue
            if c is tm and isinstance(node, ast.Delete):
                # every path from the delete to the exit passes heapify
                okp = True
                for p in enumerate_paths(fn):
                    nodes = path_nodes(p)
                    if node in nodes:
                        i = nodes.index(node)
                        if not any(isinstance(x, ast.Call) and norm(x.func) == "heapify" and norm(x.args[0]) == "self.tasks" for x in nodes[i + 1:]):
                            okp = False
                ctx.check("%s:del-then-heapify" % q, okp, where(m, node), "an element is deleted from the middle of the heap without re-establishing the heap invariant on every path")
                continue
            ctx.bad("%s:raw-write(%s)" % (q, norm(node)[:50]), where(m, node), "the task heap is modified other than by heappush/heappop/del+heapify inside TaskManager")
    ctx.count("heap_sites", n)


@rule("C14.R2", "heap entries are (due time, monotone counter, task): due-time order with FIFO among equals", floor=3, engines="E0")
def r2(ctx):
    prog = ctx.prog
    tm = _tm(ctx)
    f = tm.methods.get("install_task")
    if f is None:
        raise AnchorMissing("TaskManager.install_task")
    task = f.args.args[1].arg
    pushes = [x for x in calls_in(f) if norm(x.func) == "heappush"]
    ok = len(pushes) == 1 and len(pushes[0].args) == 2 and isinstance(pushes[0].args[1], ast.Tuple) and len(pushes[0].args[1].elts) == 3
    if ok:
        e = pushes[0].args[1].elts
        ok = norm(e[0]) == "%s.taskTime" % task and norm(e[1]) == "next(self.counter)" and norm(e[2]) == task
    ctx.check("TaskManager.install_task:key", ok, where(tm.module, f), "the heap entry must be (task.taskTime, next(self.counter), task)")
    init = tm.methods["__init__"]
    st = [s for t, s in stores_in(init) if is_self_attr(t, "counter")]
    ok = len(st) == 1 and norm(st[0].value) in ("itertools.count()", "count()")
    others = [s for mname, fn in tm.methods.items() if mname != "__init__" for t, s in stores_in(fn) if is_self_attr(t, "counter")]
    ctx.check("TaskManager.__init__:counter", ok and not others, where(tm.module, init), "the tie-breaker must be one itertools.count() created once and never reset")
    # readers unpack three fields and take the task from the third
    g = tm.methods.get("get_next_task")
    if g is None:
        raise AnchorMissing("TaskManager.get_next_task")
    un = [s for s in walk_shallow(g) if isinstance(s, ast.Assign) and isinstance(s.targets[0], ast.Tuple) and norm(s.value) == "self.tasks[0]"]
    ok = len(un) >= 1 and all(len(s.targets[0].elts) == 3 for s in un)
    ctx.check("TaskManager.get_next_task:unpack", ok, where(tm.module, g), "the head of the heap must be read as (when, n, task)")


@rule("C14.R3", "isScheduled is true exactly while the task is in the heap", floor=4, engines="E1 paths")
def r3(ctx):
    prog = ctx.prog
    tm = _tm(ctx)
    m = tm.module
    sites = []
    for name, f in tm.methods.items():
        for t, s in stores_in(f):
            if isinstance(t, ast.Attribute) and t.attr == "isScheduled":
                sites.append((name, f, s))
    for name, f, s in sites:
        v = prog.try_const(m, s.value, default="?") if isinstance(s, ast.Assign) else "?"
        blk_nodes = None
        okp = True
        for p in enumerate_paths(f):
            nodes = path_nodes(p)
            if s not in nodes:
                continue
            i = nodes.index(s)
            if v is True:
                okp = okp and any(isinstance(x, ast.Call) and norm(x.func) == "heappush" for x in nodes[:i])
            elif v is False:
                okp = okp and any((isinstance(x, ast.Call) and norm(x.func) == "heappop") or (isinstance(x, ast.Delete) and "self.tasks" in norm(x)) for x in nodes[:i])
            else:
                okp = False
        ctx.check("TaskManager.%s:isScheduled=%s" % (name, v), okp, where(m, s), "isScheduled must be set True only after the push and False only after the pop/delete")
    # converse: every push / pop / del is followed by the flag update on that path
    for name in ("install_task", "suspend_task", "get_next_task"):
        f = tm.methods.get(name)
        if f is None:
            raise AnchorMissing("TaskManager.%s" % name)
        for p in enumerate_paths(f):
            if p.term == "raise":
                continue
            nodes = path_nodes(p)
            for i, x in enumerate(nodes):
                want = None
                if isinstance(x, ast.Call) and norm(x.func) == "heappush":
                    want = True
                elif (isinstance(x, ast.Call) and norm(x.func) == "heappop") or (isinstance(x, ast.Delete) and "self.tasks" in norm(x)):
                    want = False
                if want is None:
                    continue
                ok = any(isinstance(y, ast.Assign) and isinstance(y.targets[0], ast.Attribute) and y.targets[0].attr == "isScheduled" and prog.try_const(m, y.value, default="?") is want for y in nodes[i + 1:])
                ctx.check("TaskManager.%s:flag-after-%s" % (name, "push" if want else "removal"), ok, where(m, x), "heap membership changed without updating isScheduled to %s" % want)
    # nobody else writes the flag except _Task.__init__
    for mod, c, fn in prog.all_functions():
        if mod.name.startswith(("bsll", "console", "tcp", "udp")) or c is tm:
            continue
        for t, s in stores_in(fn):
            if isinstance(t, ast.Attribute) and t.attr == "isScheduled":
                ok = c is not None and c.name == "_Task" and fn.name == "__init__"
                ctx.check("%s.%s:writes-isScheduled" % (c.name if c else mod.name, fn.name), ok, where(mod, s), "isScheduled may only be written by TaskManager (and initialised by _Task.__init__)")


@rule("C14.R4", "re-installing a pending task moves it (suspend before push); suspend removes the entry of exactly that task", floor=3, engines="E1 facts")
def r4(ctx):
    prog = ctx.prog
    tm = _tm(ctx)
    f = tm.methods["install_task"]
    ev = Evaluator(prog, tm.module, tm)
    task = f.args.args[1].arg
    for p in enumerate_paths(f):
        if p.term == "raise":
            continue
        nodes = path_nodes(p)
        push = [i for i, x in enumerate(nodes) if isinstance(x, ast.Call) and norm(x.func) == "heappush"]
        susp = [i for i, x in enumerate(nodes) if isinstance(x, ast.Call) and self_call(x) == "suspend_task" and x.args and norm(x.args[0]) == task]
        ctx.check("TaskManager.install_task:pushes-once", len(push) == 1, where(tm.module, f), "every successful install must push exactly one heap entry")
        if feasible(p, ev, {"%s.isScheduled" % task: True, "%s.taskTime" % task: 1.0}):
            ctx.check("TaskManager.install_task:moves", len(susp) == 1 and push and susp[0] < push[0], where(tm.module, f),
                      "a task that is already scheduled must be removed before it is pushed again (otherwise it fires twice)")
    raises = [r for r in walk_shallow(f) if isinstance(r, ast.Raise)]
    ok = any(("%s.taskTime is None" % task, True) in atom_texts(facts_at(r)) for r in raises)
    ctx.check("TaskManager.install_task:needs-time", ok, where(tm.module, f), "a task without a due time must be refused")
    s = tm.methods["suspend_task"]
    task = s.args.args[1].arg
    dels = [x for x in walk_shallow(s) if isinstance(x, ast.Delete)]
    ok = len(dels) == 1
    if ok:
        at = atoms_of_facts(facts_at(dels[0]))
        ok = any(isinstance(a, ast.Compare) and isinstance(a.ops[0], ast.Is) and p and task in (norm(a.left), norm(a.comparators[0])) for a, p in at)
        loops = enclosing_loops(dels[0])
        ok = ok and len(loops) == 1 and norm(loops[0].iter) in ("enumerate(self.tasks)", "range(len(self.tasks))")
        if ok:
            if norm(loops[0].iter).startswith("enumerate"):
                idx = loops[0].target.elts[0].id
                entry = loops[0].target.elts[1]
            else:
                # by index: the entry compared must be self.tasks[i] of the same i
                idx = loops[0].target.id
                un = [s_ for s_ in loops[0].body if isinstance(s_, ast.Assign) and norm(s_.value) == "self.tasks[%s]" % idx]
                entry = un[0].targets[0] if len(un) == 1 else None
            cmp_names = {norm(a.left) for a, p in at if isinstance(a, ast.Compare) and isinstance(a.ops[0], ast.Is) and p} | {norm(a.comparators[0]) for a, p in at if isinstance(a, ast.Compare) and isinstance(a.ops[0], ast.Is) and p}
            third = norm(entry.elts[2]) if isinstance(entry, ast.Tuple) and len(entry.elts) == 3 else None
            ok = norm(dels[0].targets[0]) == "self.tasks[%s]" % idx and (third in cmp_names or "self.tasks[%s][2]" % idx in cmp_names)
            brk = [b for b in ast.walk(loops[0]) if isinstance(b, ast.Break)]
            ok = ok and len(brk) == 1 and getattr(brk[0], "_parent", None) is getattr(dels[0], "_parent", None)
    ctx.check("TaskManager.suspend_task:removes-that-task", ok, where(tm.module, s), "suspend must delete the heap entry whose task *is* the given one, then stop scanning")
    # _Task.suspend_task / install_task delegate
    t = prog.cls("task", "_Task")
    for name in ("suspend_task", "install_task"):
        fn = t.methods.get(name)
        if fn is None:
            raise AnchorMissing("_Task.%s" % name)
        cs = [x for x in calls_in(fn) if norm(x.func) == "_task_manager.%s" % name and len(x.args) == 1 and norm(x.args[0]) == "self"]
        ctx.check("_Task.%s:delegates" % name, len(cs) == 1, where(t.module, fn), "the task must register/unregister itself with the task manager")
    fn = t.methods["install_task"]
    evt = Evaluator(prog, t.module, t)
    st = [s_ for tt, s_ in stores_in(fn) if isinstance(tt, ast.Name) and tt.id == "when" and isinstance(s_, ast.Assign) and "delta" in norm(s_.value)]
    ok = len(st) == 1
    if ok:
        ok, cx = same_function(evt, st[0].value, grid(**{"_task_manager.get_time()": [0.0, 10.5], "delta": [0, 1.5, 3]}), lambda e: e["_task_manager.get_time()"] + e["delta"])
    ctx.check("_Task.install_task:delta", ok, where(t.module, fn), "install_task(delta=d) must schedule at now + d")


@rule("C14.R5", "a task is popped only when its due time has been reached", floor=2, engines="E5")
def r5(ctx):
    prog = ctx.prog
    tm = _tm(ctx)
    g = tm.methods["get_next_task"]
    ev = Evaluator(prog, tm.module, tm)
    pops = [x for x in calls_in(g) if norm(x.func) == "heappop"]
    if len(pops) != 1:
        raise ShapeError("get_next_task: one heappop expected")
    fa = facts_at(pops[0])
    G = (1, 1.001, 1.5, 2, 3)
    reach = sorted({(w, n) for w in G for n in G if ev.may_hold(fa, {"when": w, "now": n, "self.tasks": True})})
    ctx.check("TaskManager.get_next_task:not-early", reach == [(w, n) for w in G for n in G if w <= n], where(tm.module, pops[0]),
              "the head may be popped exactly when when <= now ((when, now) pairs reaching the pop: %r)" % reach)
    ctx.check("TaskManager.get_next_task:empty", not ev.may_hold(fa, {"self.tasks": False}), where(tm.module, pops[0]), "pop on an empty heap")
    # walk every path: the due time tested before the pop is the head's, the task handed out is the popped head, and a
    # waiting time is (non-negatively clipped after a pop) `due time of the current head - now`
    from .common import consistent
    bad_head, bad_ret, bad_delta = [], [], []
    npath = 0
    for p_ in enumerate_paths(g):
        if p_.term != "return" or not consistent(p_.conds()):
            continue
        npath += 1
        head = None            # (name of due time, name of task) unpacked from self.tasks[0] most recently
        popped = None          # name holding the popped task
        alias = {}             # local -> local it was copied from
        conds = []
        repeek = False

        def root(nm):
            seen = set()
            while nm in alias and nm not in seen:
                seen.add(nm)
                nm = alias[nm]
            return nm
        for e in p_.events:
            if e.kind == "cond":
                conds.append((e.node, e.pol))
            nodes_ = [e.node] if e.kind in ("stmt", "return") else []
            for n_ in nodes_:
                if isinstance(n_, ast.Assign) and isinstance(n_.targets[0], ast.Tuple) and norm(n_.value) == "self.tasks[0]" and len(n_.targets[0].elts) == 3:
                    head = (norm(n_.targets[0].elts[0]), norm(n_.targets[0].elts[2]))
                    if popped is not None:
                        repeek = True
                elif isinstance(n_, ast.Assign) and isinstance(n_.targets[0], ast.Name) and isinstance(n_.value, ast.Name):
                    alias[n_.targets[0].id] = n_.value.id
                elif isinstance(n_, ast.Assign) and isinstance(n_.targets[0], ast.Name):
                    alias.pop(n_.targets[0].id, None)
                if any(isinstance(x, ast.Call) and norm(x.func) == "heappop" for x in ast.walk(n_)):
                    # the guard that let us get here compares the head's due time with now
                    okg = False
                    if head is not None:
                        for t_, pol_ in conds:
                            for a_, ap_ in conjuncts(t_, pol_):
                                tx = norm(a_)
                                if ap_ and tx in ("%s <= now" % head[0], "now >= %s" % head[0]) or (not ap_ and tx in ("%s > now" % head[0], "now < %s" % head[0])):
                                    okg = True
                    if not okg:
                        bad_head.append(p_.describe()[:120])
                    popped = head[1] if head is not None else "?"
                    # the popped entry itself may be unpacked: heappop returns the head, its third field is the task
                    if isinstance(n_, ast.Assign) and isinstance(n_.targets[0], ast.Tuple) and len(n_.targets[0].elts) == 3 and norm(n_.value) == "heappop(self.tasks)":
                        popped = norm(n_.targets[0].elts[2])
                if e.kind == "return" and isinstance(n_, ast.Return):
                    rv = n_.value
                    elts = rv.elts if isinstance(rv, ast.Tuple) and len(rv.elts) == 2 else None
                    if elts is None:
                        bad_ret.append("return shape " + norm(rv) if rv is not None else "None")
                        continue
                    tsk = elts[0]
                    tname = root(tsk.id) if isinstance(tsk, ast.Name) else None
                    is_none = (isinstance(tsk, ast.Constant) and tsk.value is None) or (isinstance(tsk, ast.Name) and prog.try_const(tm.module, _last_const(p_, tsk.id), default=0) is None and tname == tsk.id and tsk.id not in (popped,))
                    if popped is not None:
                        if tname != popped:
                            bad_ret.append("popped %s, returns %s" % (popped, norm(tsk)))
                    elif not is_none:
                        bad_ret.append("nothing popped, returns %s" % norm(tsk))
                    dl = elts[1]
                    dn = _sym_local(p_, dl)
                    if not (isinstance(dn, ast.Constant) and dn.value is None):
                        want = head[0] if head is not None else "?"
                        tx = norm(dn)
                        okd = tx in ("%s - now" % want, "max(%s - now, 0.0)" % want, "max(0.0, %s - now)" % want, "max(%s - now, 0)" % want)
                        if popped is not None and not repeek:
                            okd = False      # after a pop the waiting time must come from the new head
                        if popped is not None and tx == "%s - now" % want:
                            okd = False      # the next task may already be overdue: never a negative wait
                        if not okd:
                            bad_delta.append("%s (head due time %s%s)" % (tx, want, ", after a pop" if popped else ""))
    ctx.check("TaskManager.get_next_task:head", not bad_head and npath > 0, where(tm.module, g), "`when` compared before the pop must be the due time of the current heap head: %s" % bad_head[:2])
    ctx.check("TaskManager.get_next_task:returns-head", not bad_ret, where(tm.module, g), "the task handed out must be the popped head (and none when nothing was popped): %s" % bad_ret[:3])
    ctx.check("TaskManager.get_next_task:delta", not bad_delta, where(tm.module, g), "time to the next task must be computed from the heap head: %s" % bad_delta[:3])
    ctx.count("paths", npath)


def _last_const(path, name):
    """the expression last assigned to a local on the path (for `task = None` initialisations)"""
    last = ast.Name(id=name, ctx=ast.Load())
    for e in path.events:
        if e.kind == "stmt" and isinstance(e.node, ast.Assign) and len(e.node.targets) == 1 and isinstance(e.node.targets[0], ast.Name) and e.node.targets[0].id == name:
            last = e.node.value
    return last


def _sym_local(path, expr):
    """expr with a plain local replaced by what was last assigned to it on the path"""
    if isinstance(expr, ast.Name):
        return _last_const(path, expr.id)
    return expr


@rule("C14.R6", "a task runs once per installation; only recurring tasks are re-installed, with a positive interval", floor=4, engines="E1 + E5")
def r6(ctx):
    prog = ctx.prog
    tm = _tm(ctx)
    f = tm.methods.get("process_task")
    if f is None:
        raise AnchorMissing("TaskManager.process_task")
    task = f.args.args[1].arg
    ev = Evaluator(prog, tm.module, tm)
    runs = [x for x in calls_in(f) if norm(x.func) == "%s.process_task" % task]
    ctx.check("TaskManager.process_task:runs-once", len(runs) == 1 and not facts_at(runs[0]), where(tm.module, f), "the task body must be run exactly once, unconditionally")
    re = [x for x in calls_in(f) if norm(x.func) == "%s.install_task" % task]
    ok = len(re) == 1
    if ok:
        fa = facts_at(re[0])
        ok = ev.may_hold(fa, {"isinstance:%s" % task: "RecurringTask"}) and not ev.may_hold(fa, {"isinstance:%s" % task: "OneShotTask"}) and not ev.may_hold(fa, {"isinstance:%s" % task: "OneShotDeleteTask"})
        ok = ok and runs and re[0].lineno > runs[0].lineno
    ctx.check("TaskManager.process_task:reinstall-recurring-only", ok, where(tm.module, f), "only RecurringTask instances may be re-installed after they ran, and only after")
    rt = prog.cls("task", "RecurringTask")
    g = rt.methods.get("install_task")
    if g is None:
        raise AnchorMissing("RecurringTask.install_task")
    evr = Evaluator(prog, rt.module, rt)
    inst = [x for x in calls_in(g) if norm(x.func) == "_task_manager.install_task"]
    ok = len(inst) == 1
    if ok:
        fa = facts_at(inst[0])
        reach = [v for v in (-1.0, 0.0, 0.5, 1000.0) if evr.may_hold(fa, {"self.taskInterval": v, "_task_manager": True})]
        ok = reach == [0.5, 1000.0] and not evr.may_hold(fa, {"self.taskInterval": None, "_task_manager": True})
    ctx.check("RecurringTask.install_task:positive-interval", ok, where(rt.module, g), "a recurring task with a missing, zero or negative interval must be refused (it would re-fire for ever at the same instant)")
    # explicit interval / offset arguments replace the stored ones for every value that is not None (0 is a value)
    for prm, fld in (("interval", "taskInterval"), ("offset", "taskIntervalOffset")):
        sts = [s_ for t, s_ in stores_in(g) if is_self_attr(t, fld) and isinstance(s_, ast.Assign) and norm(s_.value) == prm]
        okp = len(sts) == 1
        if okp:
            fa = facts_at(sts[0])
            reach = [repr(v) for v in (None, 0, 0.0, 250, 1000.0) if evr.may_hold(fa, {prm: v}) and (v is None or evr.must_hold(fa, {prm: v}))]
            okp = reach == [repr(v) for v in (0, 0.0, 250, 1000.0)]
        ctx.check("RecurringTask.install_task:%s-argument" % prm, okp, where(rt.module, g),
                  "install_task(%s=v) must store v for every v that is not None, including 0 (values stored: %s)" % (prm, reach if sts else "never stored"))
    # next slot is strictly after now: formula shape (values are floating point: declined) -- structural part: taskTime is assigned before install
    st = [s for t, s in stores_in(g) if is_self_attr(t, "taskTime")]
    ok = len(st) == 1 and inst and st[0].lineno < inst[0].lineno
    if ok:
        from fractions import Fraction as F
        from .common import symbolic_value_on_path
        okv = True
        cx = None
        npaths = 0
        for p in enumerate_paths(g):
            if st[0] not in path_nodes(p):
                continue
            e = _fracify(symbolic_value_on_path(p, st[0]))
            for now in (F(0), F(1, 3), F(5), F(7, 2), F(10)):
                for iv in (F(1000), F(2500), F(500)):
                    for off in (None, F(0), F(250)):
                        env = {"_task_manager.get_time()": now, "self.taskInterval": iv, "self.taskIntervalOffset": off, "_task_manager": True,
                               "interval": None, "offset": None}
                        if not feasible(p, evr, env):
                            continue
                        npaths += 1
                        env.pop("interval")
                        env.pop("offset")
                        try:
                            v = evr.value(e, env)
                        except Exception as ex:
                            okv = False
                            cx = (str(ex), norm(e))
                            continue
                        i = iv / 1000
                        o = F(off or 0) / 1000
                        if not (v > now and v - now <= i + F(1, 1000) and ((v - o) / i).denominator == 1):
                            okv = False
                            cx = (str(v), {k: str(x) for k, x in env.items()})
        ok = okv and npaths > 0
        ctx.check("RecurringTask.install_task:next-slot", ok, where(rt.module, st[0]),
                  "the next firing must be the first multiple of the interval (plus offset) strictly after now (exact-arithmetic counterexample %r)" % (cx,))
    else:
        ctx.bad("RecurringTask.install_task:next-slot", where(rt.module, g), "taskTime must be computed before the task is installed")


def _fracify(e):
    """replace float literals by exact fractions so that the formula is evaluated exactly"""
    from fractions import Fraction
    from .common import clone

    class T(ast.NodeTransformer):
        def visit_Constant(self, node):
            if isinstance(node.value, float):
                return ast.copy_location(ast.Constant(Fraction(str(node.value))), node)
            return node
    return T().visit(clone(e))


def deferred_isolation(ctx, prop):
    prog = ctx.prog
    m = prog.module("core")
    for fname in ("run", "run_once"):
        f = m.functions.get(fname)
        if f is None:
            raise AnchorMissing("core.%s" % fname)
        # the per-item call fn(*args, **kwargs) inside a for over the detached list
        calls = [x for x in calls_in(f) if isinstance(x.func, ast.Name) and any(isinstance(a, ast.Starred) for a in x.args)
                 and any(isinstance(l, ast.For) and x.func.id in {n.id for n in ast.walk(l.target) if isinstance(n, ast.Name)} for l in enclosing_loops(x))]
        if len(calls) != 1:
            raise ShapeError("core.%s: the deferred call site was not found" % fname)
        call = calls[0]
        loop = [l for l in enclosing_loops(call) if isinstance(l, ast.For)][0]
        # is there a try between the call and the for loop (per-item protection)?
        p = getattr(call, "_parent", None)
        protected = False
        while p is not None and p is not loop:
            if isinstance(p, ast.Try) and any(h.type is None or norm(h.type) in ("Exception", "BaseException") for h in p.handlers):
                # handler must not leave the loop
                if not any(isinstance(x, (ast.Break, ast.Return, ast.Raise)) for h in p.handlers for x in ast.walk(h)):
                    protected = True
            p = getattr(p, "_parent", None)
        if not protected:
            # alternative: the remainder is re-queued before propagation (try/finally or except that re-queues)
            p = getattr(loop, "_parent", None)
            while p is not None and not isinstance(p, ast.FunctionDef):
                if isinstance(p, ast.Try):
                    for h in list(p.handlers) + ([p] if p.finalbody else []):
                        body = h.body if isinstance(h, ast.ExceptHandler) else h.finalbody
                        for st in body:
                            for t, s in stores_in(st):
                                if norm(t) == "deferredFns" and norm(loop.iter) in norm(s):
                                    protected = True
                            for c2 in calls_in(st):
                                if norm(c2.func) in ("deferredFns.extend", "deferredFns[:0]") or (norm(c2.func) == "deferredFns.extend"):
                                    protected = True
                p = getattr(p, "_parent", None)
        ctx.check("core.%s:per-call-isolation" % fname, protected, where(m, call),
                  "the drained batch is called inside one try around the whole loop and the list is already detached: an exception in one deferred function silently drops every function queued behind it")


@rule("C14.R7", "an exception in one deferred function or task does not prevent the others that are queued from running", floor=3, engines="E1")
def r7(ctx):
    deferred_isolation(ctx, "C14")
    # a failing task must not kill the loop: process_task is inside a try with a catch-all in run()
    m = ctx.prog.module("core")
    for fname in ("run", "run_once"):
        f = m.functions[fname]
        pt = [x for x in calls_in(f) if norm(x.func) == "taskManager.process_task"]
        ok = len(pt) == 1
        if ok:
            p = getattr(pt[0], "_parent", None)
            ok = False
            while p is not None and p is not f:
                if isinstance(p, ast.Try) and any(h.type is not None and norm(h.type) == "Exception" for h in p.handlers):
                    ok = True
                p = getattr(p, "_parent", None)
        ctx.check("core.%s:task-failure-contained" % fname, ok, where(m, f), "an exception raised by a task must be caught by the loop")
    f = m.functions["run"]
    # the catch-all in run() must be inside the while loop (so that the loop goes on)
    ok = False
    for t in [x for x in walk_shallow(f) if isinstance(x, ast.Try)]:
        if any(h.type is not None and norm(h.type) == "Exception" for h in t.handlers) and any(isinstance(l, ast.While) for l in enclosing_loops(t)):
            ok = True
    ctx.check("core.run:loop-survives", ok, where(m, f), "the catch-all must be inside the main loop")
    if handler_loggers_exist(ctx, "core") < 2:
        raise ShapeError("core: the handlers of the main loop log nothing")


def handler_loggers_exist(ctx, modname):
    """a handler that contains a failure must not fail itself: in the unstripped source, every `X._exception(..)` /
    `X._error(..)` .. inside an except handler names a function or class of the module that the debugging decorator
    gives those attributes to (an undecorated helper raises AttributeError right inside the handler)"""
    m = ctx.prog.module(modname)
    tree = m.raw_tree
    decorated = set()
    for n in ast.walk(tree):
        if isinstance(n, (ast.FunctionDef, ast.ClassDef)):
            if any(norm(d) in ("bacpypes_debugging", "debugging.bacpypes_debugging") or (isinstance(d, ast.Call) and norm(d.func) == "bacpypes_debugging") for d in n.decorator_list) \
                    or (isinstance(n, ast.ClassDef) and any(norm(b) in ("Logging", "DebugContents", "SingletonLogging") for b in n.bases)):
                decorated.add(n.name)
        elif isinstance(n, ast.Call) and norm(n.func) == "bacpypes_debugging" and n.args and isinstance(n.args[0], ast.Name):
            decorated.add(n.args[0].id)
    n_calls = 0
    for h in [x for x in ast.walk(tree) if isinstance(x, ast.ExceptHandler)]:
        for c in [x for st in h.body for x in ast.walk(st) if isinstance(x, ast.Call)]:
            f = c.func
            if isinstance(f, ast.Attribute) and f.attr in ("_debug", "_info", "_warning", "_error", "_exception", "_critical") and isinstance(f.value, ast.Name):
                n_calls += 1
                okl = f.value.id in decorated
                if not okl:
                    # a parameter that every caller binds to a decorated function (a helper told whose logger to use)
                    fn_ = c
                    while fn_ is not None and not isinstance(fn_, ast.FunctionDef):
                        fn_ = getattr(fn_, "_parent", None)
                    if fn_ is not None and f.value.id in [a_.arg for a_ in fn_.args.args]:
                        pos = [a_.arg for a_ in fn_.args.args].index(f.value.id)
                        sites = [x for x in ast.walk(tree) if isinstance(x, ast.Call) and isinstance(x.func, ast.Name) and x.func.id == fn_.name]
                        okl = bool(sites) and all(len(x.args) > pos and isinstance(x.args[pos], ast.Name) and x.args[pos].id in decorated for x in sites)
                ctx.check("%s:handler-logger[%s.%s@%d]" % (modname, f.value.id, f.attr, n_calls), okl, where(m, c),
                          "the handler logs through %s.%s, but %s is not decorated with bacpypes_debugging: the handler raises AttributeError instead of containing the failure" % (f.value.id, f.attr, f.value.id))
    return n_calls


@rule("C14.R8", "deferred functions are called in submission order, each batch detached before its first call", floor=4, engines="E1")
def r8(ctx):
    prog = ctx.prog
    m = prog.module("core")
    d = m.functions.get("deferred")
    if d is None:
        raise AnchorMissing("core.deferred")
    aps = [x for x in calls_in(d) if norm(x.func) == "deferredFns.append"]
    ok = len(aps) == 1 and not facts_at(aps[0]) and isinstance(aps[0].args[0], ast.Tuple) and [norm(e) for e in aps[0].args[0].elts] == [d.args.args[0].arg, d.args.vararg.arg, d.args.kwarg.arg]
    ctx.check("core.deferred:appends", ok, where(m, d), "deferred() must append (fn, args, kwargs) to the end of the queue, unconditionally")
    for fname in ("run", "run_once"):
        f = m.functions[fname]
        loops = [l for l in walk_shallow(f) if isinstance(l, ast.For) and isinstance(l.target, ast.Tuple) and len(l.target.elts) == 3]
        if len(loops) != 1:
            raise ShapeError("core.%s: drain loop not found" % fname)
        lp = loops[0]
        lst = norm(lp.iter)
        from ..paths import statements_before
        wl0 = [l for l in enclosing_loops(lp) if isinstance(l, ast.While)]
        before = [s for s in statements_before(lp, f) if not wl0 or (s.lineno > wl0[0].lineno)]
        det = [s for s in before if isinstance(s, ast.Assign) and norm(s.targets[0]) == lst and norm(s.value) == "deferredFns"]
        fresh = [s for s in before if isinstance(s, ast.Assign) and norm(s.targets[0]) == "deferredFns" and isinstance(s.value, ast.List) and not s.value.elts]
        ctx.check("core.%s:detach-before-calls" % fname, len(det) == 1 and len(fresh) == 1 and det[0].lineno < fresh[0].lineno, where(m, lp),
                  "the batch must be detached (fnlist = deferredFns; deferredFns = []) before the first call, so that functions deferred during the batch run in the next one")
        ctx.check("core.%s:in-order" % fname, isinstance(lp.iter, ast.Name), where(m, lp), "the batch must be iterated in list order (found %s)" % lst)
        wl = [l for l in enclosing_loops(lp) if isinstance(l, ast.While) and norm(l.test) == "deferredFns"]
        ctx.check("core.%s:drains-until-empty" % fname, len(wl) >= 1, where(m, lp), "functions deferred by deferred functions must be drained in the same pass")
        calls = [x for x in calls_in(lp) if isinstance(x.func, ast.Name) and x.func.id == norm(lp.target.elts[0])]
        ok = len(calls) == 1 and len(calls[0].args) == 1 and isinstance(calls[0].args[0], ast.Starred) and norm(calls[0].args[0].value) == norm(lp.target.elts[1]) \
            and len(calls[0].keywords) == 1 and calls[0].keywords[0].arg is None and norm(calls[0].keywords[0].value) == norm(lp.target.elts[2])
        ctx.check("core.%s:calls-each-once" % fname, ok, where(m, lp), "each queued function must be called exactly once with its own arguments")


@rule("C14.R9", "tasks installed before the task manager exists are handed over in installation order (their tie-breaker numbers follow it)", floor=1, engines="E0")
def r9(ctx):
    prog = ctx.prog
    tm = prog.cls("task", "TaskManager")
    m = tm.module
    init = tm.methods["__init__"]
    uses = [n for n in walk_shallow(init) if isinstance(n, ast.Name) and n.id == "_unscheduled_tasks"]
    if not uses:
        raise ShapeError("TaskManager.__init__ does not hand over _unscheduled_tasks")
    ok = True
    why = ""
    for c in calls_in(init):
        if isinstance(c.func, ast.Attribute) and norm(c.func.value) == "_unscheduled_tasks" and c.func.attr == "pop":
            if not c.args or prog.try_const(m, c.args[0]) != 0:
                ok, why = False, "pop() takes the most recently parked task first"
        if norm(c.func) in ("reversed", "sorted") and c.args and norm(c.args[0]) == "_unscheduled_tasks":
            ok, why = False, "%s() changes the order" % norm(c.func)
    for n in walk_shallow(init):
        if isinstance(n, ast.Subscript) and norm(n.value) == "_unscheduled_tasks" and isinstance(n.slice, ast.Slice) and n.slice.step is not None:
            ok, why = False, "a stepped slice changes the order"
    inst = [c for c in calls_in(init) if isinstance(c.func, ast.Attribute) and c.func.attr == "install_task"]
    ctx.check("TaskManager.__init__:handover-in-order", ok and len(inst) >= 1, where(m, init), "parked tasks must be installed first parked, first installed (%s)" % why)
