"""C10 - a device answers every well-framed request: exception discipline on
the decode path, reply on every path of the dispatchers, one reply per
handler path, handler/registry agreement, error literals, isolation of
queued work."""
import ast
import builtins

from ..report import rule
from ..model import norm, NotConst, calls_in, stores_in, ShapeError, AnchorMissing, is_self_attr
from ..paths import enumerate_paths, facts_at, walk_shallow, enclosing_stmt, always_leaves
from ..guards import Evaluator, atom_texts, atoms_of_facts
from ..tables import Tables
from .common import where, self_call, feasible, path_nodes, EffectSummary, base_call


def exc_family(prog, module, node):
    """'reject' | 'abort' | 'execution' | class name, for an exception class expression"""
    c = prog.resolve_class_expr(module, node) if node is not None else None
    if c is None:
        return norm(node) if node is not None else "BaseException"
    names = [x.name for x in prog.mro(c)]
    if "RejectException" in names:
        return "reject"
    if "AbortException" in names:
        return "abort"
    if "ExecutionError" in names:
        return "execution"
    return c.name


def handler_families(prog, module, h):
    if h.type is None:
        return ["BaseException"]
    ts = h.type.elts if isinstance(h.type, ast.Tuple) else [h.type]
    return [exc_family(prog, module, t) for t in ts]


@rule("C10.R2", "the request dispatchers turn every decode/execution failure they catch into exactly one Reject/Abort/Error carrying the request's context",
      floor=10, engines="E1 paths with a small abstract state")
def r2(ctx):
    prog = ctx.prog
    c = prog.cls("appservice", "ApplicationServiceAccessPoint")
    f = c.methods.get("indication")
    if f is None:
        raise AnchorMissing("ApplicationServiceAccessPoint.indication")
    apdu = f.args.args[1].arg
    ev = Evaluator(prog, c.module, c)
    n = 0
    kinds_seen = set()
    for p in enumerate_paths(f):
        if not feasible(p, ev, {"isinstance:%s" % apdu: "ConfirmedRequestPDU"}):
            continue
        # abstract walk: the variable that carries the failure
        state = {}      # name -> None | 'reject' | 'abort' | 'other'
        cur_handler = None
        ok_path = True
        responses = []
        pdus = {}       # local name -> ('RejectPDU'|'AbortPDU', reason expr)
        contexts = set()
        sap = 0
        decoded = 0
        for e in p.events:
            if e.kind == "except":
                cur_handler = e.node
            elif e.kind == "cond":
                env = {}
                for k, v in state.items():
                    env[k] = (v is not None)
                    env["isinstance:%s" % k] = {"reject": "RejectException", "abort": "AbortException"}.get(v, "NoneType")
                val = ev.eval3(e.node, env)
                if val is not None and val != e.pol:
                    ok_path = False
                    break
            elif e.kind == "stmt":
                st = e.node
                if isinstance(st, ast.Assign) and len(st.targets) == 1 and isinstance(st.targets[0], ast.Name):
                    t = st.targets[0].id
                    v = st.value
                    if isinstance(v, ast.Constant) and v.value is None:
                        state[t] = None
                    elif isinstance(v, ast.Call) and exc_family(prog, c.module, v.func) in ("reject", "abort"):
                        state[t] = exc_family(prog, c.module, v.func)
                    elif isinstance(v, ast.Name) and cur_handler is not None and cur_handler.name == v.id:
                        fams = handler_families(prog, c.module, cur_handler)
                        state[t] = fams[0] if len(fams) == 1 and fams[0] in ("reject", "abort") else "other"
                    elif isinstance(v, ast.Call) and norm(v.func) in ("RejectPDU", "AbortPDU"):
                        kw = {k.arg: k.value for k in v.keywords}
                        pdus[t] = (norm(v.func), norm(kw.get("reason")) if kw.get("reason") is not None else None)
                for call in calls_in(st):
                    if self_call(call) == "response":
                        responses.append(call)
                    if self_call(call) == "sap_request":
                        sap += 1
                    if isinstance(call.func, ast.Attribute) and call.func.attr == "set_context" and call.args and norm(call.args[0]) == apdu:
                        contexts.add(norm(call.func.value))
                    if isinstance(call.func, ast.Attribute) and call.func.attr == "decode" and call.args and norm(call.args[0]) == apdu:
                        decoded += 1
        if not ok_path or p.term == "raise":
            continue
        n += 1
        errs = {v for k, v in state.items() if v in ("reject", "abort", "other")}
        failure = next(iter(errs)) if errs else None
        kinds_seen.add(failure)
        if failure is None:
            ctx.check("ASAP.indication:success-path", not responses and sap == 1 and decoded == 1, where(c.module, f),
                      "a request that decodes must be handed to the application exactly once and not answered by the dispatcher (responses=%d, sap_request=%d)" % (len(responses), sap))
        else:
            want = {"reject": "RejectPDU", "abort": "AbortPDU"}.get(failure)
            ok = len(responses) == 1 and want is not None
            if ok:
                a = responses[0].args[0] if responses[0].args else None
                nm = norm(a) if a is not None else None
                ok = nm in pdus and pdus[nm][0] == want and nm in contexts and pdus[nm][1] is not None and pdus[nm][1].endswith("." + failure + "Reason")
            ctx.check("ASAP.indication:%s-path" % failure, ok, where(c.module, f),
                      "a %s raised while decoding/executing a confirmed request must be answered with exactly one %s built from the exception's reason and set_context(request): %s"
                      % (failure, want, p.describe()[:300]))
    ctx.count("paths", n)
    for k in (None, "reject", "abort"):
        ctx.check("ASAP.indication:has-%s-path" % k, k in kinds_seen, where(c.module, f), "no path for outcome %s found" % k)
    # unknown service -> UnrecognizedService (a reject)
    gets = [x for x in calls_in(f) if norm(x.func) == "confirmed_request_types.get"]
    ctx.check("ASAP.indication:registry", len(gets) == 1 and norm(gets[0].args[0]) == "%s.apduService" % apdu, where(c.module, f), "the request class must be looked up by service choice in confirmed_request_types")
    # ---- Application.indication
    a = prog.cls("app", "Application")
    f = a.methods.get("indication")
    if f is None:
        raise AnchorMissing("Application.indication")
    apdu = f.args.args[1].arg
    eva = Evaluator(prog, a.module, a)
    tries = [n_ for n_ in walk_shallow(f) if isinstance(n_, ast.Try)]
    if len(tries) != 1:
        raise ShapeError("Application.indication: one try expected")
    t = tries[0]
    order = [fam for h in t.handlers for fam in handler_families(prog, a.module, h)]
    ctx.check("Application.indication:handler-order", "Exception" in order or "BaseException" in order, where(a.module, t), "a catch-all handler must turn unexpected failures of a service handler into an Error reply")
    if "Exception" in order:
        ctx.check("Application.indication:specific-before-generic", all(order.index(x) < order.index("Exception") for x in order if x in ("reject", "abort", "execution")),
                  where(a.module, t), "Reject/Abort/Execution handlers must precede the catch-all")
    for h in t.handlers:
        fams = handler_families(prog, a.module, h)
        for fam in fams:
            if fam in ("reject", "abort"):
                ok = len(h.body) >= 1 and isinstance(h.body[-1], ast.Raise) and h.body[-1].exc is None and not [x for x in calls_in(h) if self_call(x) == "response"]
                ctx.check("Application.indication:%s-reraised" % fam, ok, where(a.module, h), "%s exceptions must be passed on to the dispatcher that converts them" % fam)
            else:
                # Error reply iff confirmed
                for pol in (True, False):
                    resp = []
                    for call in calls_in(h):
                        if self_call(call) == "response":
                            if eva.may_hold(facts_at(call, stop=h), {"isinstance:%s" % apdu: "ConfirmedRequestPDU" if pol else "UnconfirmedRequestPDU"}):
                                resp.append(call)
                    if pol:
                        ok = len(resp) == 1
                        if ok:
                            mk = [x for x in calls_in(h) if norm(x.func) == "Error"]
                            ok = len(mk) == 1 and any(k.arg == "context" and norm(k.value) == apdu for k in mk[0].keywords) \
                                and {k.arg for k in mk[0].keywords} >= {"errorClass", "errorCode", "context"}
                            if ok and fam == "execution":
                                kw = {k.arg: norm(k.value) for k in mk[0].keywords}
                                ok = kw["errorClass"] == "%s.errorClass" % h.name and kw["errorCode"] == "%s.errorCode" % h.name
                        ctx.check("Application.indication:%s-answered" % fam, ok, where(a.module, h), "a confirmed request failing with %s must be answered with one Error PDU built from the request's context" % fam)
                    else:
                        ctx.check("Application.indication:%s-unconfirmed-silent" % fam, not resp, where(a.module, h), "an unconfirmed request must never be answered")
    # helper lookup and unknown service
    raises = [n_ for n_ in walk_shallow(f) if isinstance(n_, ast.Raise) and n_.exc is not None]
    ok = False
    for r in raises:
        fam = exc_family(prog, a.module, r.exc.func if isinstance(r.exc, ast.Call) else r.exc)
        fa = facts_at(r)
        if fam == "reject" and eva.may_hold(fa, {"isinstance:%s" % apdu: "ConfirmedRequestPDU", "helperFn": False}) and not eva.may_hold(fa, {"isinstance:%s" % apdu: "UnconfirmedRequestPDU", "helperFn": False}) \
                and not eva.may_hold(fa, {"isinstance:%s" % apdu: "ConfirmedRequestPDU", "helperFn": True}):
            ok = True
    ctx.check("Application.indication:unsupported-service-rejected", ok, where(a.module, f), "a confirmed request without a handler must raise a RejectException (UnrecognizedService)")
    hc = [x for x in calls_in(t) if norm(x.func) == "helperFn"]
    ctx.check("Application.indication:helper-inside-try", len(hc) == 1 and enclosing_stmt(hc[0]) in t.body, where(a.module, t), "the service handler must run inside the try that maps failures to replies")


def confirmed_handlers(ctx):
    """(module, ClassInfo, FunctionDef, request ClassInfo) for every do_<ConfirmedRequest> in the package"""
    prog = ctx.prog
    T = Tables(prog)
    conf = {k.name for k, _, _ in T.registry_calls("apdu", "register_confirmed_request_type") if k is not None}
    unconf = {k.name for k, _, _ in T.registry_calls("apdu", "register_unconfirmed_request_type") if k is not None}
    out = []
    for m, c, fn in prog.all_functions():
        if c is None or not fn.name.startswith("do_"):
            continue
        if m.name.startswith(("bsll", "console", "tcp", "udp")):
            continue
        x = fn.name[3:]
        out.append((m, c, fn, x, "confirmed" if x in conf else "unconfirmed" if x in unconf else None))
    return out


@rule("C10.R3", "every confirmed-service handler sends exactly one reply on every path that returns normally", floor=8, engines="E1 effect summaries")
def r3(ctx):
    prog = ctx.prog
    for m, c, fn, x, kind in confirmed_handlers(ctx):
        if kind != "confirmed":
            continue
        es = EffectSummary(prog, c, ["resp"], lambda call: "resp" if self_call(call) == "response" else None, stop=("response", "request"))
        try:
            summ = es.of_function(fn)
        except ShapeError:
            raise
        ctx.count("paths", es.paths_seen)
        counts = sorted(t[0] for t in summ)
        ctx.check("%s.%s" % (c.name, fn.name), counts == [1], where(m, fn),
                  "non-raising paths of the handler send %s replies (must be exactly 1): %s" % (counts, " | ".join(" ".join(tr) for t, tr in sorted(summ.items()) if t[0] != 1)[:300]),
                  facts={"reply_counts": counts})
        # the reply is built with the request as context
        apdu = fn.args.args[1].arg
        acks = [call for call in calls_in(fn) if isinstance(call.func, ast.Name) and (call.func.id.endswith("ACK") or call.func.id == "SimpleAckPDU")]
        for call in acks:
            okc = any(k.arg == "context" and norm(k.value) == apdu for k in call.keywords)
            ctx.check("%s.%s:%s-context" % (c.name, fn.name, call.func.id), okc, where(m, call), "the acknowledgement must be built with context=<request> (invoke ID and peer)")


@rule("C10.R4", "every do_X handler names a registered request class", floor=10, engines="E3 registries")
def r4(ctx):
    for m, c, fn, x, kind in confirmed_handlers(ctx):
        ctx.check("%s.%s" % (c.name, fn.name), kind is not None, where(m, fn), "%s is not a registered confirmed or unconfirmed request class: the handler can never be dispatched" % x)
    # dispatch is by class name
    a = ctx.prog.cls("app", "Application")
    f = a.methods["indication"]
    st = [s for s in walk_shallow(f) if isinstance(s, ast.Assign) and isinstance(s.value, ast.BinOp) and isinstance(s.value.left, ast.Constant) and s.value.left.value == "do_"]
    ctx.check("Application.indication:helper-name", len(st) == 1 and norm(st[0].value.right).endswith(".__class__.__name__"), where(a.module, f), "handlers are selected as 'do_' + class name of the decoded request")


@rule("C10.R5", "error class / error code literals are members of the ErrorClass / ErrorCode enumerations", floor=20, engines="E3")
def r5(ctx):
    prog = ctx.prog
    T = Tables(prog)
    ec = T.enumerations(prog.cls("basetypes", "ErrorClass"))
    ed = T.enumerations(prog.cls("basetypes", "ErrorCode"))
    if len(ec) < 5 or len(ed) < 50:
        raise ShapeError("ErrorClass/ErrorCode enumerations not evaluated")
    n = 0
    for m, c, fn in prog.all_functions():
        if m.name.startswith(("bsll", "console", "tcp", "udp", "analysis")):
            continue
        for call in calls_in(fn):
            fnm = norm(call.func)
            if fnm not in ("ExecutionError", "Error", "ErrorType"):
                continue
            kw = {k.arg: k.value for k in call.keywords}
            cls_node = kw.get("errorClass", call.args[0] if fnm == "ExecutionError" and len(call.args) > 0 else None)
            code_node = kw.get("errorCode", call.args[1] if fnm == "ExecutionError" and len(call.args) > 1 else None)
            for what, node, table in (("errorClass", cls_node, ec), ("errorCode", code_node, ed)):
                if node is None or not isinstance(node, ast.Constant):
                    continue
                n += 1
                v = node.value
                ok = (v in table) if isinstance(v, str) else (v in table.values())
                q = "%s.%s" % (c.name, fn.name) if c else fn.name
                ctx.check("%s:%s=%r" % (q, what, v), ok, where(m, node), "%r is not a member of the %s enumeration: building the Error PDU fails and the client gets no (or the wrong) answer" % (v, what))
    ctx.count("literals", n)
    # the reject / abort reasons the exception classes carry are turned into PDUs by name: each must be a member of the enumeration
    em = prog.module("errors")
    rr = T.enumerations(prog.cls("apdu", "RejectReason"))
    ar = T.enumerations(prog.cls("apdu", "AbortReason"))
    k = 0
    for cname, c in em.classes.items():
        for attr, table, tname in (("rejectReason", rr, "RejectReason"), ("abortReason", ar, "AbortReason")):
            node = c.attrs.get(attr)
            if node is None or not isinstance(node, ast.Constant) or node.value is None:
                continue
            k += 1
            v = node.value
            ok = (v in table) if isinstance(v, str) else (v in table.values())
            ctx.check("errors.%s:%s=%r" % (cname, attr, v), ok, where(em, node),
                      "%r is not a member of apdu.%s: building the %s PDU for this exception raises, and the client gets no answer" % (v, tname, "Reject" if attr == "rejectReason" else "Abort"))
    if k < 20:
        raise ShapeError("errors.py: only %d reject/abort reason literals found" % k)
    # ... and reasons passed by name or through the enumeration class elsewhere in the stack
    for m, c, fn in prog.all_functions():
        if m.name not in ("appservice", "app", "apdu"):
            continue
        for x in ast.walk(fn):
            if isinstance(x, ast.Attribute) and isinstance(x.value, ast.Name) and x.value.id in ("AbortReason", "RejectReason") and isinstance(x.ctx, ast.Load):
                table = ar if x.value.id == "AbortReason" else rr
                if x.attr in ("enumerations", "_xlate_table", "vendor_range"):
                    continue
                q = "%s.%s" % (c.name, fn.name) if c else fn.name
                ctx.check("%s:%s.%s" % (q, x.value.id, x.attr), x.attr in table, where(m, x), "%s has no member %s" % (x.value.id, x.attr))


@rule("C10.R6", "a failing deferred call does not discard the rest of the queued batch", floor=2, engines="E1")
def r6(ctx):
    from .c14 import deferred_isolation
    deferred_isolation(ctx, "C10")


# ------------------------------------------------------------------ R1
DECODE_PATH = [
    ("apdu", "APCISequence", "decode"),
    ("primitivedata", "TagList", "decode"), ("primitivedata", "Tag", "decode"), ("primitivedata", "Tag", "context_to_app"), ("primitivedata", "Tag", "app_to_object"),
    ("constructeddata", "Sequence", "decode"), ("constructeddata", "Choice", "decode"), ("constructeddata", "Any", "decode"),
    ("constructeddata", "AnyAtomic", "decode"),
]


def _decode_path_functions(prog):
    out = []
    for mn, cn, fn in DECODE_PATH:
        c = prog.cls(mn, cn)
        if fn not in c.methods:
            raise AnchorMissing("%s.%s.%s" % (mn, cn, fn))
        out.append((c, c.methods[fn]))
    # list/array decoders live in factory functions
    cd = prog.module("constructeddata")
    for fname in ("SequenceOf", "ListOf", "ArrayOf"):
        f = cd.functions.get(fname)
        if f is None:
            raise AnchorMissing("constructeddata.%s" % fname)
        inner = [st for st in f.body if isinstance(st, ast.ClassDef)]
        for k in inner:
            for st in k.body:
                if isinstance(st, ast.FunctionDef) and st.name == "decode":
                    out.append((type("C", (), {"name": "%s.%s" % (fname, k.name), "module": cd})(), st))
    # every primitive's decode
    pm = prog.module("primitivedata")
    atomic = prog.cls("primitivedata", "Atomic")
    for c in pm.classes.values():
        if atomic in prog.mro(c) and "decode" in c.methods:
            out.append((c, c.methods["decode"]))
    return out


def _none_guarded(use, var):
    """is the attribute access `var.attr` protected against var being None?"""
    at = atom_texts(facts_at(use))
    for t, p in at:
        if (t == "%s is None" % var and not p) or (t == "%s is not None" % var and p) or (t == var and p) or (t == "not %s" % var and not p):
            return True
    # short circuit inside the same boolean expression
    p = getattr(use, "_parent", None)
    child = use
    while p is not None and not isinstance(p, ast.stmt):
        if isinstance(p, ast.BoolOp):
            idx = None
            for i, v in enumerate(p.values):
                if v is child or any(n is child for n in ast.walk(v)):
                    idx = i
            for v in p.values[: idx or 0]:
                t = norm(v)
                if isinstance(p.op, ast.Or) and t in ("not %s" % var, "%s is None" % var):
                    return True
                if isinstance(p.op, ast.And) and t in (var, "%s is not None" % var):
                    return True
        child = p
        p = getattr(p, "_parent", None)
    return False


def escape_sites(prog):
    """(owner name, function, kind, key, node, locally_safe) for every place on the request decode path
    that can raise something other than a Reject/Abort exception"""
    sites = []
    import struct as _struct
    for c, f in _decode_path_functions(prog):
        m = c.module
        q = "%s.%s" % (c.name, f.name)
        ev = Evaluator(prog, m)
        for n in walk_shallow(f):
            # explicit raises
            if isinstance(n, ast.Raise) and n.exc is not None:
                cls_node = n.exc.func if isinstance(n.exc, ast.Call) else n.exc
                fam = exc_family(prog, m, cls_node)
                if fam in ("reject", "abort"):
                    continue
                at = atom_texts(facts_at(n))
                # argument-type preconditions on a parameter that is never wire data
                if fam == "TypeError" and any(t.startswith("isinstance(") and not p for t, p in at):
                    continue
                msg = ""
                if isinstance(n.exc, ast.Call) and n.exc.args and isinstance(n.exc.args[0], ast.Constant):
                    msg = str(n.exc.args[0].value)[:28]
                elif isinstance(n.exc, ast.Call) and n.exc.args and isinstance(n.exc.args[0], ast.BinOp) and isinstance(n.exc.args[0].left, ast.Constant):
                    msg = str(n.exc.args[0].left.value)[:28]
                sites.append((q, f, "raise", "%s[%s]" % (fam, msg), n, False, m))
            # result of Pop()/Peek() used without a None test
            if isinstance(n, ast.Assign) and isinstance(n.value, ast.Call) and isinstance(n.value.func, ast.Attribute) and n.value.func.attr in ("Pop", "Peek") \
                    and len(n.targets) == 1 and isinstance(n.targets[0], ast.Name):
                var = n.targets[0].id
                # uses until the next assignment of var in the same block
                blk = getattr(n, "_parent", None)
                sibs = None
                for fld in ("body", "orelse"):
                    lst = getattr(blk, fld, None)
                    if isinstance(lst, list) and n in lst:
                        sibs = lst[lst.index(n) + 1:]
                in_nonempty_loop = any(isinstance(l, ast.While) and ("len(%s)" % norm(n.value.func.value)) in norm(l.test) for l in _loops(n)) and n.value.func.attr == "Peek"
                for s in sibs or []:
                    stop = False
                    for u in ast.walk(s):
                        if isinstance(u, ast.Attribute) and isinstance(u.value, ast.Name) and u.value.id == var and isinstance(u.ctx, ast.Load):
                            safe = in_nonempty_loop or _none_guarded(u, var)
                            sites.append((q, f, "none-deref", "%s.%s after %s()" % (var, u.attr, n.value.func.attr), u, safe, m))
                            stop = True
                            break
                    if stop or any(isinstance(t, ast.Name) and t.id == var for x in ast.walk(s) if isinstance(x, ast.Assign) for t in x.targets):
                        break
            if isinstance(n, ast.Call):
                fn = norm(n.func)
                if fn == "struct.unpack" and len(n.args) == 2:
                    fmt = prog.try_const(m, n.args[0])
                    key = "len(%s)" % norm(n.args[1])
                    fa = facts_at(n)
                    safe = False
                    if isinstance(fmt, str):
                        size = _struct.calcsize(fmt)
                        reach = [k for k in range(0, 10) if ev.may_hold(fa, {key: k})]
                        safe = reach == [size]
                    sites.append((q, f, "struct.error", "struct.unpack(%r, %s)" % (fmt, norm(n.args[1])), n, safe, m))
                if isinstance(n.func, ast.Attribute) and n.func.attr == "decode" and n.args and isinstance(n.args[0], ast.Constant) and isinstance(n.args[0].value, str):
                    codec = n.args[0].value.lower().replace("-", "_")
                    if codec in ("latin_1", "latin1", "iso8859_1"):
                        continue
                    # inside a try that catches UnicodeDecodeError without re-raising?
                    safe = False
                    p = getattr(n, "_parent", None)
                    while p is not None and p is not f:
                        if isinstance(p, ast.Try) and any(h.type is not None and "UnicodeDecodeError" in norm(h.type) or h.type is None for h in p.handlers) and enclosing_stmt(n) in p.body:
                            safe = True
                        p = getattr(p, "_parent", None)
                    sites.append((q, f, "UnicodeDecodeError", "bytes.decode(%r)" % n.args[0].value, n, safe, m))
            if isinstance(n, ast.Subscript) and isinstance(n.ctx, ast.Load) and norm(n.value).endswith("_app_tag_class") and "tagNumber" in norm(n.slice):
                fa = facts_at(n)
                key = norm(n.slice)
                reach = [k for k in (0, 12, 15, 16, 254) if ev.may_hold(fa, {key: k})]
                sites.append((q, f, "IndexError", "%s[%s]" % (norm(n.value), key), n, max(reach) < 16, m))
    return sites


def _loops(n):
    p = getattr(n, "_parent", None)
    while p is not None and not isinstance(p, (ast.FunctionDef,)):
        if isinstance(p, (ast.For, ast.While)):
            yield p
        p = getattr(p, "_parent", None)


@rule("C10.R1", "nothing the request decoder can raise escapes the dispatcher: every non-Reject/Abort exception site on the decode path is guarded locally or converted into a Reject by the dispatcher's catch-all",
      floor=10, engines="E2 raise-site enumeration (explicit + implicit raisers) + handler coverage")
def r1(ctx):
    prog = ctx.prog
    c = prog.cls("appservice", "ApplicationServiceAccessPoint")
    f = c.methods.get("indication")
    if f is None:
        raise AnchorMissing("ApplicationServiceAccessPoint.indication")
    apdu = f.args.args[1].arg
    ev = Evaluator(prog, c.module, c)
    # the try around the request decode in the confirmed branch
    dec_calls = [x for x in calls_in(f) if isinstance(x.func, ast.Attribute) and x.func.attr == "decode" and x.args and norm(x.args[0]) == apdu
                 and ev.may_hold(facts_at(x), {"isinstance:%s" % apdu: "ConfirmedRequestPDU"}) and not ev.may_hold(facts_at(x), {"isinstance:%s" % apdu: "UnconfirmedRequestPDU"})]
    if len(dec_calls) != 1:
        raise ShapeError("confirmed-request decode call not found (%d)" % len(dec_calls))
    call = dec_calls[0]
    t = None
    p = getattr(call, "_parent", None)
    while p is not None and p is not f:
        if isinstance(p, ast.Try) and enclosing_stmt(call) in p.body:
            t = p
            break
        p = getattr(p, "_parent", None)
    fams = [fam for h in (t.handlers if t else []) for fam in handler_families(prog, c.module, h)]
    ctx.check("ASAP.indication:decode-in-try", t is not None and "reject" in fams and "abort" in fams, where(c.module, call), "the request decode must run inside a try that catches Reject and Abort exceptions")
    catch_all = None
    for h in (t.handlers if t else []):
        if h.type is None or norm(h.type) in ("Exception", "BaseException"):
            # converts into a reject/abort stored for the reply, does not re-raise or return
            conv = [s for s in h.body if isinstance(s, ast.Assign) and isinstance(s.value, ast.Call) and exc_family(prog, c.module, s.value.func) in ("reject", "abort")]
            leaves = any(isinstance(x, (ast.Return, ast.Raise)) for x in ast.walk(h))
            if conv and not leaves:
                catch_all = h
    # the constructor of the request class is inside the same try (an unknown table shape fails there)
    mk = [x for x in calls_in(t) if norm(x.func) == "atype"] if t else []
    ctx.check("ASAP.indication:construct-in-try", len(mk) == 1, where(c.module, t or f), "the request object must be created inside the protected block")
    sites = escape_sites(prog)
    ctx.count("decode_path_functions", len(_decode_path_functions(prog)))
    ctx.count("escape_sites", len(sites))
    seen = {}
    for q, fn, kind, key, node, safe, m in sites:
        k = "%s:%s:%s" % (q, kind, key)
        seen[k] = seen.get(k, 0) + 1
        if seen[k] > 1:
            k = "%s#%d" % (k, seen[k])
        ctx.check(k, safe or catch_all is not None, where(m, node),
                  "%s can leave the request decoder (%s) and neither a local guard nor a catch-all in the dispatcher turns it into a reply: the server transaction stays in AWAIT_RESPONSE and the client gets silence"
                  % (kind, key), facts={"locally_guarded": safe, "dispatcher_catch_all": catch_all is not None})
    if len(sites) < 8:
        raise ShapeError("only %d escape sites enumerated on the decode path" % len(sites))


@rule("C10.R7", "server-side failures reach the client and never leave a transaction without a timer", floor=10, engines="E1 (shared with C04.R2 / C04.R5)")
def r7(ctx):
    from . import c04
    c04.r2(ctx)
    c04._retry_rule(ctx, "ServerSSM", "segmented_response_timeout", "segmentRetryCount", None)
    # a server transaction waiting for the application has a timeout that aborts it
    c = ctx.prog.cls("appservice", "ServerSSM")
    f = c.methods.get("await_response_timeout")
    if f is None:
        raise AnchorMissing("ServerSSM.await_response_timeout")
    names = [self_call(x) for x in calls_in(f)]
    ctx.check("ServerSSM.await_response_timeout:aborts", names.count("abort") == 1, where(c.module, f), "an application that never answers must end the transaction")
    # nothing the peer can put into the request header may make the transaction's own code raise once it is registered:
    # calls into helpers that refuse some argument values, with an argument taken from the received PDU, are guarded and
    # answered with an abort
    prog = ctx.prog
    am = prog.module("apdu")
    raisers = {}
    for name, fn in am.functions.items():
        rs = [r for r in walk_shallow(fn) if isinstance(r, ast.Raise) and r.exc is not None]
        if rs:
            raisers[name] = {norm(r.exc.func) if isinstance(r.exc, ast.Call) else norm(r.exc) for r in rs}
    # implicit refusals: a code table subscripted with a header field (4 bits: 0..15) that has fewer entries raises IndexError
    for name, fn in am.functions.items():
        if not name.startswith("decode_max_") or len(fn.args.args) != 1:
            continue
        par0 = fn.args.args[0].arg
        for sub_ in [x for x in walk_shallow(fn) if isinstance(x, ast.Subscript) and isinstance(x.slice, ast.Name) and x.slice.id == par0 and isinstance(x.value, ast.Name)]:
            tbl = prog.try_const(am, sub_.value)
            width = 16 if "apdu_length" in name else 8
            if isinstance(tbl, (list, tuple)) and len(tbl) < width:
                raisers.setdefault(name, set()).add("IndexError")
            elif isinstance(tbl, dict) and not all(k_ in tbl for k_ in range(width)):
                raisers.setdefault(name, set()).add("KeyError")
    if "decode_max_apdu_length_accepted" not in raisers:
        raise ShapeError("apdu.decode_max_apdu_length_accepted: no refusal found")
    n = 0
    for mname, m in c.methods.items():
        if len(m.args.args) < 2:
            continue
        par = m.args.args[1].arg
        for call in calls_in(m):
            if isinstance(call.func, ast.Name) and call.func.id in raisers and any(isinstance(x, ast.Name) and x.id == par for a in call.args for x in ast.walk(a)):
                n += 1
                handled = False
                p = getattr(call, "_parent", None)
                child = call
                while p is not None and p is not m:
                    if isinstance(p, ast.Try) and any(child is st or any(child is y for y in ast.walk(st)) for st in p.body):
                        for h in p.handlers:
                            names = [norm(t) for t in (h.type.elts if isinstance(h.type, ast.Tuple) else [h.type])] if h.type is not None else ["BaseException"]
                            covers = any(t in ("Exception", "BaseException") or t in raisers[call.func.id] or (t == "ValueError" and raisers[call.func.id] <= {"ValueError", "DecodingError"}) for t in names)
                            hc = [self_call(x) for x in calls_in(h)]
                            if covers and "abort" in hc and ("response" in hc or "request" in hc):
                                handled = True
                    child = p
                    p = getattr(p, "_parent", None)
                ctx.check("ServerSSM.%s:%s(%s):refusal-answered" % (mname, call.func.id, par), handled, where(c.module, call),
                          "%s refuses some values (%s) and is given a field of the received request: the exception leaves the transaction registered, without timer and without reply"
                          % (call.func.id, ", ".join(sorted(raisers[call.func.id]))))
    ctx.check("ServerSSM:header-field-decoders-found", n >= 1, where(c.module, c.node), "no call of a refusing header-field decoder found in ServerSSM")
    # device communication control: inbound traffic is filtered only while communication is disabled - for every other
    # value the switch can hold (including one a peer wrote that is not a defined state) requests are still answered
    sm = prog.cls("appservice", "StateMachineAccessPoint")
    f = sm.methods.get("confirmation")
    if f is None:
        raise AnchorMissing("StateMachineAccessPoint.confirmation")
    evd = Evaluator(prog, sm.module, sm)
    K = "self.dccEnableDisable"
    rets = []
    for r in [x for x in walk_shallow(f) if isinstance(x, ast.Return)]:
        fa = [z for z in facts_at(r) if K in norm(z.test)]
        if fa:
            rets.append((r, fa))
    ctx.check("SMAP.confirmation:dcc-filter-present", len(rets) >= 1, where(sm.module, f), "no device-communication-control filter found")
    probes = ["enable", "disable", "disableInitiation", "bogus", 3, None]
    for i, (r, fa) in enumerate(rets):
        reach = [v for v in probes if evd.may_hold(fa, {K: v})]
        ctx.check("SMAP.confirmation:dcc-filter#%d:only-when-disabled" % (i + 1), reach == ["disable"], where(sm.module, r),
                  "inbound PDUs are dropped for communication-control values %r; only 'disable' may silence the device (an undefined value written by a peer would otherwise mute it for good)" % (reach,))


@rule("C10.R8", "the reply finds its way back: the return path toward a routed requester is (re)learned from every routed request, under the arrival network and link source", floor=4, engines="E0/E1 (shared with C19.R5)")
def r8(ctx):
    from . import c19
    c19.r5(ctx)


@rule("C10.R9", "a request whose answer cannot be sent within what the client accepts is answered with the matching abort (the capability decision of the server transaction; never segments to a client that takes none)",
      floor=20, engines="E5 decision tables (shared with C12.R2)")
def r9(ctx):
    from .c12 import r2 as capability_tables
    capability_tables(ctx)


_ID_ATTRS = ("apduInvokeID", "invokeID")


def _is_invoke_id(e):
    return (isinstance(e, ast.Attribute) and e.attr in _ID_ATTRS) or (isinstance(e, ast.Name) and e.id in ("invokeID", "invoke_id"))


@rule("C10.R10", "invoke ID 0 is an invoke ID: no decision of the transaction layer or the application comes out differently for 0 than for another ID (a request numbered 0 is answered like any other)",
      floor=4, engines="E5 finite-domain evaluation of every test that reads an invoke ID")
def r10(ctx):
    prog = ctx.prog
    n_tests = 0
    for mname in ("appservice", "app", "apdu", "iocb"):
        m = prog.module(mname)
        for c in list(m.classes.values()) + [None]:
            fns = list(c.methods.values()) if c is not None else list(m.functions.values())
            ev = Evaluator(prog, m, c) if c is not None else Evaluator(prog, m)
            for fn in fns:
                label = "%s.%s" % (c.name, fn.name) if c is not None else fn.name
                for n in ast.walk(fn):
                    # (a) a test: evaluated with the ID 0 and with the ID 3, everything else unknown
                    t = n.test if isinstance(n, (ast.If, ast.While, ast.IfExp, ast.Assert)) else None
                    if t is not None:
                        keys = sorted({norm(x) for x in ast.walk(t) if _is_invoke_id(x)})
                        for k in keys:
                            n_tests += 1
                            try:
                                r0, r3 = ev.eval3(t, {k: 0}), ev.eval3(t, {k: 3})
                            except Exception:
                                r0 = r3 = None
                            ctx.check("%s:invoke-id-0@%s" % (label, norm(t)[:60]), r0 == r3, where(m, n),
                                      "the test %s comes out %s for invoke ID 0 but %s for 3: a request or reply numbered 0 is treated as having no ID" % (norm(t)[:80], r0, r3))
                    # (b) an ID used for its truth value in a value position: `x = id or ...`, `id and ...`, `not id`
                    if isinstance(n, ast.BoolOp) and any(_is_invoke_id(v) for v in n.values[:-1]):
                        n_tests += 1
                        ctx.check("%s:invoke-id-0@%s" % (label, norm(n)[:60]), False, where(m, n), "the expression %s replaces / skips the invoke ID 0" % norm(n)[:80])
    ctx.count("invoke-id-tests", n_tests)
    if n_tests < 4:
        raise ShapeError("only %d tests reading an invoke ID found" % n_tests)
