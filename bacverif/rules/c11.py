"""C11 - concurrent transactions never cross: lookup keys, direction,
miss => ignore, invoke-ID allocation, registration order, duplicate requests."""
import ast

from ..report import rule
from ..model import norm, NotConst, calls_in, stores_in, ShapeError, AnchorMissing, is_self_attr
from ..paths import enumerate_paths, facts_at, walk_shallow, enclosing_stmt, always_leaves
from ..guards import Evaluator, atoms_of_facts, atom_texts
from .common import where, self_call, feasible, path_nodes, same_function, grid, attr_stores, subst_locals

MOD = "appservice"
LISTS = ("self.clientTransactions", "self.serverTransactions")
PDU_CLASSES = ["ConfirmedRequestPDU", "UnconfirmedRequestPDU", "SimpleAckPDU", "ComplexAckPDU", "ErrorPDU", "RejectPDU", "AbortPDU", "SegmentAckPDU"]


def lookup_loops(ctx):
    c = ctx.prog.cls(MOD, "StateMachineAccessPoint")
    out = []
    for name, f in c.methods.items():
        for n in walk_shallow(f):
            if isinstance(n, ast.For) and norm(n.iter) in LISTS:
                out.append((c, f, n))
    return out


def match_test(loop):
    """the condition under which the loop body leaves the loop (break / raise / return)"""
    tests = []
    for st in loop.body:
        if isinstance(st, ast.If) and always_leaves(st.body) and not st.orelse:
            tests.append(st)
    return tests


@rule("C11.R1", "every transaction lookup matches on invoke ID and peer address together", floor=9, engines="E5 value-set evaluation")
def r1(ctx):
    loops = lookup_loops(ctx)
    for c, f, lp in loops:
        ev = Evaluator(ctx.prog, c.module, c)
        tr = norm(lp.target)
        key = "%s:%s@%s" % (f.name, norm(lp.iter).split(".")[-1], "/".join(t for t, p in atom_texts(facts_at(lp)) if p)[:80])
        ts = match_test(lp)
        if len(ts) != 1:
            ctx.bad("SMAP.%s" % key, where(c.module, lp), "lookup loop without a single match test")
            continue
        test = ts[0].test
        leaves = {norm(n) for n in ast.walk(test) if isinstance(n, (ast.Attribute, ast.Name)) and not isinstance(getattr(n, "_parent", None), ast.Attribute)}
        mine = sorted(x for x in leaves if not x.startswith(tr + ".") and x != tr)
        ids = [x for x in mine if x.lower().endswith("invokeid")]
        addrs = [x for x in mine if x not in ids]
        ok = len(ids) == 1 and len(addrs) == 1 and ("%s.invokeID" % tr) in leaves and ("%s.pdu_address" % tr) in leaves
        detail = ""
        if ok:
            for ide in (True, False):
                for ade in (True, False):
                    env = {"%s.invokeID" % tr: 5, "%s.pdu_address" % tr: "A", ids[0]: 5 if ide else 6, addrs[0]: "A" if ade else "B"}
                    v = ev.eval3(test, env)
                    if v is None or v != (ide and ade):
                        ok = False
                        detail = "test is %r when invoke IDs %s and addresses %s" % (v, "equal" if ide else "differ", "equal" if ade else "differ")
        else:
            detail = "operands: %s" % sorted(leaves)
        ctx.check("SMAP.%s" % key, ok, where(c.module, ts[0]),
                  "a transaction must be selected only when invoke ID AND peer address both match (%s): %s" % (detail, norm(test)), facts={"test": norm(test)})
        # which address of the PDU?
        if ok:
            want = {"confirmation": ".pduSource", "sap_confirmation": ".pduDestination", "sap_indication": ".pduDestination"}.get(f.name)
            if want:
                ctx.check("SMAP.%s:address-side" % key, addrs[0].endswith(want), where(c.module, ts[0]),
                          "%s must compare the PDU's %s with the transaction's peer (found %s)" % (f.name, want[1:], addrs[0]))
            elif f.name == "get_next_invoke_id":
                ctx.check("SMAP.%s:address-side" % key, addrs[0] == f.args.args[1].arg, where(c.module, ts[0]), "allocation must compare the destination it was asked for")


EXPECT_DIR = {
    "ConfirmedRequestPDU": {None: "serverTransactions"},
    "SimpleAckPDU": {None: "clientTransactions"}, "ComplexAckPDU": {None: "clientTransactions"},
    "ErrorPDU": {None: "clientTransactions"}, "RejectPDU": {None: "clientTransactions"},
    "AbortPDU": {True: "clientTransactions", False: "serverTransactions"},
    "SegmentAckPDU": {True: "clientTransactions", False: "serverTransactions"},
}


@rule("C11.R2", "each inbound PDU type searches the right transaction list (by apduSrv for abort and segment-ack) and is handed to the found transaction",
      floor=9, engines="E1 paths + E5")
def r2(ctx):
    c = ctx.prog.cls(MOD, "StateMachineAccessPoint")
    f = c.methods.get("confirmation")
    if f is None:
        raise AnchorMissing("StateMachineAccessPoint.confirmation")
    ev = Evaluator(ctx.prog, c.module, c)
    # the decoded apdu variable: result of atype() that gets .decode(pdu)
    apdu = None
    for call in calls_in(f):
        if isinstance(call.func, ast.Attribute) and call.func.attr == "decode" and isinstance(call.func.value, ast.Name):
            apdu = call.func.value.id
    if apdu is None:
        raise ShapeError("confirmation: decoded APDU variable not found")
    ps = enumerate_paths(f)
    ctx.count("paths", len(ps))
    for k, exp in EXPECT_DIR.items():
        for srv, lst in exp.items():
            env = {"isinstance:%s" % apdu: k, "self.dccEnableDisable": "enable", "atype": True}
            if srv is not None:
                env["%s.apduSrv" % apdu] = srv
            searched = set()
            handed = set()
            n = 0
            for p in ps:
                if p.term == "raise" or not feasible(p, ev, env):
                    continue
                n += 1
                for e in p.events:
                    if e.kind in ("loop0", "loop1") and isinstance(e.node, ast.For) and norm(e.node.iter) in LISTS:
                        searched.add(norm(e.node.iter).split(".")[-1])
                for nd in path_nodes(p):
                    if isinstance(nd, ast.Call) and isinstance(nd.func, ast.Attribute) and nd.func.attr in ("confirmation", "indication") \
                            and isinstance(nd.func.value, ast.Name) and nd.args and norm(nd.args[0]) == apdu:
                        handed.add(nd.func.attr)
            tag = "%s%s" % (k, "" if srv is None else "[srv=%s]" % srv)
            ctx.check("SMAP.confirmation:%s:list" % tag, searched == {lst} and n > 0, where(c.module, f),
                      "%s must be looked up in %s (searched %s)" % (tag, lst, sorted(searched)))
            want = {"clientTransactions": "confirmation", "serverTransactions": "indication"}[lst]
            ctx.check("SMAP.confirmation:%s:handoff" % tag, handed == {want}, where(c.module, f),
                      "%s must be given to the transaction's %s() (found %s)" % (tag, want, sorted(handed)))
    # unconfirmed requests bypass the transaction lists
    env = {"isinstance:%s" % apdu: "UnconfirmedRequestPDU", "self.dccEnableDisable": "enable", "atype": True}
    for p in ps:
        if p.term != "raise" and feasible(p, ev, env) and not any(e.kind in ("except", "excin") for e in p.events):
            loops = [e for e in p.events if e.kind in ("loop0", "loop1")]
            ups = [nd for nd in path_nodes(p) if isinstance(nd, ast.Call) and self_call(nd) == "sap_request"]
            ctx.check("SMAP.confirmation:UnconfirmedRequestPDU", not loops and len(ups) == 1, where(c.module, f), "unconfirmed requests go straight up, once")
    # sap_confirmation: server list by destination -> tr.confirmation
    f2 = c.methods.get("sap_confirmation")
    if f2 is None:
        raise AnchorMissing("StateMachineAccessPoint.sap_confirmation")
    loops = [n for n in walk_shallow(f2) if isinstance(n, ast.For) and norm(n.iter) in LISTS]
    ctx.check("SMAP.sap_confirmation:list", len(loops) == 1 and norm(loops[0].iter) == "self.serverTransactions", where(c.module, f2),
              "an application's reply belongs to a server transaction")
    hs = [x for x in calls_in(f2) if isinstance(x.func, ast.Attribute) and x.func.attr in ("confirmation", "indication") and isinstance(x.func.value, ast.Name) and x.func.value.id != "self"]
    ctx.check("SMAP.sap_confirmation:handoff", len(hs) == 1 and hs[0].func.attr == "confirmation", where(c.module, f2), "the reply must be given to the server transaction's confirmation()")


@rule("C11.R3", "a PDU that matches no live transaction is ignored (or, for a new confirmed request, creates and registers exactly one server transaction)",
      floor=9, engines="E1")
def r3(ctx):
    for c, f, lp in lookup_loops(ctx):
        key = "%s:%s@%s" % (f.name, norm(lp.iter).split(".")[-1], "/".join(t for t, p in atom_texts(facts_at(lp)) if p)[:80])
        fa = atom_texts(facts_at(lp))
        is_req = any(t.startswith("isinstance(") and "ConfirmedRequestPDU" in t and "Unconfirmed" not in t and p for t, p in fa)
        if f.name == "get_next_invoke_id":
            # no live transaction uses the candidate: leave the allocation loop (break, the candidate is returned behind it) or return it at once
            cand = {norm(x) for t_ in match_test(lp) for x in ast.walk(t_.test) if isinstance(x, ast.Name)} - {norm(lp.target)}
            ok = len(lp.orelse) == 1 and (isinstance(lp.orelse[0], ast.Break)
                                          or (isinstance(lp.orelse[0], ast.Return) and lp.orelse[0].value is not None and norm(lp.orelse[0].value) in cand and norm(lp.orelse[0].value) != "addr"))
            ctx.check("SMAP.%s:free-id-leaves" % key, ok, where(c.module, lp), "an ID no live transaction uses must end the search")
            continue
        if f.name == "sap_indication":
            ts = match_test(lp)
            ok = len(ts) == 1 and isinstance(ts[0].body[-1], ast.Raise) and not lp.orelse
            ctx.check("SMAP.%s:collision-raises" % key, ok, where(c.module, lp), "an application-chosen invoke ID already in use toward the same peer must be refused")
            continue
        if f.name == "confirmation" and is_req:
            calls = [x for st in lp.orelse for x in calls_in(st)]
            mk = [x for x in calls if norm(x.func) == "ServerSSM"]
            ap = [x for x in calls if norm(x.func) == "self.serverTransactions.append"]
            ok = len(mk) == 1 and len(ap) == 1 and len(mk[0].args) == 2 and norm(mk[0].args[0]) == "self" and norm(mk[0].args[1]).endswith(".pduSource")
            if ok:
                st = enclosing_stmt(mk[0])
                ok = isinstance(st, ast.Assign) and norm(st.targets[0]) == norm(lp.target) and norm(ap[0].args[0]) == norm(lp.target)
            ctx.check("SMAP.%s:miss-creates" % key, ok, where(c.module, lp), "an unmatched confirmed request must create one ServerSSM for (self, source) and register it")
            ctx.check("SMAP.%s:no-early-exit" % key, not always_leaves(lp.orelse), where(c.module, lp), "the new transaction must receive the request")
            continue
        ok = bool(lp.orelse) and always_leaves(lp.orelse) and not [x for st in lp.orelse for x in calls_in(st)] \
            and all(isinstance(s, (ast.Return, ast.Pass)) for s in lp.orelse) and all((not isinstance(s, ast.Return)) or s.value is None for s in lp.orelse)
        ctx.check("SMAP.%s:miss-ignored" % key, ok, where(c.module, lp), "a PDU matching no live transaction must be dropped without any effect")
        # the match leaves with break so that `tr` is the found one
        ts = match_test(lp)
        ctx.check("SMAP.%s:match-breaks" % key, len(ts) == 1 and len(ts[0].body) == 1 and isinstance(ts[0].body[0], ast.Break), where(c.module, lp), "on a match the loop must stop at that transaction")


@rule("C11.R4", "invoke IDs are allocated modulo 256 among IDs not live toward the same peer; a full cycle raises", floor=6, engines="E1 + finite-domain evaluation")
def r4(ctx):
    prog = ctx.prog
    c = prog.cls(MOD, "StateMachineAccessPoint")
    f = c.methods.get("get_next_invoke_id")
    if f is None:
        raise AnchorMissing("StateMachineAccessPoint.get_next_invoke_id")
    ev = Evaluator(prog, c.module, c)
    st = [s for t, s in attr_stores(f, "nextInvokeID")]
    ok = len(st) == 1 and isinstance(st[0], ast.Assign)
    if ok:
        ok, cx = same_function(ev, st[0].value, grid(**{"self.nextInvokeID": [0, 1, 127, 254, 255]}), lambda e: (e["self.nextInvokeID"] + 1) % 256)
    ctx.check("SMAP.get_next_invoke_id:advance", ok, where(c.module, f), "the counter must advance by one modulo 256")
    # candidate is the value before the advance
    rets = [n for n in walk_shallow(f) if isinstance(n, ast.Return)]
    ok = len(rets) == 1 and isinstance(rets[0].value, ast.Name)
    if ok and st:
        cand = rets[0].value.id
        assigns = [n for n in walk_shallow(f) if isinstance(n, ast.Assign) and norm(n.targets[0]) == cand]
        ok = len(assigns) == 1 and norm(assigns[0].value) == "self.nextInvokeID" and assigns[0].lineno < st[0].lineno \
            and getattr(assigns[0], "_parent", None) is getattr(st[0], "_parent", None)
    ctx.check("SMAP.get_next_invoke_id:candidate", ok, where(c.module, f), "the returned ID must be the counter value tested against the live transactions")
    loops = [n for n in walk_shallow(f) if isinstance(n, ast.For) and norm(n.iter) == "self.clientTransactions"]
    ok = len(loops) == 1
    if ok and rets and isinstance(rets[0].value, ast.Name):
        test = match_test(loops[0])
        ok = len(test) == 1 and rets[0].value.id in {n.id for n in ast.walk(test[0].test) if isinstance(n, ast.Name)}
        # loop nested in the retry loop
        ok = ok and any(isinstance(p, ast.While) for p in _parents(loops[0]))
    ctx.check("SMAP.get_next_invoke_id:checks-live", ok, where(c.module, f), "the candidate must be compared against every live client transaction, retrying on a clash")
    raises = [n for n in walk_shallow(f) if isinstance(n, ast.Raise)]
    ok = len(raises) == 1
    if ok:
        at = atom_texts(facts_at(raises[0], stop=None))
        ok = any(isinstance(a, ast.Compare) and {norm(a.left), norm(a.comparators[0])} >= {"self.nextInvokeID"} and
                 ((isinstance(a.ops[0], ast.Eq) and p) or (isinstance(a.ops[0], ast.NotEq) and not p)) for a, p in atoms_of_facts(facts_at(raises[0])))
        inits = [n for n in f.body if isinstance(n, ast.Assign) and norm(n.value) == "self.nextInvokeID" and isinstance(n.targets[0], ast.Name)]
        ok = ok and len(inits) >= 1
    ctx.check("SMAP.get_next_invoke_id:exhaustion", ok, where(c.module, f), "a full cycle without a free ID must raise instead of looping for ever or reusing a live ID")
    # sap_indication: allocate iff no ID given
    f2 = c.methods.get("sap_indication")
    if f2 is None:
        raise AnchorMissing("StateMachineAccessPoint.sap_indication")
    apdu = f2.args.args[1].arg
    cs = [x for x in calls_in(f2) if self_call(x) == "get_next_invoke_id"]
    ok = len(cs) == 1 and len(cs[0].args) == 1 and norm(cs[0].args[0]) == "%s.pduDestination" % apdu
    if ok:
        at = atom_texts(facts_at(cs[0]))
        ok = ("%s.apduInvokeID is None" % apdu, True) in at or ("%s.apduInvokeID is not None" % apdu, False) in at
        st2 = enclosing_stmt(cs[0])
        ok = ok and isinstance(st2, ast.Assign) and norm(st2.targets[0]) == "%s.apduInvokeID" % apdu
    ctx.check("SMAP.sap_indication:allocates", ok, where(c.module, f2), "a request without invoke ID must get one allocated for its destination")
    loops = [n for n in walk_shallow(f2) if isinstance(n, ast.For) and norm(n.iter) == "self.clientTransactions"]
    ok = len(loops) == 1
    if ok:
        at = atom_texts(facts_at(loops[0]))
        ok = ("%s.apduInvokeID is None" % apdu, False) in at or ("%s.apduInvokeID is not None" % apdu, True) in at
    ctx.check("SMAP.sap_indication:collision-check", ok, where(c.module, f2), "an application-chosen invoke ID must be checked against the live transactions")


def _parents(n):
    p = getattr(n, "_parent", None)
    while p is not None:
        yield p
        p = getattr(p, "_parent", None)


@rule("C11.R5", "a transaction is registered before it processes its first PDU and keys itself by the PDU's invoke ID and the peer address", floor=8, engines="E1")
def r5(ctx):
    prog = ctx.prog
    c = prog.cls(MOD, "StateMachineAccessPoint")
    for fname, lst, klass, addr in (("sap_indication", "clientTransactions", "ClientSSM", ".pduDestination"), ("confirmation", "serverTransactions", "ServerSSM", ".pduSource")):
        f = c.methods[fname]
        n = 0
        for p in enumerate_paths(f):
            nodes = path_nodes(p)
            mk = [i for i, nd in enumerate(nodes) if isinstance(nd, ast.Call) and norm(nd.func) == klass]
            if not mk:
                continue
            n += 1
            ap = [i for i, nd in enumerate(nodes) if isinstance(nd, ast.Call) and norm(nd.func) == "self.%s.append" % lst]
            ind = [i for i, nd in enumerate(nodes) if isinstance(nd, ast.Call) and isinstance(nd.func, ast.Attribute) and nd.func.attr == "indication"
                   and isinstance(nd.func.value, ast.Name) and nd.func.value.id != "self"]
            ok = len(mk) == 1 and len(ap) == 1 and len(ind) == 1 and mk[0] < ap[0] < ind[0]
            if not ctx.check("SMAP.%s:register-before-run" % fname, ok, where(c.module, f), "the new %s must be appended to %s before its indication() runs (a reply arriving re-entrantly would find no transaction)" % (klass, lst)):
                break
            call = nodes[mk[0]]
            ctx.check("SMAP.%s:peer" % fname, len(call.args) == 2 and norm(call.args[1]).endswith(addr), where(c.module, call), "%s must be keyed by the PDU's %s" % (klass, addr[1:]))
        if n == 0:
            raise ShapeError("%s never creates a %s" % (fname, klass))
    base = prog.cls(MOD, "SSM")
    init = base.methods["__init__"]
    st = [s for t, s in attr_stores(init, "pdu_address")]
    ctx.check("SSM.__init__:pdu_address", len(st) == 1 and norm(st[0].value) == init.args.args[2].arg, where(base.module, init), "the peer address must be the constructor argument")
    for cname, mname in (("ClientSSM", "indication"), ("ServerSSM", "idle")):
        cc = prog.cls(MOD, cname)
        f = cc.methods.get(mname)
        if f is None:
            raise AnchorMissing("%s.%s" % (cname, mname))
        apdu = f.args.args[1].arg
        st = [s for t, s in attr_stores(f, "invokeID")]
        ok = len(st) == 1 and norm(st[0].value) == "%s.apduInvokeID" % apdu
        if ok:
            # stored on every path that goes on to send / wait
            fa = [x for x in facts_at(st[0]) if x.origin == "arm"]
            ok = not fa
        ctx.check("%s.%s:invokeID" % (cname, mname), ok, where(cc.module, f), "the transaction must record the request's invoke ID unconditionally")
    # locally generated PDUs carry the transaction's identity and direction flag
    for cname, srv in (("ClientSSM", False), ("ServerSSM", True)):
        cc = prog.cls(MOD, cname)
        for name, f in cc.methods.items():
            for call in calls_in(f):
                fn = norm(call.func)
                if fn == "AbortPDU" and call.args:
                    ok = len(call.args) >= 2 and bool(prog.try_const(cc.module, call.args[0], default="?")) is srv and norm(call.args[1]) == "self.invokeID"
                    ctx.check("%s.%s:AbortPDU" % (cname, name), ok, where(cc.module, call), "abort must carry srv=%s and the transaction's invoke ID" % srv)
                if fn == "SegmentAckPDU":
                    ok = len(call.args) == 5 and bool(prog.try_const(cc.module, call.args[1], default="?")) is srv and norm(call.args[2]) == "self.invokeID"
                    ctx.check("%s.%s:SegmentAckPDU" % (cname, name), ok, where(cc.module, call), "segment-ack must carry srv=%s and the transaction's invoke ID" % srv)
    # responses are addressed to / from the peer
    for cname, mname, fld in (("ClientSSM", "request", "pduDestination"), ("ClientSSM", "response", "pduSource"), ("ServerSSM", "request", "pduSource"), ("ServerSSM", "response", "pduDestination")):
        cc = prog.cls(MOD, cname)
        f = cc.methods.get(mname)
        if f is None:
            raise AnchorMissing("%s.%s" % (cname, mname))
        st = [s for t, s in stores_in(f) if isinstance(t, ast.Attribute) and t.attr == fld]
        ctx.check("%s.%s:%s" % (cname, mname, fld), len(st) == 1 and norm(st[0].value) == "self.pdu_address", where(cc.module, f), "%s.%s must stamp %s with the transaction's peer" % (cname, mname, fld))


@rule("C11.R6", "a retransmitted request arriving while the application is still working is not handed up again", floor=1, engines="E1 paths")
def r6(ctx):
    c = ctx.prog.cls(MOD, "ServerSSM")
    f = c.methods.get("await_response")
    if f is None:
        raise AnchorMissing("ServerSSM.await_response")
    ev = Evaluator(ctx.prog, c.module, c)
    apdu = f.args.args[1].arg
    n = 0
    for p in enumerate_paths(f):
        if feasible(p, ev, {"isinstance:%s" % apdu: "ConfirmedRequestPDU", "%s.apduType" % apdu: 0}):
            n += 1
            calls = [nd for nd in path_nodes(p) if isinstance(nd, ast.Call) and self_call(nd)]
            ctx.check("ServerSSM.await_response:duplicate-request", not calls and p.term != "raise", where(c.module, f),
                      "a duplicate confirmed request in AWAIT_RESPONSE must be ignored (found %s)" % [norm(x.func) for x in calls])
    if n == 0:
        raise ShapeError("await_response has no path for a ConfirmedRequestPDU")
    # abort from the client ends the transaction and tells the application
    for p in enumerate_paths(f):
        if feasible(p, ev, {"isinstance:%s" % apdu: "AbortPDU", "%s.apduType" % apdu: 7}) and p.term != "raise":
            names = [self_call(nd) for nd in path_nodes(p) if isinstance(nd, ast.Call) and self_call(nd)]
            ctx.check("ServerSSM.await_response:abort", names.count("set_state") == 1 and names.count("request") == 1, where(c.module, f), "a client abort must end the transaction and be passed to the application")


    # the transaction that suppresses duplicates lives as long as the application may still answer: every entry into
    # AWAIT_RESPONSE is timed with the application timeout (a shorter timer forgets the request while it is being served,
    # and the client's retransmission is then handed up as a new request)
    sites = []
    for name, m_ in c.methods.items():
        for call in calls_in(m_):
            if self_call(call) == "set_state" and len(call.args) >= 2 and norm(call.args[0]) == "AWAIT_RESPONSE":
                sites.append((name, call))
    if len(sites) < 2:
        raise ShapeError("ServerSSM: %d transitions into AWAIT_RESPONSE found" % len(sites))
    for name, call in sites:
        try:
            v = ev.value(call.args[1], {"self.ssmSAP.applicationTimeout": 3000, "self.applicationTimeout": 3000, "self.segmentTimeout": 1500, "self.apduTimeout": 2000})
        except Exception:
            v = None
        ctx.check("ServerSSM.%s:await-response-timed-by-application-timeout" % name, v == 3000, where(c.module, call),
                  "AWAIT_RESPONSE is entered with timer %s: the transaction must wait for the application for the application timeout" % norm(call.args[1]))


@rule("C11.R7", "requests to one peer are serialised by a per-peer queue that is forgotten only when it is idle, and each completion is applied to the request that is active for that peer", floor=12, engines="E1 paths + E5 (shared with C04.R6)")
def r7(ctx):
    from . import c04
    c04.r6(ctx)


@rule("C11.R8", "an outcome reaches an IOCB only from its own transaction: the per-peer completion helpers of the IOCB controller are called by the queue machinery and the confirmation path, by nothing else",
      floor=3, engines="E0 who-may-call")
def r8(ctx):
    prog = ctx.prog
    c = prog.cls("app", "ApplicationIOController")
    m = c.module
    for need in ("_app_request", "_app_complete", "request", "confirmation"):
        if need not in c.methods:
            raise AnchorMissing("ApplicationIOController.%s" % need)
    allowed = {"_app_complete": {"_app_request", "confirmation"}, "_app_request": set()}
    n = 0
    for mname, f in sorted(c.methods.items()):
        for x in calls_in(f):
            sc = self_call(x)
            if sc in allowed:
                n += 1
                ctx.check("ApplicationIOController.%s:calls[%s]" % (mname, sc), mname in allowed[sc], where(m, x),
                          "%s() completes / drives the IOCB that is active for a peer; called from %s() it hands an outcome to an IOCB whose own transaction produced none" % (sc, mname))
    # the queue is given the request helper as a function, and request() itself goes down the stack
    refs = [x for fn_ in c.methods.values() for y in calls_in(fn_) if norm(y.func) == "SieveQueue" for a_ in y.args for x in ast.walk(a_) if isinstance(x, ast.Attribute) and x.attr == "_app_request"]
    ctx.check("ApplicationIOController:queue-uses-helper", len(refs) >= 1, where(m, c.node), "the per-peer queue is given _app_request as its send function")
    down = [x for x in calls_in(c.methods["request"]) if norm(x.func) in ("super(ApplicationIOController, self).request", "super().request", "Application.request")]
    ctx.check("ApplicationIOController.request:goes-down", len(down) == 1, where(m, c.methods["request"]), "a directly sent (unconfirmed) request goes to Application.request, not through the IOCB helpers")
    if n < 2:
        raise ShapeError("ApplicationIOController: completion helper calls not found")
