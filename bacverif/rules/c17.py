"""C17 - commandable values: slot bounds before the slot store, the winner
scan, slot exclusivity, present value follows, validation before mutation,
minimum on/off association, class composition."""
import ast

from ..report import rule
from ..model import norm, NotConst, calls_in, stores_in, ShapeError, AnchorMissing, is_self_attr
from ..paths import enumerate_paths, facts_at, walk_shallow, enclosing_stmt, enclosing_loops
from ..guards import Evaluator, atom_texts, atoms_of_facts
from .common import where, path_nodes, feasible, self_call, base_call

MOD = "local.object"


def commando(ctx):
    m = ctx.prog.module(MOD)
    f = m.functions.get("Commandable")
    if f is None:
        raise AnchorMissing("local.object.Commandable")
    ks = [st for st in f.body if isinstance(st, ast.ClassDef)]
    if len(ks) != 1:
        raise ShapeError("Commandable: one inner class expected")
    k = ks[0]
    meth = {st.name: st for st in k.body if isinstance(st, ast.FunctionDef)}
    for n in ("WriteProperty", "_highest_priority_value", "__init__"):
        if n not in meth:
            raise AnchorMissing("_Commando.%s" % n)
    return m, f, k, meth


def _slot_stores(wp):
    """statements that change the priority slot: priority_value.null = .. / setattr(priority_value, <choice>, ..)"""
    out = []
    for n in walk_shallow(wp):
        if isinstance(n, ast.Assign) and norm(n.targets[0]).endswith(".null") and not is_self_attr(n.targets[0]):
            out.append(n)
        if isinstance(n, ast.Expr) and isinstance(n.value, ast.Call) and norm(n.value.func) == "setattr" and n.value.args and "priority_value" in norm(n.value.args[0]):
            out.append(n)
    return out


@rule("C17.R1", "a priority slot is written only for array indexes 1..16; index 0 is refused as writeAccessDenied, others as invalidArrayIndex; a write without priority uses 16", floor=5, engines="E1 facts + E5")
def r1(ctx):
    prog = ctx.prog
    m, f, k, meth = commando(ctx)
    wp = meth["WriteProperty"]
    ev = Evaluator(prog, m)
    sts = _slot_stores(wp)
    if len(sts) < 4:
        raise ShapeError("_Commando.WriteProperty: %d slot stores found" % len(sts))
    for i, s in enumerate(sts):
        fa = [x for x in facts_at(s) if "arrayIndex" in norm(x.test)]
        reach = [v for v in (-1, 0, 1, 8, 16, 17, 100) if ev.may_hold(fa, {"arrayIndex": v, "arrayIndex is None": False})]
        ctx.check("_Commando.WriteProperty:slot-store#%d:index-range" % (i + 1), reach == [1, 8, 16], where(m, s), "the priority slot is written for array indexes %r (must be exactly 1..16)" % reach)
    # the slot read itself (subscript of the priority array by arrayIndex)
    subs = [n for n in walk_shallow(wp) if isinstance(n, ast.Subscript) and norm(n.slice) == "arrayIndex" and "priorityArray" in norm(n.value)]
    for s in subs:
        fa = [x for x in facts_at(s) if "arrayIndex" in norm(x.test)]
        reach = [v for v in (-1, 0, 1, 16, 17) if ev.may_hold(fa, {"arrayIndex": v, "arrayIndex is None": False})]
        ctx.check("_Commando.WriteProperty:slot-access:index-range", reach == [1, 16], where(m, s), "the priority array is indexed with %r" % reach)
    # error codes
    got = {}
    for r in [x for x in walk_shallow(wp) if isinstance(x, ast.Raise) and isinstance(x.exc, ast.Call) and norm(x.exc.func) == "ExecutionError"]:
        kw = {a.arg: prog.try_const(m, a.value) for a in r.exc.keywords}
        fa = [x for x in facts_at(r) if "arrayIndex" in norm(x.test)]
        vals = tuple(v for v in (-1, 0, 1, 16, 17) if ev.must_hold(fa, {"arrayIndex": v, "arrayIndex is None": False}) or (fa and ev.may_hold(fa, {"arrayIndex": v, "arrayIndex is None": False})))
        got[kw.get("errorCode")] = vals
    ctx.check("_Commando.WriteProperty:index-0-refused", got.get("writeAccessDenied") == (0,), where(m, wp), "array index 0 (the length) must be refused with writeAccessDenied (raised for %r)" % (got.get("writeAccessDenied"),))
    ctx.check("_Commando.WriteProperty:out-of-range-refused", got.get("invalidArrayIndex") == (-1, 17), where(m, wp), "indexes outside 1..16 must be refused with invalidArrayIndex (raised for %r)" % (got.get("invalidArrayIndex"),))
    # default priority and redirection: the values of `arrayIndex` and `property` at the end of the present-value arm,
    # followed through the assignments on each of its paths, for a priority that is absent / 1 / 8 / 16
    from .common import body_paths, path_value, consistent
    arms = [s for s in walk_shallow(wp) if isinstance(s, ast.If) and norm(s.test) in ("property == presentValue", "presentValue == property")]
    ok_default = ok_slot = len(arms) == 1
    if ok_default:
        for pr in (None, 1, 8, 16):
            env = {"priority is None": pr is None, "priority is not None": pr is not None, "priorityArray": "<priority array>"}
            if pr is not None:
                env["priority"] = pr
            n = 0
            for p_ in body_paths(arms[0].body):
                if p_.term == "raise" or not consistent(p_.conds()):
                    continue
                kind, val = path_value(p_, ev, env, "arrayIndex")
                if kind == "infeasible":
                    continue
                n += 1
                if pr is None:
                    ok_default = ok_default and kind == "value" and val == 16
                else:
                    ok_slot = ok_slot and kind == "value" and val == pr
                k2, v2 = path_value(p_, ev, env, "property")
                ok_slot = ok_slot and k2 == "value" and v2 == "<priority array>"
            if not n:
                ok_default = ok_slot = False
    ctx.check("_Commando.WriteProperty:default-priority-16", ok_default, where(m, wp), "a present-value write without priority counts as priority 16")
    ctx.check("_Commando.WriteProperty:redirect-to-slot", ok_slot, where(m, wp), "a present-value write is redirected to the priority-array slot of its priority")


@rule("C17.R2", "the present value is the lowest-numbered non-null slot 1..16, else the relinquish default", floor=3, engines="E1")
def r2(ctx):
    prog = ctx.prog
    m, f, k, meth = commando(ctx)
    h = meth["_highest_priority_value"]
    ev = Evaluator(prog, m)
    loops = [l for l in walk_shallow(h) if isinstance(l, ast.For)]
    ok = len(loops) == 1
    rng = None
    if ok:
        try:
            rng = list(ev.value(loops[0].iter, {}))
        except (NotConst, TypeError):
            ok = False
    ctx.check("_highest_priority_value:scan-1..16-ascending", ok and rng == list(range(1, 17)), where(m, h), "the scan must visit slots 1..16 in ascending order (visits %r)" % (rng,))
    if not ok:
        return
    lp = loops[0]
    brk = [b for b in ast.walk(lp) if isinstance(b, ast.Break)]
    ok = len(brk) == 1
    if ok:
        at = atom_texts(facts_at(brk[0], stop=lp))
        ok = at == [("priority_value.null is None", True)] or at == [("priority_value.null is not None", False)]
        sub = [s for s in lp.body if isinstance(s, ast.Assign) and norm(s.targets[0]) == "priority_value"]
        ok = ok and len(sub) == 1 and norm(sub[0].value) == "priority_array[%s]" % norm(lp.target)
    ctx.check("_highest_priority_value:first-non-null-wins", ok, where(m, h), "the scan must stop at the first slot whose null member is None (a value is commanded there)")
    vals = [s for st_ in lp.body for s in ast.walk(st_) if isinstance(s, ast.Assign) and norm(s.targets[0]) == "value" and isinstance(s.value, ast.Call) and norm(s.value.func) == "getattr"]
    ok = len(vals) == 1 and [norm(a) for a in vals[0].value.args][:2] == ["priority_value", "_Commando._pv_choice"]
    ctx.check("_highest_priority_value:reads-choice-member", ok, where(m, h), "the winning value is the slot's member for this datatype")
    ok = bool(lp.orelse) and any(isinstance(s, ast.Assign) and norm(s.targets[0]) == "value" and norm(s.value) == "getattr(self, relinquishDefault)" for s in lp.orelse)
    ctx.check("_highest_priority_value:default-when-all-null", ok, where(m, h), "with all sixteen slots null the value is the relinquish default")
    # choice member is derived from PriorityValue.choiceElements
    asg = [s for s in ast.walk(f) if isinstance(s, ast.Assign) and norm(s.targets[0]) == "_Commando._pv_choice" and norm(s.value) == "element.name"]
    ok = len(asg) == 1 and any(isinstance(l, ast.For) and norm(l.iter) == "PriorityValue.choiceElements" for l in enclosing_loops(asg[0]))
    if ok:
        at = atom_texts(facts_at(asg[0]))
        ok = ("issubclass(datatype, element.klass)", True) in at
    ctx.check("Commandable:choice-member-from-PriorityValue", ok, where(m, f), "the slot member must be the PriorityValue alternative whose class the datatype derives from")


@rule("C17.R3", "each slot holds either null or a value, never both, and exactly the commanded one", floor=1, engines="E1 paths")
def r3(ctx):
    prog = ctx.prog
    m, f, k, meth = commando(ctx)
    wp = meth["WriteProperty"]
    ev = Evaluator(prog, m)
    n = 0
    for p in enumerate_paths(wp):
        if p.term == "raise":
            continue
        nodes = path_nodes(p)
        nulls = [x for x in nodes if isinstance(x, ast.Assign) and norm(x.targets[0]) == "priority_value.null"]
        chs = [x.value for x in nodes if isinstance(x, ast.Expr) and isinstance(x.value, ast.Call) and norm(x.value.func) == "setattr" and x.value.args and norm(x.value.args[0]) == "priority_value"]
        if not nulls and not chs:
            continue
        n += 1
        ok = len(nulls) == 1 and len(chs) == 1 and norm(chs[0].args[1]) == "_Commando._pv_choice"
        if ok:
            relinquish = feasible(p, ev, {"value == ()": True}) and not feasible(p, ev, {"value == ()": False})
            nv = prog.try_const(m, nulls[0].value, default="?")
            cv = prog.try_const(m, chs[0].args[2], default="?")
            if relinquish:
                ok = norm(nulls[0].value) in ("value", "()") and cv is None
            else:
                ok = nv is None and norm(chs[0].args[2]) == "value"
        if not ctx.check("_Commando.WriteProperty:slot-exclusive", ok, where(m, wp), "a path through the slot update does not set exactly one of (null, value) and clear the other: %s" % p.describe()[:200]):
            break
    if n == 0:
        raise ShapeError("no path updates a slot")
    ctx.count("paths", n)


@rule("C17.R4", "after every slot update the winner is recomputed and written to the present value through the base class when it differs; a refused command changes nothing", floor=4, engines="E1 paths")
def r4(ctx):
    prog = ctx.prog
    m, f, k, meth = commando(ctx)
    wp = meth["WriteProperty"]
    ev = Evaluator(prog, m)
    sts = _slot_stores(wp)
    nraise = 0
    for p in enumerate_paths(wp):
        nodes = path_nodes(p)
        idx = [i for i, x in enumerate(nodes) if x in sts]
        if not idx:
            continue
        # validate before mutate: nothing may refuse the write after the slot changed
        late = [x for x in nodes[idx[0]:] if isinstance(x, ast.Raise)]
        if late:
            nraise += 1
        ctx.check("_Commando.WriteProperty:no-refusal-after-slot-change", not late, where(m, late[0] if late else wp), "the write can still be refused after the priority slot was changed")
        if p.term == "raise":
            continue
        hp = [i for i, x in enumerate(nodes) if isinstance(x, ast.Call) and self_call(x) == "_highest_priority_value"]
        ok = len(hp) == 1 and hp[0] > idx[-1]
        ctx.check("_Commando.WriteProperty:recomputes-winner", ok, where(m, wp), "the winner must be recomputed after the slot update")
        sup = [x for x in nodes if isinstance(x, ast.Call) and isinstance(x.func, ast.Attribute) and x.func.attr == "WriteProperty" and isinstance(x.func.value, ast.Call) and norm(x.func.value.func) == "super"]
        same = feasible(p, ev, {"value == current_value": True}) and not feasible(p, ev, {"value == current_value": False})
        if same:
            ctx.check("_Commando.WriteProperty:unchanged-winner-no-write", not sup, where(m, wp), "an unchanged winner must not be written again")
        else:
            ok = len(sup) == 1 and nodes.index(sup[0]) > hp[0] if hp else False
            ctx.check("_Commando.WriteProperty:winner-written-through-base", ok, where(m, wp), "a changed winner must be written to the present value through the base class (monitors, COV)")
    # the commanded value is validated against the datatype before the slot changes
    val_stores = [s for s in sts if isinstance(s, ast.Expr) and norm(s.value.args[2]) == "value"]
    ok = len(val_stores) >= 1
    from .common import conds_before, conds_before_sym, consistent
    from ..guards import conjuncts
    from ..astutil import norm_nc
    for s in val_stores:
        for p in enumerate_paths(wp):
            cs0 = conds_before(p, s)
            if cs0 is None or not consistent(cs0):
                continue
            cs = conds_before_sym(p, s) or cs0
            atoms = [(norm_nc(a), pol) for t, pl in cs for a, pol in conjuncts(t, pl)]
            if not (("datatype.is_valid(value)", True) in atoms or ("isinstance(value, datatype)", True) in atoms):
                ok = False
    ctx.check("_Commando.WriteProperty:validates-before-slot-change", ok, where(m, wp),
              "a commanded value reaches the slot without having been checked against the commandable datatype: a refused write (wrong type) leaves the slot changed, and blocks later writes when it is the highest priority")
    # what is written to the present value is the recomputed winner
    red = [s for s in walk_shallow(wp) if isinstance(s, ast.Assign) and norm(s.targets[0]) == "property" and norm(s.value) == "presentValue"]
    ctx.check("_Commando.WriteProperty:writes-present-value", len(red) == 1, where(m, wp), "the base write after a command must target the present value")


@rule("C17.R5", "minimum on time holds a new active state, minimum off time a new inactive state, at priority 6, released afterwards", floor=4, engines="E1 facts")
def r5(ctx):
    prog = ctx.prog
    c = prog.cls(MOD, "MinOnOffTask")
    m = c.module
    f = c.methods.get("present_value_change")
    if f is None:
        raise AnchorMissing("MinOnOffTask.present_value_change")
    ev = Evaluator(prog, m, c)
    nv = f.args.args[2].arg
    got = {}
    for s in [x for x in walk_shallow(f) if isinstance(x, ast.Assign) and norm(x.targets[0]) == "task_delay"]:
        which = [v for v in ("active", "inactive") if ev.may_hold(facts_at(s), {nv: v})]
        attr = [prog.try_const(m, a.args[1]) for a in calls_in(s) if norm(a.func) == "getattr" and len(a.args) >= 2]
        # (the loader rewrites getattr(x, "name") with a constant name to x.name)
        attr += [a.attr for a in ast.walk(s.value) if isinstance(a, ast.Attribute) and a.attr.startswith("minimum")]
        if len(which) == 1 and attr:
            got[which[0]] = attr[0]
    ctx.check("MinOnOffTask:active->minimumOnTime", got.get("active") == "minimumOnTime", where(m, f), "a new ACTIVE state must be held for Minimum_On_Time (found %r)" % got.get("active"))
    ctx.check("MinOnOffTask:inactive->minimumOffTime", got.get("inactive") == "minimumOffTime", where(m, f), "a new INACTIVE state must be held for Minimum_Off_Time (found %r)" % got.get("inactive"))
    w = [x for x in calls_in(f) if norm(x.func) == "self.binary_obj.WriteProperty"]
    ok = len(w) == 1 and prog.try_const(m, w[0].args[0]) == "presentValue" and norm(w[0].args[1]) == nv and {a.arg: prog.try_const(m, a.value) for a in w[0].keywords} == {"priority": 6}
    it = [x for x in calls_in(f) if self_call(x) == "install_task"]
    ok = ok and len(it) == 1 and {a.arg: norm(a.value) for a in it[0].keywords} == {"delta": "task_delay"} and w and w[0].lineno < it[0].lineno
    ctx.check("MinOnOffTask:holds-at-priority-6", ok, where(m, f), "the new state is commanded at priority 6 and the release is scheduled after the minimum time")
    # every hold gets its own release time: on each path that commands priority 6 the task is (re)installed after it -
    # also when a release is still pending from the previous state (install_task moves a scheduled task)
    from ..paths import enumerate_paths as _ep
    okh = True
    nh = 0
    for p_ in _ep(f):
        if p_.term == "raise":
            continue
        cs_ = p_.calls()
        wi = [i for i, x in enumerate(cs_) if norm(x.func) == "self.binary_obj.WriteProperty"]
        ii = [i for i, x in enumerate(cs_) if self_call(x) == "install_task"]
        if wi:
            nh += 1
            okh = okh and bool(ii) and ii[-1] > wi[-1]
    ctx.check("MinOnOffTask:every-hold-timed", okh and nh >= 1, where(m, f), "a state commanded at priority 6 must always get its release scheduled (a pending release of the previous state does not do: it fires at the old time)")
    rets = [r for r in walk_shallow(f) if isinstance(r, ast.Return)]
    ok = any(("old_value == new_value" in t or "%s == %s" % (f.args.args[1].arg, nv) == t) and p for r in rets for t, p in atom_texts(facts_at(r))) and \
        any(t == "task_delay" and not p for r in rets for t, p in atom_texts(facts_at(r)))
    ctx.check("MinOnOffTask:only-on-change-with-delay", ok, where(m, f), "nothing is held when the value did not change or no minimum time is configured")
    t = c.methods.get("process_task")
    w = [x for x in calls_in(t) if norm(x.func) == "self.binary_obj.WriteProperty"] if t else []
    ok = len(w) == 1 and prog.try_const(m, w[0].args[0]) == "presentValue" and prog.try_const(m, w[0].args[1]) == () and {a.arg: prog.try_const(m, a.value) for a in w[0].keywords} == {"priority": 6}
    ctx.check("MinOnOffTask.process_task:releases-priority-6", ok, where(m, t or c.node), "when the minimum time is over priority 6 is relinquished")
    init = c.methods["__init__"]
    ok = any("_property_monitors['presentValue'].append" in norm(x.func).replace('"', "'") for x in calls_in(init))
    ctx.check("MinOnOffTask.__init__:monitors-present-value", ok, where(m, init), "the task must be notified of every present-value change")


@rule("C17.R6", "every commandable class lists the Commandable mix-in before the object class (its WriteProperty comes first in the MRO)", floor=20, engines="E0 MRO")
def r6(ctx):
    prog = ctx.prog
    m = prog.module(MOD)
    n = 0
    for c in m.classes.values():
        calls = [b for b in c.node.bases if isinstance(b, ast.Call) and norm(b.func) == "Commandable"]
        if not calls:
            continue
        n += 1
        ok = c.node.bases[0] is calls[0]
        ctx.check("%s:mixin-first" % c.name, ok, c.where(), "Commandable(...) must be the first base: otherwise the object's plain WriteProperty shadows the commandable one")
        mro = prog.mro_names(c)
        objs = [x for x in mro if x.endswith("Object") and x != c.name and x != "Object"]
        ctx.check("%s:has-object-base" % c.name, len(objs) >= 1, c.where(), "a commandable class must also derive from its BACnet object class")
        if "MinOnOff" in mro:
            ctx.check("%s:minonoff-after-commandable" % c.name, mro.index("MinOnOff") > 1 and mro.index("MinOnOff") < mro.index(objs[0]), c.where(), "MinOnOff must sit between the Commandable mix-in and the object class")
    ctx.count("commandable_classes", n)


@rule("C17.R7", "every commandable object has its own sixteen slots: the priority array is created per instance, never shared through a property default", floor=3, engines="E0/E1")
def r7(ctx):
    prog = ctx.prog
    m, f, k, meth = commando(ctx)
    init = meth["__init__"]
    # a fresh PriorityArray() is stored on the instance whenever none was handed in
    made = [x for x in ast.walk(init) if isinstance(x, ast.Call) and norm(x.func) == "setattr" and len(x.args) == 3 and norm(x.args[0]) == "self"
            and isinstance(x.args[2], ast.Call) and norm(x.args[2].func) == "PriorityArray" and not x.args[2].args]
    ok = len(made) == 1
    if ok:
        ev = Evaluator(prog, m)
        fa = facts_at(made[0])
        key = [norm(a.left) for a, pol in atoms_of_facts(fa) if isinstance(a, ast.Compare) and len(a.ops) == 1 and isinstance(a.ops[0], (ast.In, ast.NotIn)) and "kwargs" in norm(a.comparators[0])]
        ok = len(fa) == 1 and len(key) == 1 and norm(made[0].args[1]) == key[0]
    ctx.check("_Commando.__init__:own-priority-array", ok, where(m, init), "an object constructed without a priority array must get a new PriorityArray() of its own")
    # property declarations of the mix-in and of every *CmdObject: no default that is an object built once at class-definition time
    n = 0
    decls = [x for x in ast.walk(f) if isinstance(x, ast.Call) and isinstance(x.func, ast.Name) and x.func.id.endswith("Property")]
    for cname, c in m.classes.items():
        node = c.attrs.get("properties")
        if node is not None:
            decls += [x for x in ast.walk(node) if isinstance(x, ast.Call) and isinstance(x.func, ast.Name) and x.func.id.endswith("Property")]
    for d in decls:
        n += 1
        dv = next((kw.value for kw in d.keywords if kw.arg == "default"), d.args[2] if len(d.args) > 2 else None)
        shared = isinstance(dv, (ast.Call, ast.List, ast.Dict, ast.Set))
        if shared:
            ctx.bad("%s:shared-default" % norm(d)[:60], where(m, d), "the default %s is evaluated once and stored in every object without a copy: all objects of the class share it (commands leak between objects)" % norm(dv))
    ctx.ok("local.object:property-defaults-not-shared", "py34/bacpypes/local/object.py:1")
    ctx.count("property declarations", n)
    if n < 5:
        raise ShapeError("local.object: only %d property declarations found" % n)
    from .c15 import _fix_length_distinct
    _fix_length_distinct(ctx)


@rule("C17.R8", "every commandable class can be created: the default value the constructor derives from the datatype exists for each datatype a commandable class is built from", floor=20,
      engines="E0 class resolution + E1 facts")
def r8(ctx):
    prog = ctx.prog
    m, f, k, meth = commando(ctx)
    init = meth["__init__"]
    dt = f.args.args[0].arg
    # uses of <datatype>().value and the guards that dominate them
    uses = [n for n in walk_shallow(init) if isinstance(n, ast.Attribute) and n.attr == "value" and isinstance(n.value, ast.Call) and norm(n.value.func) == dt and not n.value.args]
    unguarded = []
    for u in uses:
        at = atom_texts(facts_at(u))
        # the test itself, or a flag computed from it once in the factory
        flags = {norm(s_.targets[0]) for s_ in ast.walk(f) if isinstance(s_, ast.Assign) and len(s_.targets) == 1 and norm(s_.value).replace(" ", "") == "issubclass(%s,Atomic)" % dt}
        if not any((t.replace(" ", "") == "issubclass(%s,Atomic)" % dt or t in flags) and p for t, p in at):
            unguarded.append(u)
    atomic = prog.cls("primitivedata", "Atomic")
    n = 0
    for cname, c in sorted(m.classes.items()):
        for b in c.node.bases:
            if isinstance(b, ast.Call) and norm(b.func) == "Commandable" and b.args:
                n += 1
                dcls = prog.resolve_class_expr(m, b.args[0])
                ok = dcls is not None and (not unguarded or prog.is_subclass(dcls, atomic.module.name, atomic.name))
                ctx.check("%s:constructible[Commandable(%s)]" % (cname, norm(b.args[0])), ok, where(m, c.node),
                          "the constructor computes its default as %s().value, but %s is not an atomic type and has no `value`: the class cannot be instantiated (AttributeError)" % (norm(b.args[0]), norm(b.args[0])))
    if n < 20:
        raise ShapeError("only %d commandable classes found" % n)


@rule("C17.R9", "a commandable object whose present value is currently false (0, 0.0, inactive, '') can still be commanded through the WriteProperty service", floor=1, engines="E5 (shared with C15.R8)")
def r9(ctx):
    from .c15 import write_existence_test
    write_existence_test(ctx)


@rule("C17.R10", "a relinquished slot is emptied in place: no slot of a priority array is ever replaced by an object other slots (or other arrays) share, such as the array's prototype", floor=1, engines="E0 store sites")
def r10(ctx):
    prog = ctx.prog
    m, f, k, meth = commando(ctx)
    wp = meth["WriteProperty"]
    n = 0
    for st in walk_shallow(wp):
        if isinstance(st, ast.Assign) and isinstance(st.targets[0], ast.Subscript):
            base = norm(st.targets[0].value)
            if "priority" in base.lower() or base.startswith("getattr(self, priorityArray"):
                n += 1
                v = st.value
                fresh = isinstance(v, ast.Call) and isinstance(v.func, ast.Name) and v.func.id[:1].isupper()
                ctx.check("_Commando.WriteProperty:slot-replaced[%s]#%d" % (norm(v)[:30], n), fresh and "prototype" not in norm(v), where(m, st),
                          "the slot is replaced by %s, an object that is (or may be) shared: commanding one slot later changes the others" % norm(v))
    nulls = [s_ for s_ in _slot_stores(wp)]
    ctx.check("_Commando.WriteProperty:slots-changed-in-place", len(nulls) >= 4, where(m, wp), "slots are emptied and filled through their own PriorityValue (priority_value.null = .. / setattr(priority_value, choice, ..))")
