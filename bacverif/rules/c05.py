"""C05 - segmented transfers: slicing/counting stride, modulo-256 sequence
arithmetic, flags, in-order acceptance before assembly, window bound,
retransmission handlers, index-vs-sequence-number kinds."""
import ast

from ..report import rule
from ..model import norm, NotConst, calls_in, stores_in, ShapeError, AnchorMissing, is_self_attr
from ..paths import enumerate_paths, facts_at, walk_shallow, enclosing_stmt
from ..guards import conjuncts, Evaluator, atom_texts, atoms_of_facts
from .common import (where, self_call, feasible, path_nodes, subst_locals, same_function, grid, attr_stores, local_defs, body_paths, consistent, path_value)
from .c04 import states, terminal_values

MOD = "appservice"
SEQ_FIELDS = {"apdu.apduSeq", "self.lastSequenceNumber", "self.initialSequenceNumber"}


def _fn(ctx, cname, mname):
    c = ctx.prog.cls(MOD, cname)
    f = c.methods.get(mname)
    if f is None:
        raise AnchorMissing("%s.%s" % (cname, mname))
    ctx.touched("%s.%s.%s" % (MOD, cname, mname))
    return c, f


@rule("C05.R1", "segment counting and slicing use one stride (segmentSize) over the same buffer", floor=10, engines="E0 + finite-domain expression evaluation")
def r1(ctx):
    prog = ctx.prog
    for cname, mname in (("ClientSSM", "indication"), ("ServerSSM", "confirmation")):
        c, f = _fn(ctx, cname, mname)
        apdu = f.args.args[1].arg
        ctxcalls = [x for x in calls_in(f) if self_call(x) == "set_segmentation_context"]
        ctx.check("%s.%s:context" % (cname, mname), len(ctxcalls) == 1 and norm(ctxcalls[0].args[0]) == apdu, where(c.module, f),
                  "the PDU being sent must be made the segmentation context")
        # the number of segments is ceil(len(data) / segmentSize), and 1 for an empty payload: the value self.segmentCount
        # holds when the count has been computed, evaluated along every path for payload lengths around the boundaries
        evc = Evaluator(prog, c.module, c)
        stores = [st for tgt, st in attr_stores(f, "segmentCount")]
        if not stores:
            raise ShapeError("%s.%s: no store into self.segmentCount" % (cname, mname))
        last_line = max(st.lineno for st in stores)
        cut = None
        for st in walk_shallow(f):
            if isinstance(st, ast.stmt) and getattr(st, "lineno", 0) > last_line and not any(st is x or any(st is y for y in ast.walk(x)) for x in stores):
                if cut is None or st.lineno < cut.lineno:
                    cut = st
        bad = []
        npts = 0
        for size in (50, 206):
            for length in (0, 1, size - 1, size, size + 1, 2 * size, 2 * size + 1, 5 * size - 1):
                npts += 1
                env0 = {"%s.pduData" % apdu: bytes(length), "self.segmentSize": size, "self.maxApduLengthAccepted": 1024, "self.ssmSAP.maxApduLengthAccepted": 1024,
                        "self.device_info.maxApduLengthAccepted": 480, "self.device_info.maxNpduLength": 1497, "self.segmentAPDU.pduData": bytes(length)}
                for p_ in enumerate_paths(f):
                    kind, v = path_value(p_, evc, env0, "self.segmentCount", upto=cut)
                    if kind in ("infeasible", "absent"):
                        continue
                    # the stride is the segment size in force on this path (the function may just have chosen it)
                    k2, sz = path_value(p_, evc, env0, "self.segmentSize", upto=cut)
                    sz = sz if k2 == "value" else size
                    want = max(1, -(-length // sz)) if isinstance(sz, int) and sz > 0 else None
                    if kind != "value" or v != want:
                        item = (length, sz, str(v), want if want is not None else -1)
                        if item not in bad:
                            bad.append(item)
        ctx.check("%s.%s:count=ceil(len/segmentSize)-or-1" % (cname, mname), not bad, where(c.module, stores[0]),
                  "segment count for (payload length, segment size): %s" % "; ".join("(%s, %s) -> %s, expected %s" % b_ for b_ in bad[:4]))
        ctx.count("count evaluations", npts)
        # divmod guarded against empty data only (segmentSize is never tested for zero: it is a configured maximum)
    c, f = _fn(ctx, "SSM", "get_segment")
    ev = Evaluator(prog, c.module, c)
    idx = f.args.args[1].arg
    slices = [n for n in ast.walk(f) if isinstance(n, ast.Subscript) and isinstance(n.slice, ast.Slice)]
    slices = [n for n in slices if norm(n.value) == "self.segmentAPDU.pduData"]
    if len(slices) != 1:
        raise ShapeError("SSM.get_segment: expected one slice of self.segmentAPDU.pduData (found %d)" % len(slices))
    sl = slices[0]
    g = grid(**{idx: [0, 1, 2, 7, 255, 256, 300], "self.segmentSize": [1, 50, 206, 1476]})
    lo = subst_locals(f, sl.slice.lower) if sl.slice.lower is not None else ast.Constant(0)
    hi = subst_locals(f, sl.slice.upper) if sl.slice.upper is not None else None
    ok, cx = same_function(ev, lo, g, lambda e: e[idx] * e["self.segmentSize"])
    ctx.check("SSM.get_segment:slice-start", ok, where(c.module, sl), "segment i must start at i*segmentSize (counterexample %r)" % (cx,), facts={"lower": norm(lo)})
    if hi is None:
        ctx.bad("SSM.get_segment:slice-end", where(c.module, sl), "slice has no upper bound: segment would carry the whole rest")
    else:
        ok, cx = same_function(ev, hi, g, lambda e: e[idx] * e["self.segmentSize"] + e["self.segmentSize"])
        ctx.check("SSM.get_segment:slice-end", ok, where(c.module, sl), "segment i must end at (i+1)*segmentSize (counterexample %r)" % (cx,), facts={"upper": norm(hi)})
    ctx.check("SSM.get_segment:slice-step", sl.slice.step is None, where(c.module, sl), "slice with a step")
    # the slice is what is put into the segment, once
    puts = [x for x in calls_in(f) if isinstance(x.func, ast.Attribute) and x.func.attr == "put_data"]
    ok = len(puts) == 1 and (norm(puts[0].args[0]) == norm(sl) or
                             (isinstance(puts[0].args[0], ast.Name) and norm(local_defs(f).get(puts[0].args[0].id, ast.Constant(0))) == norm(sl)))
    ctx.check("SSM.get_segment:payload", ok, where(c.module, f), "the segment's data must be exactly the slice")
    # index bound
    raises = [n for n in walk_shallow(f) if isinstance(n, ast.Raise)]
    okb = False
    for r in raises:
        fa = facts_at(r)
        vals = [(i, n) for i in (0, 1, 2, 3) for n in (1, 2, 3) if ev.must_hold(fa, {idx: i, "self.segmentCount": n, "self.segmentAPDU": True})]
        if vals and set(vals) == {(i, n) for i in (0, 1, 2, 3) for n in (1, 2, 3) if i >= n}:
            okb = True
    ctx.check("SSM.get_segment:index-bound", okb, where(c.module, f), "an index >= segmentCount must be refused")
    # context and append
    c2, f2 = _fn(ctx, "SSM", "set_segmentation_context")
    p = f2.args.args[1].arg
    st = [s for t, s in attr_stores(f2, "segmentAPDU")]
    ctx.check("SSM.set_segmentation_context:stores", len(st) == 1 and norm(st[0].value) == p, where(c2.module, f2), "context must be the given PDU")
    c3, f3 = _fn(ctx, "SSM", "append_segment")
    p = f3.args.args[1].arg
    puts = [x for x in calls_in(f3) if norm(x.func) == "self.segmentAPDU.put_data"]
    ctx.check("SSM.append_segment:appends", len(puts) == 1 and norm(puts[0].args[0]) == "%s.pduData" % p and not facts_at(puts[0])[1:], where(c3.module, f3),
              "each accepted segment's data must be appended once to the context")


def _arith_chain_root(node):
    """outermost +/- chain containing node"""
    p = node
    while True:
        q = getattr(p, "_parent", None)
        if isinstance(q, ast.BinOp) and isinstance(q.op, (ast.Add, ast.Sub)):
            p = q
        else:
            return p


@rule("C05.R2", "sequence-number arithmetic is reduced modulo 256 before it is stored, compared or sent", floor=7, engines="E0 + finite-domain expression evaluation")
def r2(ctx):
    prog = ctx.prog
    m = prog.module(MOD)
    seen = set()
    for cname in ("SSM", "ClientSSM", "ServerSSM"):
        c = prog.cls(MOD, cname)
        for name, f in c.methods.items():
            for n in walk_shallow(f):
                if isinstance(n, ast.BinOp) and isinstance(n.op, (ast.Add, ast.Sub)):
                    ops = {norm(n.left), norm(n.right)}
                    fields = {o for o in ops if o in SEQ_FIELDS or o.endswith(".apduSeq") or o.endswith("SequenceNumber")}
                    if not fields:
                        continue
                    root = _arith_chain_root(n)
                    if id(root) in seen:
                        continue
                    seen.add(id(root))
                    par = getattr(root, "_parent", None)
                    ok = isinstance(par, ast.BinOp) and isinstance(par.op, ast.Mod) and par.left is root and prog.try_const(m, par.right) == 256
                    ctx.check("%s.%s:%s" % (cname, name, norm(root)), ok, where(m, n),
                              "arithmetic on a sequence number is not reduced modulo 256 (it wraps on the wire): %s" % norm(par if isinstance(par, ast.BinOp) else root))
    c, f = _fn(ctx, "SSM", "in_window")
    ev = Evaluator(prog, c.module, c)
    a, b = f.args.args[1].arg, f.args.args[2].arg
    rets = [n for n in walk_shallow(f) if isinstance(n, ast.Return)]
    if len(rets) != 1 or rets[0].value is None:
        raise ShapeError("SSM.in_window: one return expected")
    e = subst_locals(f, rets[0].value)
    g = grid(**{a: [0, 1, 2, 3, 127, 128, 254, 255], b: [0, 1, 2, 127, 128, 254, 255], "self.actualWindowSize": [1, 2, 3, 8, 127]})
    ok, cx = same_function(ev, e, g, lambda env: ((env[a] - env[b]) % 256) < env["self.actualWindowSize"])
    ctx.check("SSM.in_window:formula", ok, where(c.module, rets[0]), "in_window(a, b) must be ((a - b) mod 256) < actualWindowSize (counterexample %r)" % (cx,), facts={"expr": norm(e)})
    # get_segment: sequence number sent is index mod 256
    c, f = _fn(ctx, "SSM", "get_segment")
    idx = f.args.args[1].arg
    st = [s for t, s in stores_in(f) if isinstance(t, ast.Attribute) and t.attr == "apduSeq"]
    ok = len(st) == 1
    if ok:
        ok, cx = same_function(ev, subst_locals(f, st[0].value), grid(**{idx: [0, 1, 255, 256, 257, 600]}), lambda env: env[idx] % 256)
    ctx.check("SSM.get_segment:seq=index%256", ok, where(c.module, f), "segment i must carry sequence number i mod 256")


@rule("C05.R3", "segmented / more-follows flags and window field of every segment", floor=6, engines="E1 paths + finite-domain evaluation")
def r3(ctx):
    prog = ctx.prog
    c, f = _fn(ctx, "SSM", "get_segment")
    ev = Evaluator(prog, c.module, c)
    idx = f.args.args[1].arg
    ps = [p for p in enumerate_paths(f) if p.term != "raise"]
    cases = [(i, n) for n in (1, 2, 3, 300) for i in (0, 1, 2, 255, 256, 299) if i < n]
    results = {"apduSeg": True, "apduMor": True, "apduWin": True, "apduSeq": True}
    detail = {}
    nfeasible = 0
    for i, n in cases:
        env = {idx: i, "self.segmentCount": n, "self.segmentAPDU": True}
        for p in ps:
            if not feasible(p, ev, env):
                continue
            nfeasible += 1
            nodes = path_nodes(p)
            last = {}
            for nd in nodes:
                if isinstance(nd, ast.Assign):
                    for t in nd.targets:
                        if isinstance(t, ast.Attribute) and t.attr in results:
                            last[t.attr] = nd.value
            def val(a):
                if a not in last:
                    return ("unset",)
                try:
                    return ev.value(subst_locals(f, last[a]), env)
                except NotConst:
                    return ("expr", norm(last[a]))
            seg = val("apduSeg")
            if bool(seg) != (n != 1) or not isinstance(seg, (bool, int)):
                results["apduSeg"] = False
                detail["apduSeg"] = (i, n, seg)
            mor = val("apduMor")
            if not isinstance(mor, (bool, int)) or bool(mor) != (i < n - 1):
                results["apduMor"] = False
                detail["apduMor"] = (i, n, mor)
            if n != 1:
                sq = val("apduSeq")
                if sq != i % 256:
                    results["apduSeq"] = False
                    detail["apduSeq"] = (i, n, sq)
                w = val("apduWin")
                want = "self.ssmSAP.proposedWindowSize" if i == 0 else "self.actualWindowSize"
                if w != ("expr", want):
                    results["apduWin"] = False
                    detail["apduWin"] = (i, n, w)
    if not nfeasible:
        raise ShapeError("SSM.get_segment: no feasible path")
    ctx.count("paths", len(ps))
    msgs = {"apduSeg": "segmented flag must be set iff the message has more than one segment",
            "apduMor": "more-follows must be set on every segment but the last",
            "apduSeq": "sequence number must be index mod 256",
            "apduWin": "first segment carries the proposed window, later ones the actual window"}
    for k, ok in results.items():
        ctx.check("SSM.get_segment:%s" % k, ok, where(c.module, f), "%s (index, count, found) = %r" % (msgs[k], detail.get(k)))
    # invoke id / service are copied from the context
    for cls_name, args in (("ConfirmedRequestPDU", ["self.segmentAPDU.apduService"]), ("ComplexAckPDU", ["self.segmentAPDU.apduService", "self.segmentAPDU.apduInvokeID"])):
        cs = [x for x in calls_in(f) if norm(x.func) == cls_name]
        ok = len(cs) == 1 and [norm(a) for a in cs[0].args] == args
        ctx.check("SSM.get_segment:%s-header" % cls_name, ok, where(c.module, f), "segment of a %s must copy %s from the context" % (cls_name, args))
    st = [s for t, s in stores_in(f) if isinstance(t, ast.Attribute) and t.attr == "apduInvokeID"]
    ctx.check("SSM.get_segment:request-invoke-id", len(st) == 1 and norm(st[0].value) == "self.invokeID", where(c.module, f), "request segments carry the transaction's invoke ID")
    st = [s for t, s in stores_in(f) if isinstance(t, ast.Attribute) and t.attr == "pduDestination"]
    ctx.check("SSM.get_segment:destination", len(st) == 1 and norm(st[0].value) == "self.pdu_address", where(c.module, f), "segments go to the transaction's peer")


def _acks_go_to_peer(ctx, c, f, cname, mname, nodes, deliver, peer):
    """every segment-ack built on the path is handed to the peer-directed send, never to the application"""
    names = {norm(n.targets[0]) for n in nodes if isinstance(n, ast.Assign) and isinstance(n.value, ast.Call) and norm(n.value.func) == "SegmentAckPDU"}
    if not names:
        return
    up = [n for n in nodes if isinstance(n, ast.Call) and self_call(n) == deliver and n.args and norm(n.args[0]) in names]
    down = [n for n in nodes if isinstance(n, ast.Call) and self_call(n) == peer and n.args and norm(n.args[0]) in names]
    ctx.check("%s.%s:segment-acks-go-to-the-peer" % (cname, mname), not up and len(down) == len(names), where(c.module, (up or [f])[0]),
              "a segment-ack is handed to self.%s (toward the application) instead of self.%s (toward the peer): the sender never hears about the gap" % (deliver, peer))


def _receiver(ctx, cname, mname, deliver, nak_srv):
    prog = ctx.prog
    c, f = _fn(ctx, cname, mname)
    ev = Evaluator(prog, c.module, c)
    apdu = f.args.args[1].arg
    key_s, key_l = "%s.apduSeq" % apdu, "self.lastSequenceNumber"
    apps = [x for x in calls_in(f) if self_call(x) == "append_segment"]
    if len(apps) != 1:
        raise ShapeError("%s.%s: expected exactly one append_segment call (found %d)" % (cname, mname, len(apps)))
    app = apps[0]
    ctx.check("%s.%s:append-arg" % (cname, mname), len(app.args) == 1 and norm(app.args[0]) == apdu, where(c.module, app), "the received segment itself must be appended")
    fa = facts_at(app)
    pts = [0, 1, 2, 100, 254, 255]
    reach = {(s, l) for s in pts for l in pts if ev.may_hold(fa, {key_s: s, key_l: l})}
    want = {(s, l) for s in pts for l in pts if s == (l + 1) % 256}
    ctx.check("%s.%s:in-order-guard" % (cname, mname), reach == want, where(c.module, app),
              "append_segment must be reached exactly when apduSeq == (lastSequenceNumber + 1) mod 256; extra (seq,last) pairs reaching it: %r, missing: %r"
              % (sorted(reach - want)[:4], sorted(want - reach)[:4]), facts={"guards": [repr(x) for x in fa]})
    # segmented / type guards
    segs = [v for v in (True, False) if ev.may_hold(fa, {"%s.apduSeg" % apdu: v})]
    ctx.check("%s.%s:segmented-guard" % (cname, mname), segs == [True], where(c.module, app), "an unsegmented PDU must not be appended")
    ps = enumerate_paths(f)
    ctx.count("paths", len(ps))
    peer = "request" if deliver == "response" else "response"       # the method of this state machine that sends toward the other device
    for p in ps:
        if p.term == "raise":
            continue
        nodes = path_nodes(p)
        has_app = any(n is app for n in nodes)
        calls = [n for n in nodes if isinstance(n, ast.Call)]
        delivered = [n for n in calls if self_call(n) == deliver and n.args and norm(n.args[0]) == "self.segmentAPDU"]
        acks = [n for n in calls if norm(n.func) == "SegmentAckPDU"]
        if not has_app:
            ctx.check("%s.%s:no-delivery-without-append" % (cname, mname), not delivered, where(c.module, f), "assembled PDU delivered on a path that rejected the segment")
            # a rejected segment must leave the receive state alone (what was appended stays appended: rolling the
            # expected number back makes the retransmitted window append its first segments a second time)
            touched = [norm(n.targets[0]) for n in nodes if isinstance(n, ast.Assign) and norm(n.targets[0]) in (key_l, "self.segmentAPDU", "self.initialSequenceNumber")]
            ctx.check("%s.%s:reject-keeps-receive-state" % (cname, mname), not touched, where(c.module, f),
                      "a path that does not append the segment modifies %s" % touched)
            # out-of-order path: negative ack
            if feasible(p, ev, {key_s: 5, key_l: 1, "%s.apduSeg" % apdu: True}) and not feasible(p, ev, {key_s: 2, key_l: 1, "%s.apduSeg" % apdu: True}) \
                    and any(isinstance(nd, ast.Compare) for nd, _ in p.conds()):
                ok = len(acks) == 1 and prog.try_const(c.module, acks[0].args[0]) in (1, True) and prog.try_const(c.module, acks[0].args[1]) == nak_srv \
                    and norm(acks[0].args[2]) == "self.invokeID"
                ctx.check("%s.%s:negative-ack" % (cname, mname), ok, where(c.module, f), "an out-of-order segment must be answered with one negative segment-ack (nak=1, srv=%d) carrying the invoke ID" % nak_srv)
                sent = [n for n in calls if self_call(n) == peer and n.args and isinstance(n.args[0], ast.Name)]
                ctx.check("%s.%s:negative-ack-sent" % (cname, mname), len(sent) == 1, where(c.module, f), "negative ack not sent to the peer (self.%s) exactly once" % peer)
            _acks_go_to_peer(ctx, c, f, cname, mname, nodes, deliver, peer)
            continue
        _acks_go_to_peer(ctx, c, f, cname, mname, nodes, deliver, peer)
        i_app = nodes.index(app)
        upd = [(i, n) for i, n in enumerate(nodes) if isinstance(n, ast.Assign) and norm(n.targets[0]) == key_l and i > i_app]
        ok = len(upd) == 1
        if ok:
            ok, cx = same_function(ev, upd[0][1].value, grid(**{key_l: [0, 1, 254, 255]}), lambda e: (e[key_l] + 1) % 256)
        ctx.check("%s.%s:advance-last" % (cname, mname), ok, where(c.module, f), "after appending, lastSequenceNumber must advance by one modulo 256 exactly once")
        more_t = feasible(p, ev, {"%s.apduMor" % apdu: True})
        more_f = feasible(p, ev, {"%s.apduMor" % apdu: False})
        if more_f and not more_t:
            ok = len(delivered) == 1 and nodes.index(delivered[0]) > i_app
            ctx.check("%s.%s:deliver-when-complete" % (cname, mname), ok, where(c.module, f), "the final segment must hand the assembled PDU on exactly once, after the append")
            ok = len(acks) == 1 and prog.try_const(c.module, acks[0].args[0]) in (0, False) and prog.try_const(c.module, acks[0].args[1]) == nak_srv \
                and norm(acks[0].args[3]) == key_l and nodes.index(acks[0]) > upd[0][0] if upd else False
            ctx.check("%s.%s:final-ack" % (cname, mname), ok, where(c.module, f), "the final segment must be acknowledged (positive ack of the last sequence number)")
        elif more_t and not more_f:
            ctx.check("%s.%s:no-early-delivery" % (cname, mname), not delivered, where(c.module, f), "assembled PDU delivered while more segments follow")
            # end of window: ack with last sequence number and move the window
            if acks:
                a = acks[0]
                ok = prog.try_const(c.module, a.args[0]) in (0, False) and prog.try_const(c.module, a.args[1]) == nak_srv
                ctx.check("%s.%s:window-ack" % (cname, mname), ok, where(c.module, f), "end-of-window ack must be positive with the right server flag")
                mv = [n for n in nodes if isinstance(n, ast.Assign) and norm(n.targets[0]) == "self.initialSequenceNumber"]
                ctx.check("%s.%s:window-moves" % (cname, mname), len(mv) == 1 and norm(mv[0].value) == key_l, where(c.module, f), "the window must move to the last accepted sequence number")
            timers = [n for n in calls if self_call(n) in ("restart_timer", "start_timer", "set_state")]
            ctx.check("%s.%s:timer-rearmed" % (cname, mname), bool(timers), where(c.module, f), "segment timer not re-armed while waiting for more segments")
        else:
            ctx.bad("%s.%s:more-follows-decision" % (cname, mname), where(c.module, f), "a path after the append does not depend on the more-follows flag")
    # end-of-window test formula
    tests = [n for n in walk_shallow(f) if isinstance(n, ast.Compare) and "self.actualWindowSize" in norm(n) and "apduSeq" in norm(n)]
    ok = len(tests) == 1
    if ok:
        g = grid(**{key_s: [0, 1, 2, 3, 255], "self.initialSequenceNumber": [0, 1, 254, 255], "self.actualWindowSize": [1, 2, 4]})
        ok, cx = same_function(ev, tests[0], g, lambda e: e[key_s] == (e["self.initialSequenceNumber"] + e["self.actualWindowSize"]) % 256)
    ctx.check("%s.%s:end-of-window-test" % (cname, mname), ok, where(c.module, f), "end of window is apduSeq == (initialSequenceNumber + actualWindowSize) mod 256")


@rule("C05.R4", "a segment is appended only when it is the next in order; out-of-order segments are nak'ed; the assembled PDU is delivered once, after the last segment",
      floor=16, engines="E1 facts/paths + E5")
def r4(ctx):
    _receiver(ctx, "ClientSSM", "segmented_confirmation", "response", 0)
    _receiver(ctx, "ServerSSM", "segmented_request", "request", 1)
    # first segment: context established from segment 0 only
    c, f = _fn(ctx, "ClientSSM", "await_confirmation")
    ev = Evaluator(ctx.prog, c.module, c)
    apdu = f.args.args[1].arg
    cs = [x for x in calls_in(f) if self_call(x) == "set_segmentation_context"]
    ok = len(cs) == 1
    if ok:
        fa = facts_at(cs[0])
        reach = [s for s in (0, 1, 2, 255) if ev.may_hold(fa, {"%s.apduSeq" % apdu: s, "%s.apduSeg" % apdu: True})]
        ok = reach == [0] and not ev.may_hold(fa, {"%s.apduSeq" % apdu: 0, "%s.apduSeg" % apdu: False})
    ctx.check("ClientSSM.await_confirmation:first-segment", ok, where(c.module, f), "a segmented confirmation may only be started by segment 0 of a segmented ack")
    # lastSequenceNumber starts at 0 with the context (the first segment is already in the context)
    for cname, mname in (("ClientSSM", "await_confirmation"), ("ClientSSM", "segmented_request"), ("ServerSSM", "idle")):
        c, f = _fn(ctx, cname, mname)
        for call in [x for x in calls_in(f) if self_call(x) == "set_segmentation_context"]:
            blk = getattr(enclosing_stmt(call), "_parent", None)
            sibs = []
            for fld in ("body", "orelse"):
                lst = getattr(blk, fld, None)
                if isinstance(lst, list) and enclosing_stmt(call) in lst:
                    sibs = lst[lst.index(enclosing_stmt(call)):]
            z = [s for s in sibs if isinstance(s, ast.Assign) and norm(s.targets[0]) == "self.lastSequenceNumber" and ctx.prog.try_const(c.module, s.value) == 0]
            ctx.check("%s.%s:last-starts-at-0" % (cname, mname), len(z) == 1, where(c.module, call), "after taking segment 0 as context, lastSequenceNumber must be 0")


def fill_window_loop(ctx):
    prog = ctx.prog
    c, f = _fn(ctx, "SSM", "fill_window")
    seq = f.args.args[1].arg
    loops = [n for n in walk_shallow(f) if isinstance(n, (ast.For, ast.While))]
    if len(loops) != 1 or not isinstance(loops[0], ast.For):
        raise ShapeError("SSM.fill_window: one for-loop expected")
    return c, f, loops[0], seq


def burst_bound(ctx, c, f, lp, seq):
    """(also registered as C12.R5) one burst asks for exactly actualWindowSize consecutive segments"""
    prog = ctx.prog
    # the segment numbers the loop asks for, computed for a grid of (first segment, window): start, start+1, .. start+window-1
    ix = norm(lp.target)
    gets = [x for x in calls_in(lp) if self_call(x) == "get_segment"]
    ev = Evaluator(prog, c.module, c)
    ok_bound = ok_cons = len(gets) == 1 and isinstance(lp.target, ast.Name)
    found = norm(lp.iter)
    if ok_bound:
        arg = subst_locals(f, gets[0].args[0])
        for s0 in (0, 1, 5, 255):
            for w in (1, 2, 4, 8, 127):
                env = {seq: s0, "self.actualWindowSize": w}
                try:
                    its = list(ev.value(lp.iter, env))
                    if len(its) > 4096:
                        raise NotConst("too long")
                    asked = []
                    for v in its:
                        e2 = dict(env)
                        e2[ix] = v
                        asked.append(ev.value(arg, e2))
                except (NotConst, TypeError, ValueError) as ex:
                    ok_bound = ok_cons = False
                    found = "%s: %s" % (norm(lp.iter), ex)
                    break
                if len(asked) != w:
                    ok_bound = False
                    found = "%d passes for a window of %d" % (len(asked), w)
                if asked[:w] != [s0 + k for k in range(min(w, len(asked)))]:
                    ok_cons = False
            if not ok_bound and not ok_cons:
                break
    ctx.check("SSM.fill_window:bound", ok_bound, where(c.module, lp), "the burst must be limited to actualWindowSize passes (found %s)" % found)
    ctx.check("SSM.fill_window:consecutive", ok_cons, where(c.module, lp), "iteration k must send segment start+k")


@rule("C05.R5", "no more than the window is sent per burst; fill_window is the only multi-segment sender", floor=6, engines="E0/E1")
def r5(ctx):
    prog = ctx.prog
    c, f = _fn(ctx, "SSM", "fill_window")
    seq = f.args.args[1].arg
    loops = [n for n in walk_shallow(f) if isinstance(n, (ast.For, ast.While))]
    if len(loops) != 1 or not isinstance(loops[0], ast.For):
        raise ShapeError("SSM.fill_window: one for-loop expected")
    lp = loops[0]
    burst_bound(ctx, c, f, lp, seq)
    sends = [x for x in calls_in(lp) if norm(x.func) in ("self.ssmSAP.request", "self.request", "self.response")]
    ctx.check("SSM.fill_window:one-send-per-iteration", len(sends) == 1 and not facts_at(sends[0], stop=lp), where(c.module, lp), "each iteration sends exactly one segment unconditionally")
    # per pass through the loop body: the final segment (more-follows false) ends the burst and records sentAllSegments,
    # any other segment goes on to the next pass without recording it
    ok = True
    seen = {True: 0, False: 0}
    for p_ in body_paths(lp.body):
        if p_.term == "raise" or not consistent(p_.conds()):
            continue
        mor = None
        for t_, pol_ in p_.conds():
            for a_, ap_ in conjuncts(t_, pol_):
                if norm(a_).endswith(".apduMor"):
                    mor = ap_
        marks = [n for n in path_nodes(p_) if isinstance(n, ast.Assign) and norm(n.targets[0]) == "self.sentAllSegments" and prog.try_const(c.module, n.value) is True]
        if mor is None:
            ok = False
        elif mor:
            seen[True] += 1
            ok = ok and p_.term in (None, "continue", "fall") and not marks
        else:
            seen[False] += 1
            ok = ok and p_.term in ("break", "return") and len(marks) == 1
    ok = ok and seen[True] >= 1 and seen[False] >= 1
    ctx.check("SSM.fill_window:stops-at-last", ok, where(c.module, lp), "the burst must stop at the final segment (not apduMor) and record sentAllSegments")
    # who may call get_segment
    m = prog.module(MOD)
    for cname in ("SSM", "ClientSSM", "ServerSSM"):
        cc = prog.cls(MOD, cname)
        for name, fn in cc.methods.items():
            for call in calls_in(fn):
                if self_call(call) == "get_segment":
                    okc = (cname == "SSM" and name == "fill_window") or (len(call.args) == 1 and prog.try_const(m, call.args[0], default=None) == 0)
                    ctx.check("%s.%s:get_segment(%s)" % (cname, name, norm(call.args[0]) if call.args else ""), okc, where(m, call),
                              "segments other than segment 0 may only be sent by fill_window (window bound)")
    # sentAllSegments gates the transition out of the sending state
    for cname, mname in (("ClientSSM", "segmented_request"), ("ServerSSM", "segmented_response")):
        cc, fn = _fn(ctx, cname, mname)
        evc = Evaluator(prog, cc.module, cc)
        for call in calls_in(fn):
            if self_call(call) == "fill_window":
                fa = facts_at(call, check_kills=False)     # the guards as evaluated (the branch then moves the window)
                apdu = fn.args.args[1].arg
                # the window moves on for every in-window ack except the final one: the final ack is the one that acknowledges
                # the last segment (sequence number (segmentCount - 1) mod 256) after everything was sent.  An earlier number -
                # e.g. the negative ack for a gap in the last window - must trigger the retransmission, not the completion.
                ks, kn, ka = "%s.apduSeq" % apdu, "self.segmentCount", "self.sentAllSegments"
                table = {}
                for sent in (True, False):
                    for seq in (1, 2, 3):
                        table[(sent, seq)] = evc.may_hold(fa, {ka: sent, ks: seq, kn: 4})
                want = {(sent, seq): not (sent and seq == 3) for sent in (True, False) for seq in (1, 2, 3)}
                ctx.check("%s.%s:burst-unless-final-ack" % (cname, mname), table == want, where(cc.module, call),
                          "with 4 segments, an in-window ack must start the next burst unless all segments were sent AND it acknowledges sequence number 3; "
                          "the code does so for (all sent, ack'd number): %s" % sorted(k for k, v in table.items() if v))
                done = [x for x in calls_in(fn) if self_call(x) == "set_state" and any(isinstance(a_, ast.Call) and self_call(a_) == "in_window" for a_, _ in atoms_of_facts(facts_at(x, check_kills=False)))]
                okf = len(done) == 1
                if okf:
                    fd = facts_at(done[0], check_kills=False)
                    reach = sorted((sent, seq) for sent in (True, False) for seq in (1, 2, 3) if evc.may_hold(fd, {ka: sent, ks: seq, kn: 4}))
                    okf = reach == [(True, 3)]
                ctx.check("%s.%s:final-ack-acknowledges-last-segment" % (cname, mname), okf, where(cc.module, done[0] if done else fn),
                          "leaving the sending state on a segment-ack requires: all segments sent and the ack carries the last sequence number (found reachable for %s)" % (reach if done and len(done) == 1 else "no unique transition"))
                # the ack must be inside the window
                inw = [(a, pol) for a, pol in atoms_of_facts(fa) if isinstance(a, ast.Call) and self_call(a) == "in_window"]
                ok = len(inw) == 1 and inw[0][1] is True and [norm(a) for a in inw[0][0].args] == ["%s.apduSeq" % apdu, "self.initialSequenceNumber"]
                ctx.check("%s.%s:ack-in-window" % (cname, mname), ok, where(cc.module, call), "a new burst must be triggered only by an ack inside the current window")
                # next burst starts after the acknowledged segment
                blk = enclosing_stmt(call)._parent
                sibs = blk.body if enclosing_stmt(call) in blk.body else blk.orelse
                st = [s for s in sibs[:sibs.index(enclosing_stmt(call))] if isinstance(s, ast.Assign) and norm(s.targets[0]) == "self.initialSequenceNumber"]
                ok = len(st) == 1
                if ok:
                    ok, cx = same_function(evc, st[0].value, grid(**{"%s.apduSeq" % apdu: [0, 1, 254, 255]}), lambda e: (e["%s.apduSeq" % apdu] + 1) % 256)
                ctx.check("%s.%s:next-burst-start" % (cname, mname), ok, where(cc.module, call), "the next burst must start at (acknowledged sequence number + 1) mod 256")


@rule("C05.R8", "a (re)started segmented request begins from a clean send state", floor=3, engines="E1 paths")
def r8(ctx):
    prog = ctx.prog
    sv = states(ctx)
    c, f = _fn(ctx, "ClientSSM", "indication")
    want = {"self.sentAllSegments": False, "self.segmentRetryCount": 0, "self.initialSequenceNumber": 0}
    n = 0
    for p in enumerate_paths(f):
        if p.term == "raise":
            continue
        nodes = path_nodes(p)
        ent = [i for i, x in enumerate(nodes) if isinstance(x, ast.Call) and self_call(x) == "set_state" and x.args and prog.try_const(c.module, x.args[0], default=-1) == sv["SEGMENTED_REQUEST"]]
        if not ent:
            continue
        n += 1
        for k, v in want.items():
            st = [x for x in nodes[:ent[0]] if isinstance(x, ast.Assign) and norm(x.targets[0]) == k]
            ok = bool(st) and prog.try_const(c.module, st[-1].value, default="?") is v or (bool(st) and prog.try_const(c.module, st[-1].value, default="?") == v and not isinstance(v, bool))
            ctx.check("ClientSSM.indication:restart-resets[%s]" % k.split(".")[1], ok, where(c.module, f),
                      "indication() is re-entered for every retry of the whole request: %s must be reset to %r before SEGMENTED_REQUEST is entered (a stale value from the previous attempt makes the first segment-ack look like the last)" % (k, v))
    if n == 0:
        raise ShapeError("ClientSSM.indication never enters SEGMENTED_REQUEST")
    # the unsegmented branch marks everything as sent
    for p in enumerate_paths(f):
        if p.term == "raise":
            continue
        nodes = path_nodes(p)
        ent = [i for i, x in enumerate(nodes) if isinstance(x, ast.Call) and self_call(x) == "set_state" and x.args and prog.try_const(c.module, x.args[0], default=-1) == sv["AWAIT_CONFIRMATION"]]
        if ent:
            st = [x for x in nodes[:ent[0]] if isinstance(x, ast.Assign) and norm(x.targets[0]) == "self.sentAllSegments"]
            ctx.check("ClientSSM.indication:unsegmented-sent-all", bool(st) and prog.try_const(c.module, st[-1].value) is True, where(c.module, f), "an unsegmented request has sent all its segments")


@rule("C05.R6", "a retransmission handler may not use the window size while it can still be the None stored at state entry", floor=2, engines="E1 field typestate")
def r6(ctx):
    prog = ctx.prog
    sv = states(ctx)
    for cname, state_name, handler in (("ClientSSM", "SEGMENTED_REQUEST", "segmented_request_timeout"),
                                       ("ServerSSM", "SEGMENTED_RESPONSE", "segmented_response_timeout")):
        c = prog.cls(MOD, cname)
        ev = Evaluator(prog, c.module, c)
        # where is the state entered, and with which fields reset?
        entry = None
        for name, f in c.methods.items():
            for call in calls_in(f):
                if self_call(call) == "set_state" and call.args and prog.try_const(c.module, call.args[0], default=-1) == sv[state_name]:
                    entry = (f, call)
        if entry is None:
            raise AnchorMissing("%s never enters %s" % (cname, state_name))
        f, call = entry
        from ..paths import statements_before
        before = statements_before(call, f)
        reset = {}
        for s in before:
            if isinstance(s, ast.Assign) and len(s.targets) == 1 and is_self_attr(s.targets[0]):
                v = prog.try_const(c.module, s.value, default="?")
                reset[s.targets[0].attr] = v
        win_none = reset.get("actualWindowSize", "?") is None
        h = c.methods.get(handler)
        if h is None:
            raise AnchorMissing("%s.%s" % (cname, handler))
        if not win_none:
            ctx.ok("%s.%s:window-known-at-entry" % (cname, handler), where(c.module, f), facts={"reset": {k: repr(v) for k, v in reset.items()}})
            continue
        proxies = {k: v for k, v in reset.items() if k != "actualWindowSize" and isinstance(v, int)}
        nuse = 0
        for p in enumerate_paths(h):
            if p.term == "raise":
                continue
            defined = False
            for n in path_nodes(p):
                if isinstance(n, ast.Assign) and norm(n.targets[0]) == "self.actualWindowSize" and prog.try_const(c.module, n.value, default=1) is not None:
                    defined = True
                uses = False
                if isinstance(n, ast.Call) and self_call(n) == "fill_window":
                    uses = True
                if uses and not defined:
                    nuse += 1
                    # guarded by a proxy that was reset with the window and has changed since?
                    guarded = not feasible(p, ev, {"self.actualWindowSize": None})
                    for k, v in proxies.items():
                        if not feasible(p, ev, {"self.%s" % k: v}):
                            guarded = True
                    ctx.check("%s.%s:fill_window-with-unset-window" % (cname, handler), guarded, where(c.module, n),
                              "the window size is None from entering %s until the first segment-ack; a timeout before that ack reaches range(None) in fill_window (TypeError, the transfer is never retried)" % state_name,
                              facts={"reset_at_entry": {k: repr(v) for k, v in reset.items()}, "path": p.describe()})
        if nuse == 0:
            ctx.ok("%s.%s:no-window-use" % (cname, handler), where(c.module, h))


@rule("C05.R7", "an 8-bit sequence number must not be used as a segment index", floor=3, engines="E0 kind inference")
def r7(ctx):
    prog = ctx.prog
    m = prog.module(MOD)
    # fields of kind seq8: assigned from `% 256` or from a received apduSeq
    seq8 = set()
    for cname in ("SSM", "ClientSSM", "ServerSSM"):
        c = prog.cls(MOD, cname)
        for name, f in c.methods.items():
            for tgt, st in stores_in(f):
                if is_self_attr(tgt) and isinstance(st, ast.Assign):
                    v = st.value
                    if (isinstance(v, ast.BinOp) and isinstance(v.op, ast.Mod) and prog.try_const(m, v.right) == 256) or norm(v).endswith(".apduSeq"):
                        seq8.add("self.%s" % tgt.attr)
    changed = True
    while changed:
        changed = False
        for cname in ("SSM", "ClientSSM", "ServerSSM"):
            c = prog.cls(MOD, cname)
            for name, f in c.methods.items():
                for tgt, st in stores_in(f):
                    if is_self_attr(tgt) and isinstance(st, ast.Assign) and norm(st.value) in seq8 and "self.%s" % tgt.attr not in seq8:
                        seq8.add("self.%s" % tgt.attr)
                        changed = True
    ctx.count("seq8_fields", len(seq8))
    # does fill_window use its parameter as an index (passed to get_segment, which multiplies by segmentSize)?
    c, f = _fn(ctx, "SSM", "fill_window")
    seq = f.args.args[1].arg
    uses_as_index = any(self_call(x) == "get_segment" and seq in {n.id for n in ast.walk(x) if isinstance(n, ast.Name)} for x in calls_in(f))
    n = 0
    for cname in ("SSM", "ClientSSM", "ServerSSM"):
        c = prog.cls(MOD, cname)
        for name, fn in c.methods.items():
            for call in calls_in(fn):
                if self_call(call) == "fill_window" and call.args:
                    n += 1
                    a = norm(call.args[0])
                    bad = uses_as_index and (a in seq8 or "% 256" in a or a.endswith(".apduSeq"))
                    ctx.check("%s.%s:fill_window(%s)" % (cname, name, a), not bad, where(m, call),
                              "fill_window() uses its argument as a segment index (index*segmentSize) but receives the 8-bit sequence number %s: beyond 256 segments the sender restarts at segment 0" % a,
                              facts={"seq8_fields": sorted(seq8)})
    if n == 0:
        raise ShapeError("no fill_window call sites")


@rule("C05.R9", "both sides run the transfer with the negotiated window: min(sender's proposal, own) on the receiving side, and every segment-ack carries it", floor=4, engines="E5 (shared with C12.R4)")
def r9(ctx):
    from .c12 import window_agreement
    window_agreement(ctx)


@rule("C05.R10", "a lost segment can be repaired: for the same configured segment timeout the side that waits for segments outlasts the side that retransmits them", floor=12, engines="E5 finite-domain expression evaluation")
def r10(ctx):
    prog = ctx.prog
    RECV = {"ClientSSM": ("SEGMENTED_CONFIRMATION", ["segmented_confirmation"]), "ServerSSM": ("SEGMENTED_REQUEST", ["segmented_request"])}
    SEND = {"ClientSSM": ("SEGMENTED_REQUEST", ["segmented_request", "segmented_request_timeout"]), "ServerSSM": ("SEGMENTED_RESPONSE", ["segmented_response", "segmented_response_timeout"])}
    K = "self.segmentTimeout"
    vals = {"recv": [], "send": []}
    for cname in ("ClientSSM", "ServerSSM"):
        c = prog.cls(MOD, cname)
        ev = Evaluator(prog, c.module, c)
        for side, table in (("recv", RECV), ("send", SEND)):
            state, handlers = table[cname]
            sites = []
            for name, f in c.methods.items():
                for call in calls_in(f):
                    if self_call(call) == "set_state" and len(call.args) >= 2 and norm(call.args[0]) == state:
                        sites.append((name, call, call.args[1]))
                    if self_call(call) in ("start_timer", "restart_timer") and name in handlers and call.args:
                        sites.append((name, call, call.args[0]))
            for name, call, arg in sites:
                try:
                    v = ev.value(arg, {K: 1000})
                    v2 = ev.value(arg, {K: 3000})
                except (NotConst, TypeError):
                    ctx.bad("%s.%s:%s-timer[%s]" % (cname, name, side, norm(arg)), where(c.module, call), "timer %s is not a function of the configured segment timeout" % norm(arg))
                    continue
                vals[side].append((cname, name, call, v, v2))
    if len(vals["recv"]) < 8 or len(vals["send"]) < 6:
        raise ShapeError("segment timers: %d receiving and %d sending sites found" % (len(vals["recv"]), len(vals["send"])))
    smax = max(v for _, _, _, v, _ in vals["send"])
    smax2 = max(v for _, _, _, _, v in vals["send"])
    n = {}
    for cname, name, call, v, v2 in vals["recv"]:
        n[(cname, name)] = n.get((cname, name), 0) + 1
        ctx.check("%s.%s:receiver-outlasts-retransmission#%d" % (cname, name, n[(cname, name)]), v > smax and v2 > smax2, where(prog.cls(MOD, cname).module, call),
                  "waiting for the next segment for %s ms while the sender retransmits after %s ms (segment timeout 1000 on both sides): the receiver gives up at the moment the repair is sent" % (v, smax))
    for cname, name, call, v, v2 in vals["send"]:
        n[(cname, name)] = n.get((cname, name), 0) + 1
        ctx.check("%s.%s:retransmits-after-Tseg#%d" % (cname, name, n[(cname, name)]), v == 1000 and v2 == 3000, where(prog.cls(MOD, cname).module, call), "the sender's segment timer must be the configured segment timeout (found %s for 1000)" % v)


@rule("C05.R11", "when the reply to a request is lost the whole request is sent again: a segmented request goes through the segmented-request state machine again, not just its first segment", floor=1,
      engines="E1 paths")
def r11(ctx):
    c, f = _fn(ctx, "ClientSSM", "await_confirmation_timeout")
    n = 0
    for p_ in enumerate_paths(f):
        if p_.term == "raise":
            continue
        calls = p_.calls()
        if any(self_call(x) == "abort" for x in calls):
            continue
        n += 1
        again = [x for x in calls if self_call(x) == "indication" and len(x.args) == 1 and norm(x.args[0]) == "self.segmentAPDU"]
        direct = [x for x in calls if self_call(x) in ("request", "fill_window")]
        single = any(norm(t).replace(" ", "") in ("self.segmentCount==1", "self.segmentCount<=1", "self.segmentCount<2") and pol for t, pol in p_.conds())
        ok = (len(again) == 1 and not direct) or (bool(direct) and single)
        ctx.check("ClientSSM.await_confirmation_timeout:whole-request-again", ok, where(c.module, f),
                  "a retry must hand the saved request to indication() again (which segments it and waits for the segment-acks); sending segment 0 alone strands a request of several segments")
    if n == 0:
        raise ShapeError("ClientSSM.await_confirmation_timeout: no retry path found")


@rule("C05.R12", "a duplicated (late) segment-ack after the last segment of a request is harmless: while waiting for the confirmation it neither aborts nor completes the transaction", floor=2,
      engines="E1 paths + E5")
def r12(ctx):
    prog = ctx.prog
    c, f = _fn(ctx, "ClientSSM", "await_confirmation")
    apdu = f.args.args[1].arg
    ev = Evaluator(prog, c.module, c)
    sa = prog.cls("apdu", "SegmentAckPDU")
    code = prog.const(sa.module, sa.attrs["pduType"], sa)
    n = 0
    ok = True
    why = ""
    for p_ in enumerate_paths(f):
        if not feasible(p_, ev, {"%s.apduType" % apdu: code, "isinstance:%s" % apdu: "SegmentAckPDU"}):
            continue
        n += 1
        calls = [self_call(x) for x in p_.calls()]
        if p_.term == "raise" or "abort" in calls or "set_state" in calls or "response" in calls or "request" in calls:
            ok = False
            why = p_.describe()[:160]
    # the same duplicate can arrive one state later: the first segment of a segmented confirmation has overtaken it
    c2, f2 = _fn(ctx, "ClientSSM", "segmented_confirmation")
    apdu2 = f2.args.args[1].arg
    n2 = 0
    ok2 = True
    for p_ in enumerate_paths(f2):
        if not feasible(p_, ev, {"%s.apduType" % apdu2: code, "isinstance:%s" % apdu2: "SegmentAckPDU"}):
            continue
        n2 += 1
        calls2 = [self_call(x) for x in p_.calls()]
        if p_.term == "raise" or "abort" in calls2 or "set_state" in calls2 or "response" in calls2:
            ok2 = False
    ctx.check("ClientSSM.segmented_confirmation:stray-segment-ack-ignored", ok2 and n2 >= 1, where(c2.module, f2),
              "a segment-ack for the request that arrives (again) after the first segment of the confirmation must be ignored, not answered with an abort")
    ctx.check("ClientSSM.await_confirmation:stray-segment-ack-ignored", ok and n >= 1, where(c.module, f),
              "a segment-ack that arrives (again) while the confirmation is awaited must be ignored, not answered with an abort or an exception: %s" % why)


@rule("C05.R13", "a negative segment-ack is acted on: only an ack outside the window is ignored as a duplicate, the nak of an in-window segment moves the sender back to the segment asked for", floor=2,
      engines="E1 paths + E5")
def r13(ctx):
    prog = ctx.prog
    sa = prog.cls("apdu", "SegmentAckPDU")
    code = prog.const(sa.module, sa.attrs["pduType"], sa)
    for cname, mname in (("ClientSSM", "segmented_request"), ("ServerSSM", "segmented_response")):
        c, f = _fn(ctx, cname, mname)
        apdu = f.args.args[1].arg
        ev = Evaluator(prog, c.module, c)
        inw = [x for x in calls_in(f) if self_call(x) == "in_window"]
        ok = len(inw) >= 1
        n = 0
        if ok:
            key = norm(inw[0])
            for nak in (True, False):
                env = {"%s.apduType" % apdu: code, "isinstance:%s" % apdu: "SegmentAckPDU", key: True, "%s.apduNak" % apdu: nak, "self.sentAllSegments": False}
                for p_ in enumerate_paths(f):
                    if p_.term == "raise" or not feasible(p_, ev, env):
                        continue
                    calls = [self_call(x) for x in p_.calls()]
                    if "abort" in calls:
                        continue
                    n += 1
                    if "fill_window" not in calls and "set_state" not in calls:
                        ok = False
        ctx.check("%s.%s:in-window-ack-acted-on" % (cname, mname), ok and n >= 2, where(c.module, f),
                  "an ack (positive or negative) for a segment inside the window must make the sender go on from it; only an ack outside the window is a duplicate to ignore")
