"""C06 - routers deliver each packet once: hop count, never back onto the
arrival network, source address, last hop, process/forward decision table,
outbound addressing and parking."""
import ast

from ..report import rule
from ..model import norm, NotConst, calls_in, stores_in, ShapeError, AnchorMissing, is_self_attr
from ..paths import enumerate_paths, facts_at, walk_shallow, enclosing_stmt, enclosing_loops, statements_before
from ..guards import Evaluator, atom_texts, atoms_of_facts, conjuncts
from .common import where, path_nodes, same_function, grid, feasible
from .c08 import _addr_types

MOD = "netservice"


def _sap(ctx):
    c = ctx.prog.cls(MOD, "NetworkServiceAccessPoint")
    for n in ("process_npdu", "indication"):
        if n not in c.methods:
            raise AnchorMissing("NetworkServiceAccessPoint.%s" % n)
    return c


def _forward_sends(f, ad):
    """calls that send a forwarded packet downstream: <x>adapter.process_npdu(...) with a copy of newpdu"""
    out = []
    for x in calls_in(f):
        if isinstance(x.func, ast.Attribute) and x.func.attr == "process_npdu" and isinstance(x.func.value, ast.Name) and x.args and "newpdu" in norm(x.args[0]):
            out.append(x)
    return out


@rule("C06.R1", "every forward is guarded by a non-zero hop count and sends a copy whose hop count is one lower; outbound packets start at 255", floor=5, engines="E1 facts + E5")
def r1(ctx):
    prog = ctx.prog
    c = _sap(ctx)
    m = c.module
    f = c.methods["process_npdu"]
    ad, np = f.args.args[1].arg, f.args.args[2].arg
    ev = Evaluator(prog, m, c)
    sends = _forward_sends(f, ad)
    if len(sends) < 3:
        raise ShapeError("process_npdu: %d forwarding sends found" % len(sends))
    key = "%s.npduHopCount" % np
    decs = [s for s in walk_shallow(f) if isinstance(s, ast.AugAssign) and norm(s.target) == "newpdu.npduHopCount"]
    okd = len(decs) == 1 and isinstance(decs[0].op, ast.Sub) and prog.try_const(m, decs[0].value) == 1
    ctx.check("process_npdu:hop-decrement", okd, where(m, f), "the forwarded copy's hop count must be decremented by exactly one, once")
    mk = [s for s in walk_shallow(f) if isinstance(s, ast.Assign) and norm(s.targets[0]) == "newpdu" and "deepcopy" in norm(s.value) and np in norm(s.value)]
    ctx.check("process_npdu:forwards-a-copy", len(mk) == 1, where(m, f), "the forwarded packet must be a copy of the received one")
    for i, s in enumerate(sends):
        fa = facts_at(s)
        reach = [v for v in (0, 1, 2, 255) if ev.may_hold([x for x in fa if key in norm(x.test)], {key: v})]
        ctx.check("process_npdu:send#%d:hop-guard" % (i + 1), reach == [1, 2, 255], where(m, s), "a packet whose hop count is exhausted (0) must not be forwarded (hop counts reaching the send: %r)" % reach)
        before = statements_before(s, f)
        ctx.check("process_npdu:send#%d:after-decrement" % (i + 1), decs and decs[0] in before, where(m, s), "the send is not preceded by the hop count decrement on every path")
        ctx.check("process_npdu:send#%d:copy" % (i + 1), "deepcopy" in norm(s.args[0]) or norm(s.args[0]) == "newpdu", where(m, s), "each adapter must get its own copy")
    # local processing consumes its input (decode pops the octets): while the packet can still be forwarded it must work on a copy
    k = 0
    for x in calls_in(f):
        if isinstance(x.func, ast.Attribute) and x.func.attr == "decode" and x.args and x.lineno < (mk[0].lineno if mk else 10 ** 9):
            k += 1
            arg = x.args[0]
            is_copy = isinstance(arg, ast.Call) and "copy" in norm(arg.func) and np in norm(arg)
            ctx.check("process_npdu:local-decode#%d:on-a-copy" % k, is_copy, where(m, x),
                      "%s consumes the octets of the received packet itself; the copy forwarded afterwards carries an empty payload" % norm(x))
    if k < 2:
        raise ShapeError("process_npdu: %d local decode calls found" % k)
    ind = c.methods["indication"]
    st = [s for t, s in stores_in(ind) if norm(t).endswith(".npduHopCount")]
    ok = len(st) == 1 and prog.try_const(m, st[0].value) == 255 and not [x for x in facts_at(st[0]) if x.origin == "arm"]
    ctx.check("indication:initial-hop-count", ok, where(m, ind), "outbound packets must start with hop count 255")


@rule("C06.R2", "nothing is forwarded back onto the network it arrived from", floor=5, engines="E1 facts")
def r2(ctx):
    prog = ctx.prog
    c = _sap(ctx)
    m = c.module
    f = c.methods["process_npdu"]
    ad = f.args.args[1].arg
    ev = Evaluator(prog, m, c)
    n = 0
    for x in calls_in(f):
        if not (isinstance(x.func, ast.Attribute) and isinstance(x.func.value, ast.Name)):
            continue
        recv = x.func.value.id
        is_send = (x.func.attr == "process_npdu" and x.args and "newpdu" in norm(x.args[0])) or (norm(x.func) == "self.sap_indication" )
        if norm(x.func) == "self.sap_indication":
            recv = norm(x.args[0]) if x.args else None
        if not is_send or recv is None:
            continue
        n += 1
        fa = facts_at(x)
        # the receiver adapter is never the arrival adapter: evaluate the identity tests
        same = ev.may_hold(fa, {"%s is %s" % (recv, ad): True, "%s is not %s" % (recv, ad): False, "%s == %s" % (recv, ad): True, "%s != %s" % (recv, ad): False})
        if recv == "snet_adapter":
            # router found through another network: the cache never names a router on the arrival network for a packet that came from there
            # (learned paths are keyed by arrival network); require at least the dnet-not-attached guard
            ctx.check("process_npdu:via-router:not-attached", any(t.endswith("in self.adapters") and not p for t, p in atom_texts(fa)), where(m, x), "forwarding through a router only for networks that are not directly attached")
            continue
        ctx.check("process_npdu:%s.%s:not-arrival" % (recv, x.func.attr if x.func.attr != "sap_indication" else "who-is-router"), not same, where(m, x),
                  "a send toward adapter %s is reachable when it is the arrival adapter: the packet goes back onto the network it came from" % recv, facts={"guards": [repr(z) for z in fa]})
    if n < 4:
        raise ShapeError("process_npdu: only %d downstream sends found" % n)
    # the service element's relays
    nse = prog.cls(MOD, "NetworkServiceElement")
    for hname in ("WhoIsRouterToNetwork", "IAmRouterToNetwork"):
        h = nse.methods.get(hname)
        if h is None:
            raise AnchorMissing("NetworkServiceElement.%s" % hname)
        a = h.args.args[1].arg
        evn = Evaluator(prog, m, nse)
        for x in calls_in(h):
            if norm(x.func) == "self.request" and x.args and isinstance(x.args[0], ast.Name) and x.args[0].id != a:
                recv = x.args[0].id
                fa = facts_at(x)
                same = evn.may_hold(fa, {"%s is %s" % (recv, a): True, "%s is not %s" % (recv, a): False})
                ctx.check("NSE.%s:relay-not-arrival" % hname, not same, where(m, x), "the relayed message is also sent back on the arrival adapter")
    # a router never answers Who-Is-Router for a network it reaches through the asking network itself
    h = nse.methods["WhoIsRouterToNetwork"]
    a = h.args.args[1].arg

    def not_arrival(node, via=None):
        """is node dominated by an identity test that rules out the arrival adapter - for the given expressions `via`
        (the adapter through which the answered network is reached) when stated"""
        for at_, pol in atoms_of_facts(facts_at(node)):
            if isinstance(at_, ast.Compare) and len(at_.ops) == 1 and isinstance(at_.ops[0], (ast.Is, ast.IsNot)):
                sides = [norm(at_.left), norm(at_.comparators[0])]
                if a in sides and (isinstance(at_.ops[0], ast.Is) != pol):
                    other = sides[1] if sides[0] == a else sides[0]
                    if via is None or other in via:
                        return True
        return False

    def reached_through(node):
        """expressions naming the adapter through which the network of this answer is reached, from the dominating facts:
        `d in sap.adapters` -> sap.adapters[d];  a truthy lookup result assigned in a loop over the adapters -> that loop's adapter variable"""
        via = set()
        for at_, pol in atoms_of_facts(facts_at(node)):
            if pol and isinstance(at_, ast.Compare) and len(at_.ops) == 1 and isinstance(at_.ops[0], ast.In) and norm(at_.comparators[0]).endswith(".adapters"):
                d_, mp = norm(at_.left), norm(at_.comparators[0])
                via |= {"%s[%s]" % (mp, d_), "%s.get(%s)" % (mp, d_), "%s.get(%s, None)" % (mp, d_)}
            if pol and isinstance(at_, ast.Name):
                for lp in [l for l in walk_shallow(h) if isinstance(l, ast.For) and "adapters" in norm(l.iter)]:
                    if any(isinstance(st, ast.Assign) and norm(st.targets[0]) == at_.id for st in ast.walk(lp)):
                        tg = lp.target.elts[-1] if isinstance(lp.target, ast.Tuple) else lp.target
                        via.add(norm(tg))
        return via
    k = 0
    for x in calls_in(h):
        if norm(x.func) == "self.response" and x.args and norm(x.args[0]) == a:
            k += 1
            via = reached_through(x)
            ok = bool(via) and not_arrival(x, via)
            if not ok and not via:
                # the answer lists networks collected in a loop: every collected network must be guarded instead
                ctor = None
                blk = getattr(enclosing_stmt(x), "_parent", None)
                for fld in ("body", "orelse"):
                    lst = getattr(blk, fld, None)
                    if isinstance(lst, list) and enclosing_stmt(x) in lst:
                        for st in lst[:lst.index(enclosing_stmt(x))]:
                            if isinstance(st, ast.Assign) and len(x.args) > 1 and norm(st.targets[0]) == norm(x.args[1]) and isinstance(st.value, ast.Call):
                                ctor = st.value
                payload = norm(ctor.args[0]) if ctor is not None and ctor.args and isinstance(ctor.args[0], ast.Name) else None
                apps = [y for y in calls_in(h) if isinstance(y.func, ast.Attribute) and y.func.attr == "append" and norm(y.func.value) == payload]
                ok = payload is not None and bool(apps) and all(not_arrival(y) for y in apps)
                if payload is not None and not apps:
                    # ... or built by a comprehension whose filter excludes the arrival adapter
                    for st in walk_shallow(h):
                        if isinstance(st, ast.Assign) and norm(st.targets[0]) == payload and isinstance(st.value, ast.ListComp):
                            for g in st.value.generators:
                                for cnd in g.ifs:
                                    for at_, pol in conjuncts(cnd, True):
                                        if isinstance(at_, ast.Compare) and len(at_.ops) == 1 and isinstance(at_.ops[0], (ast.Is, ast.IsNot)) \
                                                and a in (norm(at_.left), norm(at_.comparators[0])) and (isinstance(at_.ops[0], ast.Is) != pol):
                                            ok = True
            ctx.check("NSE.WhoIsRouterToNetwork:answer#%d:not-through-asking-network" % k, ok, where(m, x),
                      "I-Am-Router-To-Network is answered although the network may be reached through the adapter the question came from: the asker then sends its traffic to this router, which sends it straight back")
    if k < 2:
        raise ShapeError("WhoIsRouterToNetwork: only %d answers found" % k)


@rule("C06.R3", "a forwarded packet names the originator: existing SADR kept, otherwise (arrival network, link-layer source)", floor=2, engines="E1")
def r3(ctx):
    prog = ctx.prog
    c = _sap(ctx)
    m = c.module
    f = c.methods["process_npdu"]
    ad, np = f.args.args[1].arg, f.args.args[2].arg
    ev = Evaluator(prog, m, c)
    sts = [s for s in walk_shallow(f) if isinstance(s, ast.Assign) and norm(s.targets[0]) == "newpdu.npduSADR"]
    got = {}
    for s in sts:
        fa = facts_at(s)
        has = [v for v in (True, False) if ev.may_hold([x for x in fa if "npduSADR" in norm(x.test)], {"%s.npduSADR" % np: v})]
        got[tuple(has)] = norm(s.value)
    ok = got.get((True,)) == "%s.npduSADR" % np and got.get((False,)) == "RemoteStation(%s.adapterNet, %s.pduSource.addrAddr)" % (ad, np)
    ctx.check("process_npdu:source-address", ok, where(m, f), "forwarded SADR must be the received SADR, or RemoteStation(arrival net, link source) when there was none (found %r)" % got)
    sends = _forward_sends(f, ad)
    for i, s in enumerate(sends):
        before = statements_before(s, f)
        okb = any(isinstance(b, ast.If) and any(x in list(ast.walk(b)) for x in sts) for b in before) or any(x in before for x in sts)
        ctx.check("process_npdu:send#%d:sadr-set-first" % (i + 1), okb, where(m, s), "the source address must be set before the packet is sent on")
    # upstream: the application sees the originator
    for s in [x for x in walk_shallow(f) if isinstance(x, ast.Assign) and norm(x.targets[0]) == "apdu.pduSource"]:
        fa = facts_at(s)
        v = norm(s.value)
        has = [b for b in (True, False) if ev.may_hold([x for x in fa if "npduSADR" in norm(x.test)], {"%s.npduSADR" % np: b})]
        if has == [True]:
            ctx.check("process_npdu:upstream-source[sadr]", v == "%s.npduSADR" % np, where(m, s), "a routed packet must be shown with its SADR as source")
        elif has == [False]:
            ctx.check("process_npdu:upstream-source[no-sadr]", v in ("%s.pduSource" % np, "RemoteStation(%s.adapterNet, %s.pduSource.addrAddr)" % (ad, np)), where(m, s), "an unrouted packet must be shown with its link source")


@rule("C06.R4", "on the last hop the destination is rewritten for the local network and the DADR removed", floor=3, engines="E1 facts")
def r4(ctx):
    prog = ctx.prog
    c = _sap(ctx)
    m = c.module
    f = c.methods["process_npdu"]
    ad, np = f.args.args[1].arg, f.args.args[2].arg
    at = _addr_types(ctx)
    ev = Evaluator(prog, m, c)
    # statements in the `dnet in self.adapters` arm
    sts = [s for s in walk_shallow(f) if isinstance(s, ast.Assign) and norm(s.targets[0]) == "newpdu.pduDestination" and any(t.endswith("in self.adapters") and p for t, p in atom_texts(facts_at(s)))]
    got = {}
    for s in sts:
        fa = [x for x in facts_at(s) if "addrType" in norm(x.test)]
        kinds = [k for k in ("remoteBroadcastAddr", "remoteStationAddr") if ev.may_hold(fa, {"%s.npduDADR.addrType" % np: at[k]})]
        got[tuple(kinds)] = norm(s.value)
    ok = got.get(("remoteBroadcastAddr",)) == "LocalBroadcast()" and got.get(("remoteStationAddr",)) == "LocalStation(%s.npduDADR.addrAddr)" % np
    ctx.check("process_npdu:last-hop-destination", ok, where(m, f), "directly attached destination: remote broadcast -> LocalBroadcast(), remote station -> LocalStation(DADR address) (found %r)" % got)
    clr = [s for s in walk_shallow(f) if isinstance(s, ast.Assign) and norm(s.targets[0]) == "newpdu.npduDADR" and prog.try_const(m, s.value, default=0) is None]
    ok = len(clr) == 1 and any(t.endswith("in self.adapters") and p for t, p in atom_texts(facts_at(clr[0])))
    ctx.check("process_npdu:last-hop-clears-dadr", ok, where(m, f), "the DADR must be removed when the packet reaches its destination network")
    # global broadcast keeps the DADR and goes out as local broadcast
    gb = [s for s in walk_shallow(f) if isinstance(s, ast.Assign) and norm(s.targets[0]) == "newpdu.pduDestination" and norm(s.value) == "LocalBroadcast()"
          and [k for k in at if ev.may_hold([x for x in facts_at(s) if "addrType" in norm(x.test)], {"%s.npduDADR.addrType" % np: at[k]})] == ["globalBroadcastAddr"]]
    ctx.check("process_npdu:global-broadcast-forward", len(gb) == 1, where(m, f), "a global broadcast is forwarded as a local broadcast on each other network")
    # via a router: addressed to the router
    rt = [s for s in walk_shallow(f) if isinstance(s, ast.Assign) and norm(s.targets[0]) == "newpdu.pduDestination" and norm(s.value) == "router_info.address"]
    ctx.check("process_npdu:via-router-destination", len(rt) == 1, where(m, f), "a packet for a remote network goes to the router the cache names")


@rule("C06.R5", "the process-locally / forward decision per destination kind is the one of clause 6.5", floor=8, engines="E5 decision table extraction")
def r5(ctx):
    prog = ctx.prog
    c = _sap(ctx)
    m = c.module
    f = c.methods["process_npdu"]
    ad, np = f.args.args[1].arg, f.args.args[2].arg
    at = _addr_types(ctx)
    ev = Evaluator(prog, m, c)
    D = "%s.npduDADR" % np
    OWN, ARR, OTHER = 5, 9, 7
    cases = []
    cases.append(("none", {D: None, "not %s" % D: True}, None))
    for k in ("remoteBroadcastAddr", "remoteStationAddr", "globalBroadcastAddr"):
        for dnet in (OWN, ARR, OTHER):
            for mine in (True, False):
                if k != "remoteStationAddr" and not mine:
                    continue
                if k == "globalBroadcastAddr" and dnet != OWN:
                    continue
                env = {D: True, "not %s" % D: False, D + ".addrType": at[k], D + ".addrNet": dnet, "%s.adapterNet" % ad: ARR, "self.local_adapter.adapterNet": OWN,
                       D + ".addrAddr": b"\x01" if mine else b"\x02", "self.local_adapter.adapterAddr.addrAddr": b"\x01"}
                cases.append((k, env, (dnet, mine)))
    pl = [s for s in walk_shallow(f) if isinstance(s, ast.Assign) and norm(s.targets[0]) == "processLocally"]
    fw = [s for s in walk_shallow(f) if isinstance(s, ast.Assign) and norm(s.targets[0]) == "forwardMessage"]
    if len(pl) < 4 or len(fw) < 4:
        raise ShapeError("process_npdu: processLocally/forwardMessage assignments not found")
    for k, env, extra in cases:
        def decide(assigns):
            vals = set()
            for s in assigns:
                if ev.may_hold(facts_at(s), env):
                    e2 = dict(env)
                    try:
                        vals.add(bool(ev.value(s.value, e2)))
                    except NotConst:
                        # depends on run-time identity (local adapter / network message): keep the text
                        vals.add(norm(s.value))
            return vals
        p, w = decide(pl), decide(fw)
        if k == "none":
            ok = p == {"%s is self.local_adapter or %s.npduNetMessage is not None" % (ad, np)} and w == {False}
            want = "(arrived on the local adapter or is a network message, never forwarded)"
        else:
            dnet, mine = extra
            if k != "globalBroadcastAddr" and dnet == ARR:
                ok = p == set() and w == set()
                want = "dropped (destination network is the arrival network)"
            elif k == "remoteBroadcastAddr":
                ok = p == {dnet == OWN} and w == {True}
                want = "(process iff own network, forward)"
            elif k == "remoteStationAddr":
                loc = dnet == OWN and mine
                ok = p == {loc} and (w == {not loc} or w == {"not processLocally"})
                want = "(process iff own network and own address, forward otherwise)"
            else:
                ok = p == {True} and w == {True}
                want = "(process and forward)"
        ctx.check("process_npdu:decision[%s%s]" % (k, "" if extra is None else ",dnet=%s,mine=%s" % ("own" if extra[0] == OWN else "arrival" if extra[0] == ARR else "other", extra[1])), ok, where(m, f),
                  "clause 6.5 prescribes %s; the code gives processLocally=%r forwardMessage=%r" % (want, sorted(map(str, p)), sorted(map(str, w))))
    # forwardMessage derived from processLocally for stations
    # the gates: no forward without the flag, with a single adapter
    sends = _forward_sends(f, ad)
    for i, s in enumerate(sends):
        fa = facts_at(s)
        ok = not ev.may_hold(fa, {"forwardMessage": False}) and not ev.may_hold(fa, {"len(self.adapters)": 1})
        ctx.check("process_npdu:send#%d:gated" % (i + 1), ok, where(m, s), "forwarding must be gated by forwardMessage and by having more than one adapter")


@rule("C06.R6", "outbound addressing is exhaustive over destination kinds; unknown routes park the packet and ask Who-Is-Router; I-Am-Router releases the parked packets to the announcing router", floor=8, engines="E1 paths + E5")
def r6(ctx):
    prog = ctx.prog
    c = _sap(ctx)
    m = c.module
    f = c.methods["indication"]
    at = _addr_types(ctx)
    ev = Evaluator(prog, m, c)
    K = "npdu.pduDestination.addrType"
    base = {"self.adapters": True, "settings.route_aware": False, "npdu.pduDestination.addrRoute": None}
    ps = enumerate_paths(f)
    ctx.count("paths", len(ps))
    OWN = 5
    def outcomes(env):
        outs = set()
        for p in ps:
            if not feasible(p, ev, env):
                continue
            if any(e.kind == "loop0" and isinstance(e.node, ast.For) and "adapters" in norm(e.node.iter) for e in p.events):
                continue        # the adapter map is not empty (first guard of the function)
            if p.term == "raise":
                outs.add("raise")
                continue
            nodes = path_nodes(p)
            calls = [x for x in nodes if isinstance(x, ast.Call)]
            sends = [norm(x.func) for x in calls if isinstance(x.func, ast.Attribute) and x.func.attr == "process_npdu"]
            loops = [e.node for e in p.events if e.kind == "loop1" and isinstance(e.node, ast.For) and "adapters" in norm(e.node.iter)]
            parked = [x for x in calls if norm(x.func).endswith(".append") and ("pending" in norm(x.func) or "net_list" in norm(x.func))]
            who = [x for x in calls if norm(x.func) == "WhoIsRouterToNetwork"]
            dadr = [n for n in nodes if isinstance(n, ast.Assign) and norm(n.targets[0]) == "npdu.npduDADR"]
            dest = [norm(n.value) for n in nodes if isinstance(n, ast.Assign) and norm(n.targets[0]) == "npdu.pduDestination"]
            tag = "send:%s" % ",".join(sorted(set(sends))) if sends else ""
            if loops and sends:
                tag += ":every-adapter"
            if parked:
                tag += ":parked"
            if who:
                tag += ":who-is-router"
            if dadr:
                tag += ":dadr=%s" % norm(dadr[-1].value)
            if dest:
                tag += ":dest=%s" % dest[-1]
            outs.add(tag or "nothing")
        return outs
    tests = [
        ("localStation", {K: at["localStationAddr"]}, {"send:local_adapter.process_npdu"}),
        ("localBroadcast", {K: at["localBroadcastAddr"]}, {"send:local_adapter.process_npdu"}),
        ("globalBroadcast", {K: at["globalBroadcastAddr"]}, {"send:xadapter.process_npdu:every-adapter:dadr=apdu.pduDestination:dest=LocalBroadcast()"}),
        ("null", {K: at["nullAddr"]}, {"raise"}),
        ("remoteStation-own-net", {K: at["remoteStationAddr"], "dnet": OWN, "npdu.pduDestination.addrNet": OWN, "local_adapter.adapterNet": OWN}, {"send:local_adapter.process_npdu:dest=LocalStation(npdu.pduDestination.addrAddr)"}),
        ("remoteBroadcast-own-net", {K: at["remoteBroadcastAddr"], "dnet": OWN, "npdu.pduDestination.addrNet": OWN, "local_adapter.adapterNet": OWN}, {"send:local_adapter.process_npdu:dest=LocalBroadcast()"}),
    ]
    for name, env, want in tests:
        e = dict(base)
        e.update(env)
        got = outcomes(e)
        ctx.check("indication:%s" % name, got == want, where(m, f), "expected %s, the code does %s" % (sorted(want), sorted(got)))
    # remote, other network
    for known, pending in ((True, False), (False, False), (False, True)):
        e = dict(base)
        e.update({K: at["remoteStationAddr"], "dnet": 7, "npdu.pduDestination.addrNet": 7, "local_adapter.adapterNet": OWN, "dnet in self.pending_nets": pending,
                  "router_info": known, "net_list is None": True})
        got = outcomes(e)
        if pending:
            want_ok = all(":parked" in g and "send" not in g and "who-is" not in g and "dadr=apdu.pduDestination" in g and g.endswith("dest=None") for g in got) and bool(got)
            desc = "appended, already addressed (DADR = final destination, link destination cleared), to the packets parked for that network (no second Who-Is-Router, nothing sent)"
        elif known:
            want_ok = all(g.startswith("send:snet_adapter.process_npdu") and "dadr=apdu.pduDestination" in g and "dest=router_info.address" in g and ":parked" not in g for g in got) and bool(got)
            desc = "sent to the router the cache names, with DADR = final destination"
        else:
            want_ok = all(":parked" in g and ":who-is-router" in g and "dadr=apdu.pduDestination" in g for g in got) and bool(got)
            desc = "parked under its network and Who-Is-Router asked"
        ctx.check("indication:remote[known=%s,pending=%s]" % (known, pending), want_ok, where(m, f), "a packet for another network must be %s; the code does %s" % (desc, sorted(got)))
    who_loop = [l for l in walk_shallow(f) if isinstance(l, ast.For) and "adapters" in norm(l.iter) and any(norm(x.func) == "self.sap_indication" for st_ in l.body for x in calls_in(st_))]
    ctx.check("indication:who-is-router-on-every-adapter", len(who_loop) == 1 and not [x for x in facts_at([x for st_ in who_loop[0].body for x in calls_in(st_) if norm(x.func) == "self.sap_indication"][0], stop=who_loop[0])] if who_loop else False,
              where(m, f), "path discovery must ask on every adapter")
    # release of parked packets
    nse = prog.cls(MOD, "NetworkServiceElement")
    h = nse.methods.get("IAmRouterToNetwork")
    if h is None:
        raise AnchorMissing("NetworkServiceElement.IAmRouterToNetwork")
    a, n_ = h.args.args[1].arg, h.args.args[2].arg
    loops = [l for l in walk_shallow(h) if isinstance(l, ast.For) and norm(l.iter) == "%s.iartnNetworkList" % n_ and any(isinstance(x, ast.Delete) for x in ast.walk(l))]
    ok = len(loops) == 1
    if ok:
        lp = loops[0]
        d = [x for x in ast.walk(lp) if isinstance(x, ast.Delete)]
        ok = len(d) == 1 and norm(d[0].targets[0]) == "sap.pending_nets[%s]" % norm(lp.target)
        inner = [l for l in ast.walk(lp) if isinstance(l, ast.For) and l is not lp]
        ok = ok and len(inner) == 1
        if ok:
            pv = norm(inner[0].target)
            dst = [s for s in ast.walk(inner[0]) if isinstance(s, ast.Assign) and norm(s.targets[0]) == "%s.pduDestination" % pv]
            snd = [x for x in calls_in(inner[0]) if norm(x.func) == "%s.process_npdu" % a and norm(x.args[0]) == pv]
            ok = len(dst) == 1 and norm(dst[0].value) == "%s.pduSource" % n_ and len(snd) == 1
    ctx.check("NSE.IAmRouterToNetwork:releases-parked", ok, where(m, h), "for each announced network with parked packets: forget the parking entry and send every parked packet to the announcing router on the arrival adapter")


@rule("C06.R7", "what a router forwards by is coherent: the path index and the router map of the routing cache move together (a learned destination is reachable, a displaced one is gone) and return paths are learned under the arrival network", floor=10, engines="E1 (shared with C19.R2 / R3 / R5)")
def r7(ctx):
    from . import c19
    c19.r2(ctx)
    c19.r3(ctx)
    c19.r5(ctx)


@rule("C06.R8", "the adapter a packet leaves through is never chosen by a router record's own (never renumbered) source-network field", floor=2, engines="E0 who-reads (shared with C19.R6)")
def r8(ctx):
    from .c19 import record_snet_not_a_key
    record_snet_not_a_key(ctx)
