"""C01 - primitive values survive encoding: tag-number agreement, width and
format agreement, object identifier split, boolean special case, no silent
truncation, injective enumerations, canonical shortest form."""
import ast
import struct

from ..report import rule
from ..model import norm, NotConst, calls_in, stores_in, ShapeError, AnchorMissing, is_self_attr
from ..paths import enumerate_paths, facts_at, walk_shallow, enclosing_stmt, always_leaves, enclosing_loops
from ..guards import Evaluator, atom_texts
from ..tables import Tables
from .common import where, feasible, path_nodes, same_function, grid, subst_locals, body_paths, consistent, reaches

PM = "primitivedata"
APP_NAMES = ["Null", "Boolean", "Unsigned", "Integer", "Real", "Double", "OctetString", "CharacterString", "BitString", "Enumerated", "Date", "Time", "ObjectIdentifier"]


def app_tag_classes(ctx):
    """evaluate  Tag._app_tag_class = [Null, Boolean, ...]  at module level"""
    m = ctx.prog.module(PM)
    for st in m.tree.body:
        if isinstance(st, ast.Assign) and norm(st.targets[0]) == "Tag._app_tag_class" and isinstance(st.value, ast.List):
            return [None if (isinstance(e, ast.Constant) and e.value is None) else ctx.prog.resolve_class_expr(m, e) for e in st.value.elts], st
    raise AnchorMissing("Tag._app_tag_class assignment")


@rule("C01.R1", "each primitive encodes under, and only decodes from, its own application tag number", floor=50, engines="E3 + E5")
def r1(ctx):
    prog = ctx.prog
    m = prog.module(PM)
    tag = prog.cls(PM, "Tag")
    lst, st = app_tag_classes(ctx)
    ctx.check("Tag._app_tag_class:length", len(lst) == 16, where(m, st), "the dispatch table must have 16 entries (found %d)" % len(lst))
    names = prog.try_const(m, tag.attrs.get("_app_tag_name"), tag)
    ctx.check("Tag._app_tag_name:length", isinstance(names, list) and len(names) == 16, where(m, tag.node), "16 application tag names expected")
    for n, k in enumerate(lst):
        if n < 13:
            ctx.check("app-tag[%d]:class" % n, k is not None and k.name == APP_NAMES[n], where(m, st), "application tag %d must dispatch to %s (found %s)" % (n, APP_NAMES[n], k.name if k else None))
        else:
            ctx.check("app-tag[%d]:reserved" % n, k is None, where(m, st), "reserved application tag %d must not dispatch to a class" % n)
        if k is None:
            continue
        T = Tables(prog)
        at = T.app_tag(k)
        ctx.check("%s:_app_tag" % k.name, at == n, where(m, k.node), "%s._app_tag is %r, its position in the dispatch table is %d" % (k.name, at, n))
        enc, dec = k.methods.get("encode"), k.methods.get("decode")
        if enc is None or dec is None:
            raise AnchorMissing("%s.encode/decode" % k.name)
        # encode: tag number handed to set_app_data / set
        nums = []
        for call in calls_in(enc):
            if isinstance(call.func, ast.Attribute) and call.func.attr == "set_app_data":
                nums.append(prog.try_const(m, call.args[0], k))
            elif isinstance(call.func, ast.Attribute) and call.func.attr == "set" and len(call.args) >= 2:
                cls_v = prog.try_const(m, call.args[0], k)
                ctx.check("%s.encode:application-class" % k.name, cls_v == 0, where(m, call), "primitives must be encoded as application class")
                nums.append(prog.try_const(m, call.args[1], k))
        ctx.check("%s.encode:tag-number" % k.name, nums == [n], where(m, enc), "%s.encode writes tag number(s) %r, expected [%d]" % (k.name, nums, n))
        # decode: wrong class or number is refused with InvalidTag before the data is touched
        ev = Evaluator(prog, m, k)
        tg = dec.args.args[1].arg
        stmts = [x for x in dec.body if not (isinstance(x, ast.Expr) and isinstance(x.value, ast.Constant))]
        first = stmts[0] if stmts else None
        ok = isinstance(first, ast.If) and always_leaves(first.body) and isinstance(first.body[-1], ast.Raise) and "InvalidTag" in norm(first.body[-1])
        if ok:
            acc = [(c_, x) for c_ in (0, 1, 2, 3) for x in range(0, 16) if ev.eval3(first.test, {"%s.tagClass" % tg: c_, "%s.tagNumber" % tg: x}) is not True]
            ok = acc == [(0, n)]
        ctx.check("%s.decode:tag-guard" % k.name, ok, where(m, dec), "decode must refuse every tag that is not application class number %d with InvalidTag, first thing" % n)
        # constructor: a Tag argument is decoded
        init = k.methods.get("__init__")
        if init is not None:
            dc = [x for x in calls_in(init) if norm(x.func) == "self.decode"]
            okc = len(dc) == 1 and any(t.startswith("isinstance(") and "Tag" in t and p for t, p in atom_texts(facts_at(dc[0])))
            ctx.check("%s.__init__:decodes-tag" % k.name, okc, where(m, init), "%s(tag) must decode the tag" % k.name)


LEN_GUARDS = {"Null": ("!=", 0), "Unsigned": ("==", 0), "Integer": ("==", 0), "Real": ("!=", 4), "Double": ("!=", 8), "CharacterString": ("==", 0), "BitString": ("==", 0),
              "Enumerated": ("==", 0), "Date": ("!=", 4), "Time": ("!=", 4), "ObjectIdentifier": ("!=", 4)}


@rule("C01.R2", "encoder and decoder of each primitive agree on width, byte order and accumulation; wrong lengths are refused", floor=25, engines="E4/E5 finite-domain expression evaluation")
def r2(ctx):
    prog = ctx.prog
    m = prog.module(PM)
    # length guards
    for name, (op, n) in LEN_GUARDS.items():
        k = prog.cls(PM, name)
        dec = k.methods["decode"]
        ev = Evaluator(prog, m, k)
        tg = dec.args.args[1].arg
        key = "len(%s.tagData)" % tg
        guards = [s for s in dec.body if isinstance(s, ast.If) and always_leaves(s.body) and key in norm(s.test)]
        ok = len(guards) == 1 and "InvalidTag" in norm(guards[0].body[-1])
        if ok:
            rej = [x for x in range(0, 10) if ev.eval3(guards[0].test, {key: x}) is True]
            want = [x for x in range(0, 10) if (x != n if op == "!=" else x == n)]
            ok = rej == want
        ctx.check("%s.decode:length-guard" % name, ok, where(m, dec), "%s must refuse data lengths %s %d with InvalidTag" % (name, op, n))
    b = prog.cls(PM, "Boolean").methods["decode"]
    ev = Evaluator(prog, m)
    guards = [s for s in b.body if isinstance(s, ast.If) and always_leaves(s.body) and "tagLVT" in norm(s.test)]
    ok = len(guards) == 1 and [x for x in range(0, 8) if ev.eval3(guards[0].test, {"tag.tagLVT": x}) is True] == list(range(2, 8))
    ctx.check("Boolean.decode:value-guard", ok, where(m, b), "a boolean whose value field is > 1 must be refused")
    # struct formats
    for name, fmt in (("Real", ">f"), ("Double", ">d"), ("ObjectIdentifier", ">L")):
        k = prog.cls(PM, name)
        pe = [x for x in calls_in(k.methods["encode"]) if norm(x.func) == "struct.pack"]
        pd = [x for x in calls_in(k.methods["decode"]) if norm(x.func) == "struct.unpack"]
        fe = prog.try_const(m, pe[0].args[0]) if len(pe) == 1 else None
        fd = prog.try_const(m, pd[0].args[0]) if len(pd) == 1 else None
        ok = fe == fd == fmt
        ctx.check("%s:format" % name, ok, where(m, k.node), "%s must be packed and unpacked as %r (pack %r, unpack %r)" % (name, fmt, fe, fd))
        if ok:
            ctx.check("%s:length=calcsize" % name, struct.calcsize(fmt) == LEN_GUARDS[name][1], where(m, k.node), "length guard differs from the format size")
            # what is decoded is element 0 of the unpacked tuple
            par = getattr(pd[0], "_parent", None)
            ctx.check("%s.decode:takes-first" % name, isinstance(par, ast.Subscript) and prog.try_const(m, par.slice) == 0, where(m, pd[0]), "struct.unpack returns a tuple: element 0 is the value")
    # Date / Time: 4 octets in tuple order
    for name in ("Date", "Time"):
        k = prog.cls(PM, name)
        enc, dec = k.methods["encode"], k.methods["decode"]
        ce = [x for x in calls_in(enc) if isinstance(x.func, ast.Attribute) and x.func.attr == "set_app_data"]
        ok = len(ce) == 1 and norm(ce[0].args[1]) == "bytearray(self.value)"
        st = [s for t, s in stores_in(dec) if is_self_attr(t, "value")]
        ok = ok and len(st) == 1 and norm(st[0].value) == "tuple(%s.tagData)" % dec.args.args[1].arg
        ctx.check("%s:four-octets-in-order" % name, ok, where(m, k.node), "%s must be the four tuple elements as four octets, in order, on both sides" % name)
    # Unsigned / Enumerated: big endian accumulate <-> pack '>L'
    for name in ("Unsigned", "Enumerated"):
        k = prog.cls(PM, name)
        ev = Evaluator(prog, m, k)
        enc, dec = k.methods["encode"], k.methods["decode"]
        pe = [x for x in calls_in(enc) if norm(x.func) == "struct.pack"]
        fe = prog.try_const(m, pe[0].args[0]) if len(pe) == 1 else None
        ctx.check("%s.encode:big-endian-32" % name, fe in (">L", ">I", "!L", "!I"), where(m, enc), "%s must be packed big endian, unsigned (so that out-of-range values are refused by struct) (found %r)" % (name, fe))
        loops = [l for l in walk_shallow(dec) if isinstance(l, ast.For)]
        ok = len(loops) == 1 and norm(loops[0].iter).endswith(".tagData") and len(loops[0].body) == 1 and isinstance(loops[0].body[0], ast.Assign)
        if ok:
            acc = norm(loops[0].body[0].targets[0])
            c = norm(loops[0].target)
            ok, cx = same_function(ev, loops[0].body[0].value, grid(**{acc: [0, 1, 255, 256, 0x123456], c: [0, 1, 128, 255]}), lambda e: e[acc] * 256 + e[c])
            init0 = [s for s in dec.body if isinstance(s, ast.Assign) and norm(s.targets[0]) == acc and prog.try_const(m, s.value) == 0]
            ok = ok and len(init0) == 1
        ctx.check("%s.decode:big-endian-accumulate" % name, ok, where(m, dec), "decode must accumulate octets most significant first, starting from 0")
    # Integer: two's complement
    k = prog.cls(PM, "Integer")
    ev = Evaluator(prog, m, k)
    dec = k.methods["decode"]
    loops = [l for l in walk_shallow(dec) if isinstance(l, ast.For)]
    ok = len(loops) == 1 and len(loops[0].body) == 1 and isinstance(loops[0].body[0], ast.Assign)
    if ok:
        acc = norm(loops[0].body[0].targets[0])
        c = norm(loops[0].target)
        ok, cx = same_function(ev, loops[0].body[0].value, grid(**{acc: [0, 1, -1, -128, 127, 0x1234], c: [0, 1, 128, 255]}), lambda e: e[acc] * 256 + e[c])
        ok = ok and norm(loops[0].iter).endswith("[1:]")
    ctx.check("Integer.decode:accumulate", ok, where(m, dec), "decode must accumulate the remaining octets most significant first")
    # sign extension of the first octet
    okx = False
    for p in enumerate_paths(dec):
        pass
    sx = [s for s in walk_shallow(dec) if isinstance(s, ast.Assign) and isinstance(s.value, ast.BinOp) and "-1" in norm(s.value)]
    if len(sx) == 1:
        acc = norm(sx[0].targets[0])
        fa = facts_at(sx[0])
        neg = [v for v in (0, 1, 0x7F, 0x80, 0xFF) if ev.may_hold([x for x in fa if acc in norm(x.test)], {acc: v})]
        okv, cx = same_function(ev, sx[0].value, grid(**{acc: [0x80, 0x81, 0xFF]}), lambda e: e[acc] - 256)
        okx = neg == [0x80, 0xFF] and okv
    ctx.check("Integer.decode:sign-extension", okx, where(m, dec), "a first octet >= 0x80 must be sign extended (value - 256), others not")


@rule("C01.R3", "object identifiers split 10 + 22 bits identically on both sides; the instance range is enforced", floor=5, engines="E5 finite-domain evaluation")
def r3(ctx):
    prog = ctx.prog
    m = prog.module(PM)
    k = prog.cls(PM, "ObjectIdentifier")
    ev = Evaluator(prog, m, k)
    mx = prog.try_const(m, k.attrs.get("maximum_instance_number"), k)
    ctx.check("ObjectIdentifier.maximum_instance_number", mx == 2 ** 22 - 1, where(m, k.node), "the largest instance number is 2**22 - 1 (found %r)" % (mx,))
    sl = k.methods.get("set_long")
    gl = k.methods.get("get_long")
    stp = k.methods.get("set_tuple")
    if sl is None or gl is None or stp is None:
        raise AnchorMissing("ObjectIdentifier.set_long/get_long/set_tuple")
    v = sl.args.args[1].arg
    words = [0, 1, 0x3FFFFF, 0x400000, 0x7FFFFF, 0xFFC00000, 0xFFFFFFFF, (8 << 22) | 1234, (1023 << 22) | 0x2AAAAA]
    asg = {}
    for s in walk_shallow(sl):
        if isinstance(s, ast.Assign) and isinstance(s.targets[0], ast.Name) and s.targets[0].id not in asg:
            asg[s.targets[0].id] = s.value
    okT, cx1 = same_function(ev, asg.get("objType", ast.Constant(None)), grid(**{v: words}), lambda e: (e[v] >> 22) & 0x3FF)
    okI, cx2 = same_function(ev, asg.get("objInstance", ast.Constant(None)), grid(**{v: words}), lambda e: e[v] & 0x3FFFFF)
    ctx.check("ObjectIdentifier.set_long:type-bits", okT, where(m, sl), "the object type is bits 31..22 (counterexample %r)" % (cx1,))
    ctx.check("ObjectIdentifier.set_long:instance-bits", okI, where(m, sl), "the instance is bits 21..0 (counterexample %r)" % (cx2,))
    rets = [r for r in walk_shallow(gl) if isinstance(r, ast.Return)]
    ok = len(rets) == 1
    if ok:
        ok, cx = same_function(ev, rets[0].value, grid(objType=[0, 1, 8, 1023], objInstance=[0, 1, 0x3FFFFF]), lambda e: (e["objType"] << 22) | e["objInstance"])
    ctx.check("ObjectIdentifier.get_long:recombines", ok, where(m, gl), "get_long must be (type << 22) | instance")
    inst = stp.args.args[2].arg
    stv = [s for t, s in stores_in(stp) if is_self_attr(t, "value")]
    ok = len(stv) == 1
    if ok:
        fa = [x for x in facts_at(stv[0]) if inst in norm(x.test)]
        reach = [x for x in (-1, 0, 1, 0x3FFFFF, 0x400000, 2 ** 31) if ev.may_hold(fa, {inst: x})]
        ok = reach == [0, 1, 0x3FFFFF]
    ctx.check("ObjectIdentifier.set_tuple:instance-range", ok, where(m, stp), "instances outside 0..2**22-1 must be refused before the value is stored")
    enc = k.methods["encode"]
    pe = [x for x in calls_in(enc) if norm(x.func) == "struct.pack"]
    ctx.check("ObjectIdentifier.encode:packs-get_long", len(pe) == 1 and norm(pe[0].args[1]) == "self.get_long()", where(m, enc), "the identifier is packed from get_long() (an over-wide type makes struct refuse)")
    dec = k.methods["decode"]
    cs = [x for x in calls_in(dec) if norm(x.func) == "self.set_long"]
    ctx.check("ObjectIdentifier.decode:through-set_long", len(cs) == 1, where(m, dec), "decoding must split the word with set_long")


@rule("C01.R4", "the BOOLEAN special case is applied symmetrically by the application<->context conversions", floor=5, engines="E1 facts + E5")
def r4(ctx):
    prog = ctx.prog
    m = prog.module(PM)
    t = prog.cls(PM, "Tag")
    ev = Evaluator(prog, m, t)
    a2c, c2a = t.methods.get("app_to_context"), t.methods.get("context_to_app")
    if a2c is None or c2a is None:
        raise AnchorMissing("Tag.app_to_context/context_to_app")
    rets = [r for r in walk_shallow(a2c) if isinstance(r, ast.Return)]
    cx = a2c.args.args[1].arg
    # what is returned for each application tag number, with the locals of the path substituted
    from .common import path_return_expr
    got4 = {}
    for p_ in enumerate_paths(a2c):
        if p_.term != "return":
            continue
        for x in (0, 1, 2, 9):
            k_, e_ = path_return_expr(p_, ev, {"self.tagNumber": x, "self.tagClass": 0})
            if k_ == "expr":
                got4.setdefault(x, set()).add(norm(e_))
    ok = got4.get(1) == {"ContextTag(%s, bytearray([self.tagLVT]))" % cx}
    ctx.check("Tag.app_to_context:boolean", ok, where(m, a2c), "an application boolean becomes a context tag whose single data octet is the value (tagLVT)")
    ok = all(got4.get(x) == {"ContextTag(%s, self.tagData)" % cx} for x in (0, 2, 9))
    ctx.check("Tag.app_to_context:others", ok, where(m, a2c), "every other primitive keeps its data under the context tag")
    rets = [r for r in walk_shallow(c2a) if isinstance(r, ast.Return)]
    dt = c2a.args.args[1].arg
    bool_ret = [r for r in rets if [x for x in (0, 1, 2, 9) if ev.may_hold(facts_at(r), {dt: x, "self.tagClass": 1})] == [1]]
    other_ret = [r for r in rets if [x for x in (0, 1, 2, 9) if ev.may_hold(facts_at(r), {dt: x, "self.tagClass": 1})] == [0, 2, 9]]
    ok = len(bool_ret) == 1 and isinstance(bool_ret[0].value, ast.Call) and norm(bool_ret[0].value.func) == "Tag" and len(bool_ret[0].value.args) == 4
    if ok:
        a = bool_ret[0].value.args
        ok = prog.try_const(m, a[0], t) == 0 and prog.try_const(m, a[1], t) == 1 and norm(a[2]) == "struct.unpack('B', self.tagData)[0]" and prog.try_const(m, a[3]) == b""
    ctx.check("Tag.context_to_app:boolean", ok, where(m, c2a), "a context boolean becomes an application boolean whose value (LVT) is the data octet, with no data")
    ok = len(other_ret) == 1 and norm(other_ret[0].value) == "ApplicationTag(%s, self.tagData)" % dt
    ctx.check("Tag.context_to_app:others", ok, where(m, c2a), "every other primitive keeps its data under the application tag of the requested type")
    b = prog.cls(PM, "Boolean")
    enc, dec = b.methods["encode"], b.methods["decode"]
    cs = [x for x in calls_in(enc) if isinstance(x.func, ast.Attribute) and x.func.attr == "set"]
    ok = len(cs) == 1 and len(cs[0].args) == 4 and norm(cs[0].args[2]) in ("int(self.value)", "self.value and 1 or 0", "1 if self.value else 0") and prog.try_const(m, cs[0].args[3]) == b""
    ctx.check("Boolean.encode:value-in-lvt", ok, where(m, enc), "an application boolean carries its value in the LVT field and no data")
    st = [s for t_, s in stores_in(dec) if is_self_attr(t_, "value")]
    ok = len(st) == 1 and norm(st[0].value) in ("bool(tag.tagLVT)", "tag.tagLVT != 0", "tag.tagLVT == 1")
    ctx.check("Boolean.decode:value-from-lvt", ok, where(m, dec), "decode reads the value from LVT")


@rule("C01.R5", "no encoder masks a value it accepted: out-of-range values are refused, never truncated", floor=3, engines="E1 facts + E5")
def r5(ctx):
    prog = ctx.prog
    m = prog.module(PM)
    atomic = prog.cls(PM, "Atomic")
    n = 0
    for k in m.classes.values():
        if atomic not in prog.mro(k):
            continue
        for fname in ("encode", "get_long"):
            f = k.methods.get(fname)
            if f is None:
                continue
            ev = Evaluator(prog, m, k)
            for node in walk_shallow(f):
                if isinstance(node, ast.BinOp) and isinstance(node.op, ast.BitAnd):
                    maskv = prog.try_const(m, node.right, k)
                    other = node.left
                    if not isinstance(maskv, int) or isinstance(maskv, bool):
                        maskv = prog.try_const(m, node.left, k)
                        other = node.right
                    if not isinstance(maskv, int) or maskv < 0 or (maskv & (maskv + 1)) != 0:
                        continue
                    key = norm(other)
                    if not ("self.value" in key or "value" == key or key.startswith("obj")):
                        continue
                    n += 1
                    fa = facts_at(node)
                    bits = maskv.bit_length()
                    lo, hi = -(1 << (bits - 1)), (1 << (bits - 1)) - 1     # signed reading (two's complement mask)
                    pts = [lo - 1, lo, -1, 0, 1, hi, hi + 1, maskv, maskv + 1, (maskv + 1) * 2 + 5]
                    reach = [v for v in pts if ev.may_hold(fa, {key: v})]
                    ok = all((lo <= v <= hi) for v in reach) or all((0 <= v <= maskv) for v in reach)
                    ctx.check("%s.%s:mask(%s & %#x)" % (k.name, fname, key, maskv), ok, where(m, node),
                              "the value is reduced with & %#x but values outside the representable range reach the mask (%r): they are emitted as a different value instead of being refused" % (maskv, [v for v in reach if not (lo <= v <= hi)][:4]),
                              facts={"guards": [repr(x) for x in fa]})
    ctx.count("mask_sites", n)
    # the unsigned types rely on struct to refuse: format must be unsigned 32 bit and the constructor must refuse negatives
    for name in ("Unsigned", "Enumerated"):
        k = prog.cls(PM, name)
        pe = [x for x in calls_in(k.methods["encode"]) if norm(x.func) == "struct.pack"]
        ok = len(pe) == 1 and prog.try_const(m, pe[0].args[0]) in (">L", ">I", "!L", "!I") and not isinstance(pe[0].args[1], ast.BinOp)
        ctx.check("%s.encode:struct-refuses" % name, ok, where(m, k.methods["encode"]), "the value must be handed to struct.pack unmasked so that a value >= 2**32 raises")
    u = prog.cls(PM, "Unsigned")
    iv = u.methods.get("is_valid")
    if iv is None:
        raise AnchorMissing("Unsigned.is_valid")
    ev = Evaluator(prog, m, u)
    arg = iv.args.args[1].arg
    # the value returned for each (argument, high limit), every feasible path evaluated
    from .common import path_return_value
    rej = set()
    undecided = set()
    ivp = [p_ for p_ in enumerate_paths(iv) if p_.term == "return"]
    for v in (-5, -1, 0, 1, 255, 256):
        for hi in (None, 255):
            env = {arg: v, "cls._low_limit": 0, "cls._high_limit is not None": hi is not None, "cls._high_limit is None": hi is None,
                   "isinstance(%s, int)" % arg: True, "isinstance(%s, bool)" % arg: False, "isinstance(%s, long)" % arg: False, "isinstance:%s" % arg: "int"}
            if hi is not None:
                env["cls._high_limit"] = hi
            outs = set()
            for p_ in ivp:
                k_, val = path_return_value(p_, ev, env)
                if k_ == "infeasible":
                    continue
                outs.add(val if k_ == "value" else "?")
            if outs == {False}:
                rej.add((v, hi))
            elif outs != {True}:
                undecided.add((v, hi))
    rej |= {("undecided",) + x for x in undecided}
    want = {(-5, None), (-1, None), (-5, 255), (-1, 255), (256, 255)}
    ctx.check("Unsigned.is_valid:limits", rej == want, where(m, iv), "is_valid must refuse exactly the values below _low_limit and above a set _high_limit (refused (value, high limit): %r)" % sorted(rej, key=str))
    init = u.methods["__init__"]
    sts = [s for t, s in stores_in(init) if is_self_attr(t, "value") and not isinstance(s.value, ast.Constant)]
    ok = bool(sts) and all(any("is_valid" in norm(x.test) for x in facts_at(s)) for s in sts)
    ctx.check("Unsigned.__init__:validates", ok, where(m, init), "every value stored by the constructor must have passed is_valid")


@rule("C01.R6", "enumerations and bit names are injective (one number per name, one name per number)", floor=80, engines="E3")
def r6(ctx):
    prog = ctx.prog
    T = Tables(prog)
    ne = nb = 0
    for mn in ("primitivedata", "basetypes", "apdu", "object", "bvll", "npdu"):
        if mn not in prog.modules:
            continue
        for c in prog.modules[mn].classes.values():
            if "enumerations" in c.attrs and isinstance(c.attrs["enumerations"], ast.Dict):
                ne += 1
                pairs = T.own_enum_pairs(c)
                byname, bynum = {}, {}
                dupn, dupv = [], []
                for name, num, node in pairs:
                    if name in byname and byname[name] != num:
                        dupn.append((name, byname[name], num))
                    byname[name] = num
                for name, num in byname.items():
                    if num in bynum and bynum[num] != name:
                        dupv.append((num, bynum[num], name))
                    bynum.setdefault(num, name)
                ctx.check("%s:injective" % c.name, not dupv, c.where(), "number carries two names, the reverse table keeps only one of them: %r" % dupv[:3])
                ctx.check("%s:names-unique" % c.name, not dupn, c.where(), "name listed twice with different numbers: %r" % dupn[:3])
                ctx.check("%s:numbers-valid" % c.name, all(isinstance(v, int) and not isinstance(v, bool) and v >= 0 for v in byname.values()), c.where(), "enumeration values must be non-negative integers")
            if "bitNames" in c.attrs and isinstance(c.attrs["bitNames"], ast.Dict):
                nb += 1
                d = prog.try_const(c.module, c.attrs["bitNames"], c)
                bl = prog.try_const(c.module, c.attrs.get("bitLen"), c) if "bitLen" in c.attrs else None
                if isinstance(d, dict) and d:
                    vals = list(d.values())
                    ctx.check("%s:bit-positions-unique" % c.name, len(set(vals)) == len(vals), c.where(), "two bit names on one position")
                    ctx.check("%s:bit-positions-in-range" % c.name, isinstance(bl, int) and all(isinstance(v, int) and 0 <= v < bl for v in vals), c.where(), "bit position outside 0..bitLen-1 (bitLen %r)" % (bl,))
    ctx.count("enumerations", ne)
    ctx.count("bitstrings", nb)
    # the reverse table is built from the same dict both ways
    f = prog.module(PM).functions.get("expand_enumerations")
    if f is None:
        raise AnchorMissing("primitivedata.expand_enumerations")
    sts = [norm(s) for s in walk_shallow(f) if isinstance(s, ast.Assign) and isinstance(s.targets[0], ast.Subscript)]
    ctx.check("expand_enumerations:both-directions", sorted(sts) == ["xlateTable[name] = value", "xlateTable[value] = name"], where(prog.module(PM), f), "the translation table must map name->number and number->name")


def _lstrip_idiom(f):
    """data = data.lstrip(b'\\x00') or <one zero octet>: the library spelling of "drop leading zero octets, keep one" """
    for s in walk_shallow(f):
        if isinstance(s, ast.Assign) and norm(s.targets[0]) == "data" and isinstance(s.value, ast.BoolOp) and isinstance(s.value.op, ast.Or) and len(s.value.values) == 2:
            a, b = s.value.values
            if norm(a).replace('"', "'") in ("data.lstrip(b'\\x00')", "data.lstrip(bytes(1))") and norm(b).replace('"', "'") in ("bytearray(1)", "bytes(1)", "b'\\x00'", "bytearray(b'\\x00')", "bytearray([0])"):
                return s
    return None


def _strip_loop(ctx, k, f, neg, extra=None):
    """which (data[0], data[1]) pairs let the strip loop delete the leading octet?"""
    prog = ctx.prog
    ev = Evaluator(prog, k.module, k)
    out = {}
    loops = [l for l in walk_shallow(f) if isinstance(l, ast.While)]
    for lp in loops:
        dels = [d for d in ast.walk(lp) if isinstance(d, ast.Delete) and norm(d.targets[0]) == "data[0]"]
        if len(dels) != 1:
            continue
        fa_loop = [x for x in facts_at(lp)]
        paths = body_paths(lp.body)
        # locals the loop's conditions read that are set before the loop (a fill octet, a sign bit): their value on the
        # paths that reach the loop, given what the caller fixed (the sign of the value)
        pre = {}
        if extra:
            from .common import path_value
            wanted = {n_.id for st_ in [lp] for n_ in ast.walk(st_) if isinstance(n_, ast.Name) and isinstance(n_.ctx, ast.Load)} - {"data", "len"}
            for nm_ in sorted(wanted):
                vals_ = set()
                for fp_ in enumerate_paths(f):
                    if not any(e_.node is lp for e_ in fp_.events):
                        continue
                    k_, v_ = path_value(fp_, ev, dict(extra), nm_, upto=lp)
                    if k_ == "value":
                        vals_.add(v_)
                    elif k_ == "unknown":
                        vals_.add(("?",))
                if len(vals_) == 1 and ("?",) not in vals_:
                    pre[nm_] = vals_.pop()
        acc = set()
        for ln in (1, 2, 4):
            for d0 in (0, 1, 0x7F, 0x80, 0xFF):
                for d1 in (0, 0x7F, 0x80, 0xFF):
                    env = {"len(data)": ln, "data[0]": d0, "data[1]": d1}
                    env.update(extra or {})
                    env.update(pre)
                    if ev.eval3(lp.test, env) is False:
                        continue
                    if reaches(paths, dels[0], ev, env):
                        acc.add((ln, d0, d1))
        out[id(lp)] = (lp, acc, fa_loop)
    return out


_SIGNED_FMT = {"b": 1, "h": 2, "i": 4, "l": 4, "q": 8}


def _packed_signed_octets(e):
    """`e` builds the octets of self.value from a big-endian signed struct.pack, optionally wrapped in bytearray()/bytes()
    and with leading octets sliced off: -> (format width, octets kept) or None"""
    while isinstance(e, ast.Call) and isinstance(e.func, ast.Name) and e.func.id in ("bytearray", "bytes") and len(e.args) == 1 and not e.keywords:
        e = e.args[0]
    drop = 0
    if isinstance(e, ast.Subscript) and isinstance(e.slice, ast.Slice) and e.slice.upper is None and e.slice.step is None \
            and isinstance(e.slice.lower, ast.Constant) and isinstance(e.slice.lower.value, int) and e.slice.lower.value >= 0:
        drop = e.slice.lower.value
        e = e.value
    if not (isinstance(e, ast.Call) and norm(e.func) == "struct.pack" and len(e.args) == 2 and not e.keywords):
        return None
    fmt = e.args[0].value if isinstance(e.args[0], ast.Constant) else None
    if not isinstance(fmt, str) or len(fmt) != 2 or fmt[0] not in ">!" or fmt[1] not in _SIGNED_FMT or norm(e.args[1]) != "self.value":
        return None
    width = _SIGNED_FMT[fmt[1]]
    return (width, width - drop) if drop < width else None


def _size_ladder(ctx, k, enc, ev):
    """Integer.encode written as a ladder of range tests, each arm packing self.value in a fixed signed width: for every
    boundary of the signed 1..4 octet ranges, every constant the function compares with and their neighbours, the octets
    emitted on the (single) feasible path must be the shortest two's complement form.  -> {'neg': bool, 'pos': bool} or None
    when the function is not of that shape"""
    from .common import path_value
    sets = [c for c in calls_in(enc) if isinstance(c.func, ast.Attribute) and c.func.attr == "set_app_data" and len(c.args) == 2]
    if len(sets) != 1:
        return None
    st = enclosing_stmt(sets[0])
    dname = norm(sets[0].args[1])
    consts = {n.value for n in ast.walk(enc) if isinstance(n, ast.Constant) and isinstance(n.value, int) and not isinstance(n.value, bool)}
    consts |= {-c for c in consts}
    pts = {0, 1, -1, 5, -5, 300, -300, 70000, -70000, (1 << 24) + 5, -(1 << 24) - 5}
    for b in (7, 15, 23, 31):
        pts |= {(1 << b) - 1, 1 << b, -(1 << b), -(1 << b) - 1}
    for c in consts:
        pts |= {c - 1, c, c + 1}
    pts = sorted(v for v in pts if -(1 << 31) <= v <= (1 << 31) - 1)
    paths = enumerate_paths(enc)
    res = {"neg": True, "pos": True}
    seen = 0
    for v in pts:
        want = next(n for n in (1, 2, 3, 4) if -(1 << (8 * n - 1)) <= v <= (1 << (8 * n - 1)) - 1)
        shapes = set()
        for p in paths:
            if not any(e_.node is st for e_ in p.events):
                continue
            kind, _ = path_value(p, ev, {"self.value": v}, dname, upto=st)
            if kind == "infeasible":
                continue
            last = None
            for e_ in p.events:
                if e_.node is st:
                    break
                if e_.kind == "stmt" and isinstance(e_.node, ast.Assign) and len(e_.node.targets) == 1 and norm(e_.node.targets[0]) == dname:
                    last = e_.node.value
                elif e_.kind == "stmt" and any(isinstance(x, (ast.Name, ast.Subscript)) and isinstance(x.ctx, (ast.Store, ast.Del)) and norm(x).split("[")[0] == dname for x in ast.walk(e_.node)):
                    last = False
            shapes.add(_packed_signed_octets(last) if last not in (None, False) else None)
        if not shapes:
            return None                                   # an in-range value that reaches no encoder: not this shape
        seen += 1
        ok = len(shapes) == 1 and None not in shapes
        if ok:
            width, kept = next(iter(shapes))
            ok = kept == want and -(1 << (8 * width - 1)) <= v <= (1 << (8 * width - 1)) - 1
        if not ok:
            res["neg" if v < 0 else "pos"] = False
    ctx.count("integer-size-ladder-points", seen)
    return res


@rule("C01.R7", "integers are emitted in the standard's shortest form; bit strings declare (8 - n mod 8) mod 8 unused bits", floor=5, engines="E1 paths + E5 finite-domain evaluation")
def r7(ctx):
    prog = ctx.prog
    m = prog.module(PM)
    grid3 = [(ln, d0, d1) for ln in (1, 2, 4) for d0 in (0, 1, 0x7F, 0x80, 0xFF) for d1 in (0, 0x7F, 0x80, 0xFF)]
    for name in ("Unsigned", "Enumerated"):
        k = prog.cls(PM, name)
        res = _strip_loop(ctx, k, k.methods["encode"], False)
        ok = len(res) == 1
        if ok:
            lp, acc, _ = list(res.values())[0]
            ok = acc == {(ln, d0, d1) for ln, d0, d1 in grid3 if ln > 1 and d0 == 0}
        elif not res and _lstrip_idiom(k.methods["encode"]) is not None:
            ok = True
        ctx.check("%s.encode:shortest-form" % name, ok, where(m, k.methods["encode"]), "leading zero octets must be dropped while more than one octet remains, nothing else")
    k = prog.cls(PM, "Integer")
    enc = k.methods["encode"]
    ev = Evaluator(prog, m, k)
    got = {}
    for sign, v in (("neg", -5), ("pos", 5)):
        # the loops this sign can reach, analysed with the sign known (one loop per sign, or one loop parametrised by it)
        res = _strip_loop(ctx, k, enc, True, {"self.value": v})
        accs = [acc for lp, acc, fa in res.values() if ev.may_hold(fa, {"self.value": v})]
        if len(accs) == 1:
            got[sign] = accs[0]
    want_neg = {(ln, d0, d1) for ln, d0, d1 in grid3 if ln > 1 and d0 == 0xFF and d1 >= 0x80}
    want_pos = {(ln, d0, d1) for ln, d0, d1 in grid3 if ln > 1 and d0 == 0 and d1 < 0x80}
    if not got and not any(isinstance(l, ast.While) for l in walk_shallow(enc)):
        # no strip loop at all: the other spelling of the same rule is a ladder of range tests choosing a signed width
        lad = _size_ladder(ctx, k, enc, ev)
        if lad is not None:
            got = {"neg": want_neg if lad["neg"] else None, "pos": want_pos if lad["pos"] else None}
    ctx.check("Integer.encode:shortest-form-negative", got.get("neg") == want_neg, where(m, enc), "for negative values a leading 0xFF is dropped only while the next octet keeps the sign bit set")
    ctx.check("Integer.encode:shortest-form-positive", got.get("pos") == want_pos, where(m, enc), "for non-negative values a leading 0x00 is dropped only while the next octet keeps the sign bit clear")
    # zero is non-negative
    b = prog.cls(PM, "BitString")
    enc = b.methods["encode"]
    evb = Evaluator(prog, m, b)
    # the value `unused` holds where it is first used (the first data octet), followed along every path, for bit counts 0..70
    from .common import path_value
    first_use = [x for x in calls_in(enc) if norm(x.func) == "bytearray"]
    ok = bool(first_use)
    if ok:
        stop = enclosing_stmt(first_use[0])
        for nbits in list(range(0, 20)) + [63, 64, 65, 70]:
            seen = 0
            for p_ in enumerate_paths(enc):
                if not any(e_.node is stop for e_ in p_.events):
                    continue
                k_, val = path_value(p_, evb, {"len(self.value)": nbits}, "unused", upto=stop)
                if k_ == "infeasible":
                    continue
                seen += 1
                if k_ != "value" or val != (8 - nbits % 8) % 8 or isinstance(val, bool):
                    ok = False
            if not seen:
                ok = False
    ctx.check("BitString.encode:unused-bits", ok, where(m, enc), "unused bits must be (8 - n mod 8) mod 8")
    first = [x for x in calls_in(enc) if norm(x.func) == "bytearray"]
    ctx.check("BitString.encode:unused-first", bool(first) and norm(first[0].args[0]) == "[unused]", where(m, enc), "the unused-bit count is the first data octet")
    dec = b.methods["decode"]
    sl = [n for n in walk_shallow(dec) if isinstance(n, ast.Subscript) and isinstance(n.slice, ast.Slice) and norm(n.value) == "data"]
    ok = len(sl) == 1 and sl[0].slice.lower is None and norm(sl[0].slice.upper) == "-unused"
    ctx.check("BitString.decode:drops-unused", ok, where(m, dec), "the decoder must drop exactly the declared unused bits from the end")
    # data[:-0] is the empty list: with no unused bits the data must be kept whole
    got = {}
    for st_ in [s_ for t_, s_ in stores_in(dec) if is_self_attr(t_, "value")]:
        for u in (0, 1, 7):
            if evb.may_hold(facts_at(st_), {"unused": u}):
                got.setdefault(u, set()).add(norm(st_.value))
    ctx.check("BitString.decode:zero-unused-keeps-all", got.get(0) == {"data"} and got.get(1) == {"data[:-unused]"} and got.get(7) == {"data[:-unused]"}, where(m, dec),
              "with an unused-bit count of 0 every bit must be kept (data[:-0] is empty): stores per unused count %r" % {k: sorted(v) for k, v in got.items()})
    # bit order msb first on both sides
    sh_e = [n for n in walk_shallow(enc) if isinstance(n, ast.BinOp) and isinstance(n.op, ast.LShift) and "7 - " in norm(n.right)]
    sh_d = [n for n in walk_shallow(dec) if isinstance(n, ast.BinOp) and isinstance(n.op, (ast.LShift, ast.RShift)) and "7 - " in norm(n.right)]
    ctx.check("BitString:msb-first", len(sh_e) == 1 and len(sh_d) == 1, where(m, b.node), "bit i of each octet is 1 << (7 - i) on both sides")


@rule("C01.R10", "a bit string holds only 0 and 1: whatever is assigned to a bit is reduced to its truth, a list given to the constructor is accepted only if every element is 0 or 1, decoding appends 0 or 1",
      floor=4, engines="E5 finite-domain evaluation")
def r10(ctx):
    prog = ctx.prog
    m = prog.module(PM)
    b = prog.cls(PM, "BitString")
    ev = Evaluator(prog, m, b)
    samples = [0, 1, 2, 4, 6, 128, 255, -1, True, False]
    n = 0
    for name, f in sorted(b.methods.items()):
        params = [a.arg for a in f.args.args[1:]]
        for st in walk_shallow(f):
            if isinstance(st, ast.Assign) and isinstance(st.targets[0], ast.Subscript) and norm(st.targets[0].value) == "self.value" and not isinstance(st.targets[0].slice, ast.Slice):
                n += 1
                v = st.value
                names = sorted({x.id for x in ast.walk(v) if isinstance(x, ast.Name)} & set(params))
                ok = True
                bad = None
                if prog.try_const(m, v) in (0, 1) and not names:
                    pass
                elif len(names) == 1:
                    for sv in samples:
                        try:
                            got = ev.value(v, {names[0]: sv})
                        except (NotConst, TypeError, ValueError):
                            ok, bad = False, "not evaluable for %r" % (sv,)
                            break
                        if not (isinstance(got, int) and got in (0, 1) and got == (1 if sv else 0)):
                            ok, bad = False, "%r stored for %r" % (got, sv)
                            break
                else:
                    ok, bad = False, "value %s not understood" % norm(v)
                ctx.check("BitString.%s:bit-store[%s]" % (name, norm(st.targets[0])), ok, where(m, st),
                          "a bit must be stored as 1 if the given value is true, else 0 (%s): any other integer is ORed into the neighbouring bits by encode" % bad)
    if n < 2:
        raise ShapeError("BitString: %d element stores found" % n)
    # the constructor takes a list as it is only when every element is 0 or 1
    init = b.methods["__init__"]
    whole = [s_ for t_, s_ in stores_in(init) if is_self_attr(t_, "value") and isinstance(s_, ast.Assign) and isinstance(s_.value, ast.Name) and s_.value.id in [a.arg for a in init.args.args[1:]]]
    ok = len(whole) == 1
    if ok:
        flags = [t for t, p_ in atom_texts(facts_at(whole[0])) if p_ and t.isidentifier()]
        defs = [s_ for s_ in walk_shallow(init) if isinstance(s_, ast.Assign) and len(s_.targets) == 1 and norm(s_.targets[0]) in flags and enclosing_loops(s_)]
        ok = False
        for d in defs:
            flag = norm(d.targets[0])
            lp = enclosing_loops(d)[0]
            el = norm(lp.target)
            if norm(lp.iter) != whole[0].value.id:
                continue
            try:
                res = {sv: ev.value(d.value, {flag: True, el: sv}) for sv in [0, 1, 2, -1, 255]}
                stay = all(not ev.value(d.value, {flag: False, el: sv}) for sv in (0, 1))
            except (NotConst, TypeError, ValueError):
                continue
            if [bool(res[sv]) for sv in (0, 1, 2, -1, 255)] == [True, True, False, False, False] and stay:
                ok = True
    ctx.check("BitString.__init__:list-of-bits-validated", ok, where(m, init), "a list is taken over as the bits only if every element was tested to be 0 or 1")
    dec = b.methods["decode"]
    aps = [x for x in calls_in(dec) if norm(x.func) == "data.append"]
    ok = len(aps) >= 1 and all(len(x.args) == 1 and (prog.try_const(m, x.args[0]) in (0, 1) or _bit_expr(ev, x.args[0])) for x in aps)
    ctx.check("BitString.decode:appends-bits", ok, where(m, dec), "decoding must append 0 or 1 per bit")


def _bit_expr(ev, e):
    """an expression like (x >> k) & 1 or int(bool(..)): 0 or 1 for every octet"""
    names = sorted({x.id for x in ast.walk(e) if isinstance(x, ast.Name)})
    try:
        import itertools
        for vals in itertools.product((0, 1, 7, 128, 255), repeat=len(names)):
            env = dict(zip(names, [v % 8 if n_ in ("i", "j", "k") else v for n_, v in zip(names, vals)]))
            if ev.value(e, env) not in (0, 1):
                return False
        return True
    except (NotConst, TypeError, ValueError):
        return False


@rule("C01.R8", "the tag header that carries every primitive (length escapes, extended numbers) follows clause 20.2.1 on both sides", floor=8, engines="E4 (shared with C02.R1)")
def r8(ctx):
    from . import c02
    c02.r1(ctx)


@rule("C01.R9", "a primitive built from another instance of its type (as Atomic.coerce and comparisons do) carries over every field its encoder reads", floor=9, engines="E0 field sets + E1 facts")
def r9(ctx):
    from ..guards import atoms_of_facts
    prog = ctx.prog
    m = prog.module(PM)
    atomic = prog.cls(PM, "Atomic")
    n = 0
    for name, c in m.classes.items():
        if atomic not in prog.mro(c) or "__init__" not in c.methods:
            continue
        init = c.methods["__init__"]
        if len(init.args.args) < 2:
            continue
        arg = init.args.args[1].arg
        found = prog.find_method(c, "encode")
        if found is None:
            continue
        reads = {x.attr for x in ast.walk(found[1]) if is_self_attr(x) and isinstance(x.ctx, ast.Load)}
        stored = {t.attr for t, s in stores_in(init) if is_self_attr(t)}
        copy = {}
        has_arm = False
        for x in ast.walk(init):
            if isinstance(x, ast.Call) and norm(x.func) == "isinstance" and len(x.args) == 2 and norm(x.args[0]) == arg and norm(x.args[1]) == name:
                has_arm = True
        for t, s in stores_in(init):
            if is_self_attr(t) and isinstance(s, ast.Assign):
                for a, pol in atoms_of_facts(facts_at(s)):
                    if pol and isinstance(a, ast.Call) and norm(a.func) == "isinstance" and len(a.args) == 2 and norm(a.args[0]) == arg and norm(a.args[1]) == name:
                        copy[t.attr] = s.value
        if not has_arm:
            continue
        n += 1
        need = sorted(reads & stored)
        missing = [f for f in need if f not in copy or not any(is_attr_of(v, arg, f) for v in ast.walk(copy[f]))]
        ctx.check("%s.__init__:copy-carries-encoded-fields" % name, not missing, where(m, init),
                  "%s(other %s) does not take over %s, which encode() writes to the wire: the copy encodes differently from the original" % (name, name, missing),
                  facts={"encode_reads": sorted(reads), "copied": sorted(copy)})
    ctx.count("copy constructors", n)


def is_attr_of(node, base, attr):
    return isinstance(node, ast.Attribute) and node.attr == attr and isinstance(node.value, ast.Name) and node.value.id == base


@rule("C01.R11", "a character string is sent as the octets it holds under the character set it holds; an enumeration class builds its own name table", floor=2, engines="E0")
def r11(ctx):
    prog = ctx.prog
    m = prog.module(PM)
    cs = prog.cls(PM, "CharacterString")
    enc = cs.methods.get("encode")
    if enc is None:
        raise AnchorMissing("CharacterString.encode")
    sets = [x for x in calls_in(enc) if norm(x.func).endswith(".set_app_data") and len(x.args) == 2]
    ok = len(sets) == 1
    if ok:
        data = sets[0].args[1]
        ok = any(is_self_attr(n, "strEncoding") for n in ast.walk(data)) and any(is_self_attr(n, "strValue") for n in ast.walk(data)) \
            and not any(isinstance(n, ast.Call) and isinstance(n.func, ast.Attribute) and n.func.attr == "encode" for n in ast.walk(data)) \
            and not any(is_self_attr(n, "value") for n in ast.walk(data))
    ctx.check("CharacterString.encode:stored-octets", ok, where(m, enc),
              "the data must be the character-set octet followed by the stored octets (strValue): re-encoding the text as UTF-8 garbles every string that was decoded in another character set")
    en = prog.cls(PM, "Enumerated")
    init = en.methods.get("__init__")
    if init is None:
        raise AnchorMissing("Enumerated.__init__")
    ex = [x for x in calls_in(init) if norm(x.func) == "expand_enumerations"]
    ok = len(ex) == 1
    if ok:
        tests = [norm(z.test) for z in facts_at(ex[0])]
        ok = any("__dict__" in t and "_xlate_table" in t for t in tests)
    ctx.check("Enumerated.__init__:own-table", ok, where(m, init),
              "the name table is built when the class itself has none (its own __dict__): testing the inherited attribute makes an enumeration derived from an expanded one keep its base's table and refuse its own names")
