"""C02 - tag streams are self-delimiting: tag header layout on both sides
against clause 20.2.1, bounded reads and error translation, progress of the
tag-list decoder, open/close level counting."""
import ast

from ..report import rule
from ..model import norm, NotConst, calls_in, stores_in, ShapeError, AnchorMissing, is_self_attr
from ..paths import enumerate_paths, facts_at, walk_shallow, enclosing_stmt, always_leaves, enclosing_loops
from ..guards import Evaluator, atom_texts
from ..codec import extract, feasible_branches, consistent_branch
from .common import where, feasible, path_nodes, same_function, grid

PM = "primitivedata"
APP, CTX, OPEN, CLOSE = 0, 1, 2, 3


def tag_consts(ctx):
    t = ctx.prog.cls(PM, "Tag")
    out = {}
    for n, want in (("applicationTagClass", 0), ("contextTagClass", 1), ("openingTagClass", 2), ("closingTagClass", 3), ("booleanAppTag", 1)):
        if n not in t.attrs:
            raise AnchorMissing("Tag.%s" % n)
        out[n] = ctx.prog.const(t.module, t.attrs[n], t)
    return t, out


def ref_tag(cls, num, lvt, data_len):
    """clause 20.2.1.1 - 20.2.1.3.2 -> [(width, value)] (data as ('data', n))"""
    o = (num << 4) if num < 15 else 0xF0
    if cls == CTX:
        o |= 0x08
    elif cls == OPEN:
        o |= 0x0E
    elif cls == CLOSE:
        o |= 0x0F
    out = []
    if cls in (OPEN, CLOSE):
        out.append((1, o))
        if num >= 15:
            out.append((1, num))
        return out
    o |= lvt if lvt < 5 else 5
    out.append((1, o))
    if num >= 15:
        out.append((1, num))
    if lvt >= 5:
        if lvt <= 253:
            out.append((1, lvt))
        elif lvt <= 65535:
            out += [(1, 254), (2, lvt)]
        else:
            out += [(1, 255), (4, lvt)]
    return out


NUMS = [0, 1, 12, 14, 15, 16, 100, 254]
LVTS = [0, 1, 4, 5, 6, 7, 100, 253, 254, 255, 256, 65535, 65536, 70000]


@rule("C02.R1", "Tag.encode and Tag.decode implement the tag header of clause 20.2.1 (class bits, extended tag number, length escapes 5..253 / 254+16 bit / 255+32 bit) and agree",
      floor=8, engines="E4 layout extraction + finite-domain evaluation")
def r1(ctx):
    prog = ctx.prog
    t, K = tag_consts(ctx)
    m = t.module
    ok = (K["applicationTagClass"], K["contextTagClass"], K["openingTagClass"], K["closingTagClass"]) == (0, 1, 2, 3)
    ctx.check("Tag:class-constants", ok and K["booleanAppTag"] == 1, where(m, t.node), "tag class constants must be application 0, context 1, opening 2, closing 3; boolean application tag 1")
    ev = Evaluator(prog, m, t)
    e, d = t.methods.get("encode"), t.methods.get("decode")
    if e is None or d is None:
        raise AnchorMissing("Tag.encode/decode")
    enc = [b for b in extract(prog, t, e, "encode") if consistent_branch(b)]
    dec = [b for b in extract(prog, t, d, "decode") if consistent_branch(b)]
    ctx.count("encode_branches", len(enc))
    ctx.count("decode_branches", len(dec))
    res = {}

    def note(k, ok, msg):
        if k not in res or (res[k][0] and not ok):
            res[k] = (ok, msg)
    ncase = 0
    wide = ctx.tier == "thorough"
    nums = list(range(0, 255)) if wide else NUMS
    wide_lvts = sorted(set(LVTS + list(range(0, 300)) + [65534, 65537, 2 ** 24 - 1, 2 ** 24, 2 ** 31, 2 ** 32 - 1]))
    for cls in (APP, CTX, OPEN, CLOSE):
        cname = ["application", "context", "opening", "closing"][cls]
        for num in nums:
            for lvt in ((wide_lvts if wide and num in NUMS else LVTS) if cls in (APP, CTX) else [0]):
                ncase += 1
                want = ref_tag(cls, num, lvt, lvt)
                env = {"self.tagClass": cls, "self.tagNumber": num, "self.tagLVT": lvt, "self.tagData": b""}
                fb = [b for b in feasible_branches(enc, ev, env) if b.term != "raise"]
                ek = "Tag.encode[%s]" % cname
                if len(fb) != 1:
                    note(ek, False, "%d branches for class=%s num=%d lvt=%d" % (len(fb), cname, num, lvt))
                else:
                    try:
                        got = [(i.width, ev.value(i.expr, env)) for i in fb[0].emits()]
                    except (NotConst, TypeError) as ex:
                        got = "not evaluable: %s" % ex
                    # the last emit is the data
                    if isinstance(got, list) and got and got[-1] == ("data", b""):
                        got = got[:-1]
                        note("Tag.encode:data-last", norm(fb[0].emits()[-1].expr) == "self.tagData", "the tag's data must follow the header")
                    else:
                        note("Tag.encode:data-last", False, "the tag's data must be emitted after the header")
                    note(ek, got == want, "class=%s number=%d length/value=%d: emits %r, clause 20.2.1 prescribes %r" % (cname, num, lvt, got, want))
                # decode the reference header
                dk = "Tag.decode[%s]" % cname
                is_bool = cls == APP and num == K["booleanAppTag"]
                cand = []
                for b in dec:
                    if b.term == "raise":
                        continue
                    rd = b.reads()
                    env2 = {}
                    i = 0
                    okb = True
                    for r in rd:
                        if r.width == "data":
                            env2[r.target] = ("data", r.expr)
                            continue
                        if i >= len(want) or want[i][0] != r.width:
                            okb = False
                            break
                        env2[r.target] = want[i][1]
                        i += 1
                    if not okb or i != len(want):
                        continue
                    envx = {k: v for k, v in env2.items() if not isinstance(v, tuple)}
                    if len(feasible_branches([b], ev, envx)) == 1:
                        cand.append((b, env2, envx))
                if len(cand) != 1:
                    note(dk, False, "%d decode branches accept the reference header %r of class=%s num=%d lvt=%d" % (len(cand), want, cname, num, lvt))
                    continue
                b, env2, envx = cand[0]
                st = b.stores()

                def val(k):
                    # last store wins: the extractor keeps only the last expression per target
                    ex = st.get(k)
                    if ex is None:
                        return ("unset",)
                    try:
                        return ev.value(ex, envx)
                    except NotConst:
                        return ("expr", norm(ex))
                probs = []
                if val("self.tagClass") != cls:
                    probs.append("class %r" % (val("self.tagClass"),))
                if val("self.tagNumber") != num:
                    probs.append("number %r" % (val("self.tagNumber"),))
                if val("self.tagLVT") != (lvt if cls in (APP, CTX) else 0):
                    probs.append("length/value %r" % (val("self.tagLVT"),))
                datareads = [r for r in b.reads() if r.width == "data"]
                if is_bool:
                    if datareads:
                        probs.append("application boolean must not read data octets")
                else:
                    if len(datareads) != 1:
                        probs.append("%d data reads" % len(datareads))
                    else:
                        try:
                            n = ev.value(datareads[0].expr, envx)
                        except NotConst:
                            n = None
                        if n != (lvt if cls in (APP, CTX) else 0):
                            probs.append("reads %r data octets" % (n,))
                        if norm(st.get("self.tagData")) != datareads[0].target:
                            probs.append("data not stored in tagData")
                note(dk + (":boolean" if is_bool else ""), not probs, "header %r (class=%s num=%d lvt=%d) decodes wrongly: %s" % (want, cname, num, lvt, "; ".join(probs)))
    for k, (ok, msg) in sorted(res.items()):
        ctx.check(k, ok, where(m, e if ".encode" in k else d), msg)
    ctx.count("layout_cases", ncase)


def pdudata_reads(ctx):
    """the buffer every decoder reads from: bounded, consuming, big endian (registered as C02.R2, C08.R5, C09.R5)"""
    prog = ctx.prog
    pd = prog.cls("comm", "PDUData")
    m = pd.module
    ev = Evaluator(prog, m, pd)
    g = pd.methods.get("get")
    gd = pd.methods.get("get_data")
    if g is None or gd is None:
        raise AnchorMissing("PDUData.get/get_data")
    # get() may be written on top of get_data(1): then get_data's checks are its checks
    deleg = [r for r in walk_shallow(g) if isinstance(r, ast.Return) and r.value is not None and norm(r.value) == "self.get_data(1)[0]"]
    g_delegates = len(deleg) == 1 and not [n for n in walk_shallow(g) if isinstance(n, ast.Attribute) and n.attr == "pduData"]
    if g_delegates:
        ctx.check("PDUData.get:via-get_data", not facts_at(deleg[0]), where(m, g), "get() returns the single octet get_data(1) yields")
    # get(): the read and the delete are reached only with at least one octet
    for n in walk_shallow(g):
        if isinstance(n, (ast.Subscript, ast.Delete)) and "self.pduData" in norm(n):
            fa = facts_at(n)
            reach = [k for k in (0, 1, 2, 9) if ev.may_hold(fa, {"len(self.pduData)": k})]
            ctx.check("PDUData.get:bounded[%s]" % type(n).__name__, reach == [1, 2, 9], where(m, n), "the buffer is accessed with %r octets available" % reach)
    n_arg = gd.args.args[1].arg
    for n in walk_shallow(gd):
        if isinstance(n, (ast.Subscript, ast.Delete)) and "self.pduData" in norm(n):
            fa = facts_at(n)
            reach = sorted((k, want) for k in (0, 1, 4) for want in (0, 1, 4, 5) if ev.may_hold(fa, {"len(self.pduData)": k, n_arg: want}))
            ctx.check("PDUData.get_data:bounded[%s]" % type(n).__name__, reach == sorted((k, w) for k in (0, 1, 4) for w in (0, 1, 4, 5) if k >= w), where(m, n), "data is sliced with (available, wanted) in %r" % reach[:6])
    for f, nm in ((g, "get"), (gd, "get_data")):
        if nm == "get" and g_delegates:
            continue
        rs = [r for r in walk_shallow(f) if isinstance(r, ast.Raise)]
        ctx.check("PDUData.%s:raises-DecodingError" % nm, len(rs) == 1 and "DecodingError" in norm(rs[0]), where(m, f), "a short buffer must raise DecodingError")
        # consumed octets are removed (progress)
        dl = [n for n in walk_shallow(f) if isinstance(n, ast.Delete)]
        ctx.check("PDUData.%s:consumes" % nm, len(dl) == 1, where(m, f), "the octets returned must be removed from the buffer")
    sl = [n for n in walk_shallow(gd) if isinstance(n, ast.Subscript) and isinstance(n.slice, ast.Slice)]
    ctx.check("PDUData.get_data:slice", len(sl) == 2 and all(x.slice.lower is None and norm(x.slice.upper) == n_arg for x in sl), where(m, gd), "exactly the first n octets are returned and deleted")
    for nm, fmt, w in (("get_short", ">H", 2), ("get_long", ">L", 4)):
        f = pd.methods.get(nm)
        if f is None:
            raise AnchorMissing("PDUData.%s" % nm)
        # the octets come from get_data(w) - the one bounded, consuming read - and nothing touches the buffer directly;
        # they are combined big endian (struct '>'/'!' or int.from_bytes(.., 'big'))
        direct = [n for n in walk_shallow(f) if isinstance(n, ast.Attribute) and n.attr == "pduData"]
        gets = [x for x in calls_in(f) if norm(x.func) == "self.get_data"]
        ok = not direct and len(gets) == 1 and len(gets[0].args) == 1 and prog.try_const(m, gets[0].args[0]) == w
        if ok:
            cs = [x for x in calls_in(f) if norm(x.func) == "struct.unpack"]
            ib = [x for x in calls_in(f) if norm(x.func) == "int.from_bytes"]
            if len(cs) == 1:
                ok = prog.try_const(m, cs[0].args[0]) in (fmt, "!" + fmt[1]) and norm(cs[0].args[1]) == norm(gets[0])
            elif len(ib) == 1:
                order = ib[0].args[1] if len(ib[0].args) > 1 else next((k.value for k in ib[0].keywords if k.arg == "byteorder"), None)
                ok = norm(ib[0].args[0]) == norm(gets[0]) and order is not None and prog.try_const(m, order) == "big" \
                    and not any(k.arg == "signed" and prog.try_const(m, k.value) for k in ib[0].keywords)
            else:
                ok = False
        ctx.check("PDUData.%s:via-get_data" % nm, ok, where(m, f), "%s must read %d octets through get_data (big endian)" % (nm, w))
    for nm, fmt in (("put_short", ">H"), ("put_long", ">L")):
        f = pd.methods.get(nm)
        cs = [x for x in calls_in(f) if norm(x.func) == "struct.pack"] if f else []
        tb = [x for x in calls_in(f) if isinstance(x.func, ast.Attribute) and x.func.attr == "to_bytes"] if f else []
        ok = len(cs) == 1 and prog.try_const(m, cs[0].args[0]) in (fmt, "!" + fmt[1])
        if not cs and len(tb) == 1:
            a_ = list(tb[0].args)
            if norm(tb[0].func.value) == "int":
                a_ = a_[1:]
            order = a_[1] if len(a_) > 1 else next((k.value for k in tb[0].keywords if k.arg == "byteorder"), None)
            ok = bool(a_) and prog.try_const(m, a_[0]) == {">H": 2, ">L": 4}[fmt] and order is not None and prog.try_const(m, order) == "big" \
                and not any(k.arg == "signed" and prog.try_const(m, k.value) for k in tb[0].keywords)
        ctx.check("PDUData.%s:big-endian" % nm, ok, where(m, f or pd.node), "%s must write big endian %s" % (nm, fmt))


@rule("C02.R2", "buffer reads are bounded (no over-read) and a short buffer surfaces as InvalidTag from Tag.decode", floor=8, engines="E1 facts + E5")
def r2(ctx):
    prog = ctx.prog
    pdudata_reads(ctx)
    # Tag.decode: every buffer read inside the try that translates DecodingError -> InvalidTag
    t = prog.cls(PM, "Tag")
    d = t.methods["decode"]
    buf = d.args.args[1].arg
    tries = [x for x in walk_shallow(d) if isinstance(x, ast.Try)]
    reads = [x for x in calls_in(d) if isinstance(x.func, ast.Attribute) and norm(x.func.value) == buf and x.func.attr.startswith("get")]
    ok = len(tries) == 1 and len(reads) >= 5
    if ok:
        tr = tries[0]
        inside = {id(x) for st in tr.body for x in ast.walk(st)}
        ok = all(id(r) in inside for r in reads)
        hs = [h for h in tr.handlers if h.type is not None and "DecodingError" in norm(h.type)]
        ok = ok and len(hs) == 1 and isinstance(hs[0].body[-1], ast.Raise) and "InvalidTag" in norm(hs[0].body[-1])
    ctx.check("Tag.decode:translates-short-buffer", ok, where(t.module, d), "all %d buffer reads must lie inside the try whose handler turns DecodingError into InvalidTag" % len(reads))
    rs = sorted({norm(r.exc.func) for r in walk_shallow(d) if isinstance(r, ast.Raise) and isinstance(r.exc, ast.Call)})
    ctx.check("Tag.decode:raises", rs == ["InvalidTag"], where(t.module, d), "explicit raise classes in Tag.decode: %r" % rs)


@rule("C02.R3", "the tag-list decoder makes progress: each iteration consumes at least one octet or raises", floor=3, engines="E1")
def r3(ctx):
    prog = ctx.prog
    tl = prog.cls(PM, "TagList")
    f = tl.methods.get("decode")
    if f is None:
        raise AnchorMissing("TagList.decode")
    buf = f.args.args[1].arg
    loops = [l for l in walk_shallow(f) if isinstance(l, ast.While)]
    ok = len(loops) == 1 and norm(loops[0].test) in ("%s.pduData" % buf, "len(%s.pduData) != 0" % buf, "len(%s.pduData) > 0" % buf, "len(%s.pduData)" % buf)
    ctx.check("TagList.decode:until-empty", ok, where(tl.module, f), "tags must be decoded until the buffer is empty")
    if ok:
        mk = [x for x in calls_in(loops[0]) if norm(x.func) == "Tag" and len(x.args) == 1 and norm(x.args[0]) == buf]
        ap = [x for x in calls_in(loops[0]) if norm(x.func) == "self.tagList.append"]
        ctx.check("TagList.decode:one-tag-per-iteration", len(mk) == 1 and len(ap) == 1 and not [x for x in facts_at(mk[0], stop=loops[0]) if x.origin != "loop"], where(tl.module, loops[0]), "each iteration must decode one tag from the buffer unconditionally and append it")
    # Tag(pdu) -> decode(pdu); decode starts with an unconditional consuming read
    t = prog.cls(PM, "Tag")
    init = t.methods["__init__"]
    dc = [x for x in calls_in(init) if norm(x.func) == "self.decode"]
    ctx.check("Tag.__init__:decodes", len(dc) == 1 and norm(dc[0].args[0]) == "args[0]", where(t.module, init), "Tag(pdu) must decode from the buffer")
    d = t.methods["decode"]
    buf = d.args.args[1].arg
    body = [x for x in d.body if not (isinstance(x, ast.Expr) and isinstance(x.value, ast.Constant))]
    first = body[0].body[0] if isinstance(body[0], ast.Try) else body[0]
    ok = isinstance(first, ast.Assign) and norm(first.value) == "%s.get()" % buf
    ctx.check("Tag.decode:first-read-unconditional", ok, where(t.module, d), "the first statement must consume the initial octet (progress on every input)")
    # encode side of the list
    e = tl.methods.get("encode")
    loops = [l for l in walk_shallow(e) if isinstance(l, ast.For)] if e else []
    ok = len(loops) == 1 and norm(loops[0].iter) == "self.tagList" and len([x for x in calls_in(loops[0]) if isinstance(x.func, ast.Attribute) and x.func.attr == "encode"]) == 1
    ctx.check("TagList.encode:all-in-order", ok, where(tl.module, e or tl.node), "every tag must be encoded once, in list order")


def _level_scan(ctx, c, f, cname, var="lvl"):
    """open -> +1, close -> -1, stop when negative: checked on the loop body's paths"""
    prog = ctx.prog
    t, K = tag_consts(ctx)
    ev = Evaluator(prog, c.module, c)
    loops = [l for l in walk_shallow(f) if isinstance(l, ast.While)]
    res = []
    for lp in loops:
        incs = [n for n in ast.walk(lp) if isinstance(n, ast.AugAssign) and norm(n.target) == var]
        if not incs or any(isinstance(x, ast.While) and x is not lp and any(i in list(ast.walk(x)) for i in incs) for x in ast.walk(lp)):
            continue
        from .common import body_paths, consistent
        okl = True
        detail = ""
        for cls_name, cls in (("applicationTagClass", 0), ("contextTagClass", 1), ("openingTagClass", 2), ("closingTagClass", 3)):
            for p in body_paths(lp.body):
                if not consistent(p.conds()) or not feasible(p, ev, {"tag.tagClass": cls, var: 1}):
                    continue
                delta = 0
                for n in path_nodes(p):
                    if isinstance(n, ast.AugAssign) and norm(n.target) == var and prog.try_const(c.module, n.value) == 1:
                        delta += 1 if isinstance(n.op, ast.Add) else -1 if isinstance(n.op, ast.Sub) else 99
                want = {2: 1, 3: -1}.get(cls, 0)
                if delta != want:
                    okl = False
                    detail = "a %s tag changes the level by %+d" % (cls_name.replace("TagClass", ""), delta)
        res.append((lp, okl, detail))
    return res


def _level_reset_before(lp, var="lvl"):
    """is `var = 0` a statement of the block that contains the loop, before the loop, with nothing in between that changes it?"""
    blk = getattr(lp, "_parent", None)
    for fld in ("body", "orelse", "finalbody"):
        lst = getattr(blk, fld, None)
        if isinstance(lst, list) and lp in lst:
            before = lst[:lst.index(lp)]
            last = None
            for st in before:
                for n in ast.walk(st):
                    if isinstance(n, ast.Name) and n.id == var and isinstance(n.ctx, ast.Store):
                        last = st
            return isinstance(last, ast.Assign) and len(last.targets) == 1 and norm(last.targets[0]) == var and isinstance(last.value, ast.Constant) and last.value.value == 0
    return False


def _inside(node, stmts):
    return any(node is n for s in stmts for n in ast.walk(s))


def _follows(node, lp):
    """node is in a statement of the block that contains the loop, after the loop"""
    blk = getattr(lp, "_parent", None)
    for fld in ("body", "orelse", "finalbody"):
        lst = getattr(blk, fld, None)
        if isinstance(lst, list) and lp in lst:
            return _inside(node, lst[lst.index(lp) + 1:])
    return False


def _scan_outcomes(prog, c, lp, ev, var="lvl"):
    """{(tag class, level before): {(how the iteration ends, level after, calls made)}} over the loop body's paths,
    with the level followed through its increments and decrements"""
    from .common import body_paths, consistent
    out = {}
    for cls in (0, 1, 2, 3):
        for v0 in (0, 1, 2):
            res = set()
            for p in body_paths(lp.body):
                if not consistent(p.conds()):
                    continue
                env = {"tag.tagClass": cls, var: v0}
                ok = True
                calls = []
                for e in p.events:
                    if e.kind == "cond":
                        v = ev.eval3(e.node, env)
                        if v is not None and v != e.pol:
                            ok = False
                            break
                    elif e.kind == "stmt":
                        n = e.node
                        if isinstance(n, ast.AugAssign) and norm(n.target) == var:
                            k = prog.try_const(c.module, n.value)
                            if var in env and isinstance(k, int) and isinstance(n.op, (ast.Add, ast.Sub)):
                                env[var] = env[var] + (k if isinstance(n.op, ast.Add) else -k)
                            else:
                                env.pop(var, None)
                        elif isinstance(n, ast.Assign) and any(norm(t) == var for t in n.targets):
                            k = prog.try_const(c.module, n.value)
                            if isinstance(k, int):
                                env[var] = k
                            else:
                                env.pop(var, None)
                        calls += [norm(x.func) for x in calls_in(n)]
                if ok:
                    term = p.term
                    if term in ("fall", "continue") and isinstance(lp, ast.While) and var in env and ev.eval3(lp.test, {var: env[var]}) is False:
                        term = "break"          # the loop condition itself ends the scan with this level
                    res.add((term, env.get(var), tuple(calls)))
            out[(cls, v0)] = res
    return out


def _stops_at_matching_close(outcomes):
    """an iteration leaves the loop exactly for a closing tag met at level 0; -> (ok, levels seen at the break)"""
    at_break = set()
    ok = True
    for (cls, v0), res in outcomes.items():
        terms = {t for t, _, _ in res}
        if cls == 3 and v0 == 0:
            ok = ok and terms == {"break"}
            at_break |= {lv for t, lv, _ in res if t == "break"}
        else:
            ok = ok and bool(terms) and "break" not in terms and "return" not in terms and "raise" not in terms
    return ok, at_break


@rule("C02.R4", "nested groups are delimited by counting opening (+1) and closing (-1) tags; imbalance is refused", floor=4, engines="E1 paths + E5")
def r4(ctx):
    prog = ctx.prog
    tl = prog.cls(PM, "TagList")
    f = tl.methods.get("get_context")
    if f is None:
        raise AnchorMissing("TagList.get_context")
    res = _level_scan(ctx, tl, f, "TagList")
    if not res:
        raise ShapeError("TagList.get_context: level counting loop not found")
    for lp, ok, detail in res:
        ctx.check("TagList.get_context:level-counting", ok, where(tl.module, lp), detail)
        ctx.check("TagList.get_context:level-starts-at-zero", _level_reset_before(lp), where(tl.module, lp),
                  "the nesting level must be set to 0 right before each group is scanned (same block as the scan loop): a value left over from the previous group mis-delimits the next one")
        ev = Evaluator(prog, tl.module, tl)
        okb, at_break = _stops_at_matching_close(_scan_outcomes(prog, tl, lp, ev))
        ctx.check("TagList.get_context:stops-at-matching-close", okb, where(tl.module, lp), "the scan must stop exactly at the closing tag that is met at level 0 (the one that matches the opening tag)")
        # running off the end of the list (any level >= 0) is an imbalance, leaving through the break is not
        rs = [r for r in walk_shallow(f) if isinstance(r, ast.Raise) and isinstance(r.exc, ast.Call) and norm(r.exc.func) == "InvalidTag" and not _inside(r, lp.body)
              and (_inside(r, lp.orelse) or any("lvl" in norm(x.test) for x in facts_at(r)))]
        ok = len(rs) == 1
        if ok and _inside(rs[0], lp.orelse):
            ok = not [x for x in facts_at(rs[0], stop=lp) if x.origin != "loop"]          # the else clause of the scan: exactly the exhausted case
        elif ok:
            fa = [x for x in facts_at(rs[0]) if "lvl" in norm(x.test)]
            ok = all(ev.may_hold(fa, {"lvl": v}) for v in (0, 1, 2)) \
                and not any(ev.may_hold(fa, {"lvl": v}) for v in at_break) and _follows(rs[0], lp)
        ctx.check("TagList.get_context:imbalance-refused", ok, where(tl.module, f), "a group that is never closed must be refused with InvalidTag")
    a = prog.cls("constructeddata", "Any")
    g = a.methods.get("decode")
    if g is None:
        raise AnchorMissing("Any.decode")
    res = _level_scan(ctx, a, g, "Any")
    if not res:
        raise ShapeError("Any.decode: level counting loop not found")
    for lp, ok, detail in res:
        ctx.check("Any.decode:level-counting", ok, where(a.module, lp), detail)
        ctx.check("Any.decode:level-starts-at-zero", _level_reset_before(lp), where(a.module, lp), "the nesting level must be set to 0 right before the scan")
        ap = [x for x in calls_in(lp) if norm(x.func) == "self.tagList.append"]
        ok2 = len(ap) == 1 and norm(ap[0].args[0]) == "taglist.Pop()"
        ctx.check("Any.decode:keeps-what-it-pops", ok2, where(a.module, lp), "Any must keep exactly the tags it removes from the list")
        eva = Evaluator(prog, a.module, a)
        oc = _scan_outcomes(prog, a, lp, eva)
        okb, at_break_any = _stops_at_matching_close(oc)
        # ... and the tag it stops at stays in the list; every other tag is taken
        okb = okb and all(("taglist.Pop" in calls) == (t != "break") for res in oc.values() for t, _, calls in res)
        ctx.check("Any.decode:leaves-enclosing-close", okb, where(a.module, lp), "the closing tag of the enclosing group must be left in the list")
    rs = [r for r in walk_shallow(g) if isinstance(r, ast.Raise)]
    eva = Evaluator(prog, a.module, a)
    ok = len(rs) == 1
    if ok:
        # the list may end at level 0 (nothing open); a level above 0 at the end is an imbalance; the level at the break is not
        reach = [v for v in (-1, 0, 1, 2) if eva.may_hold(facts_at(rs[0]), {"lvl": v})]
        ok = 1 in reach and 2 in reach and 0 not in reach and not (set(reach) & set(x for x in at_break_any if x is not None))
    ctx.check("Any.decode:imbalance-refused", ok, where(a.module, g), "an opening tag without its closing tag must be refused")
