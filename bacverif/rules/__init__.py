"""Per-property rule modules; importing this package registers every rule."""
import importlib

_MODULES = ["c%02d" % i for i in range(1, 21)]
for _m in _MODULES:
    try:
        importlib.import_module("." + _m, __name__)
    except ModuleNotFoundError as e:
        if e.name and e.name.endswith(_m):
            continue
        raise
