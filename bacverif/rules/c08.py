"""C08 - network-layer header (clause 6.2.2) and the twelve network-layer
message bodies (6.4): layout on both sides, refusals, registry."""
import ast
import itertools

from ..report import rule
from ..model import norm, NotConst, calls_in, stores_in, ShapeError, AnchorMissing, is_self_attr
from ..paths import walk_shallow, facts_at
from ..guards import Evaluator
from ..codec import extract, feasible_branches, consistent_branch
from ..astutil import norm_nc
from .common import check_header_copy_first, where

MOD = "npdu"


def _addr_types(ctx):
    a = ctx.prog.cls("pdu", "Address")
    out = {}
    for n in ("nullAddr", "localBroadcastAddr", "localStationAddr", "remoteBroadcastAddr", "remoteStationAddr", "globalBroadcastAddr"):
        if n not in a.attrs:
            raise AnchorMissing("Address.%s" % n)
        out[n] = ctx.prog.const(a.module, a.attrs[n], a)
    if len(set(out.values())) != 6:
        raise ShapeError("address type constants are not distinct")
    return out


def ref_npci(case):
    """clause 6.2.2 -> [(width, value)]"""
    ctl = (0x80 if case["msg"] is not None else 0) | (0x20 if case["dest"] else 0) | (0x08 if case["src"] else 0) | (0x04 if case["der"] else 0) | (case["prio"] & 3)
    out = [(1, 1), (1, ctl)]
    d = case["dest"]
    if d:
        kind, net, adr = d
        if kind == "global":
            out += [(2, 0xFFFF), (1, 0)]
        elif kind == "rbcast":
            out += [(2, net), (1, 0)]
        else:
            out += [(2, net), (1, len(adr)), ("data", adr)]
    if case["src"]:
        _, net, adr = case["src"]
        out += [(2, net), (1, len(adr)), ("data", adr)]
    if d:
        out.append((1, case["hop"]))
    if case["msg"] is not None:
        out.append((1, case["msg"]))
        if case["msg"] >= 0x80:
            out.append((2, case["vendor"]))
    return out, ctl


def npci_cases(wide=False):
    if wide:
        # thorough tier: every message type, every hop count, address lengths 1..7, network numbers at the 16-bit edges
        for msg in range(256):
            for dest in (None, ("rstation", 5, b"\x07")):
                yield {"dest": dest, "src": None, "msg": msg, "der": False, "prio": 0, "hop": 200, "vendor": 0x0102}
        for hop in range(256):
            yield {"dest": ("rstation", 5, b"\x07"), "src": ("rstation", 3, b"\x09"), "msg": None, "der": True, "prio": 3, "hop": hop, "vendor": 0}
        for ln in range(1, 8):
            for net in (1, 255, 256, 65534):
                adr = bytes(range(1, ln + 1))
                yield {"dest": ("rstation", net, adr), "src": ("rstation", 65535 - net, adr[::-1]), "msg": None, "der": False, "prio": 1, "hop": 7, "vendor": 0}
    dests = [None, ("rstation", 5, b"\x07"), ("rstation", 65534, b"\x01\x02\x03\x04\x05\x06"), ("rbcast", 9, None), ("global", None, None)]
    srcs = [None, ("rstation", 3, b"\x09"), ("rstation", 1, b"\xc0\xa8\x00\x01\xba\xc0")]
    for dest in dests:
        for src in srcs:
            for msg in (None, 0x00, 0x13, 0x7F, 0x80, 0xFF):
                for der in (False, True):
                    for prio in (0, 1, 2, 3):
                        if (der or prio) and (msg not in (None, 0x80) or src is None and dest is None and False):
                            pass
                        yield {"dest": dest, "src": src, "msg": msg, "der": der, "prio": prio, "hop": 254, "vendor": 0x1234}
    # boundary hop counts and vendor ids (0 is a legal, and on the last hop the usual, hop count)
    for hop in (0, 1, 255):
        for dest in dests[1:]:
            yield {"dest": dest, "src": srcs[1], "msg": None, "der": False, "prio": 0, "hop": hop, "vendor": 0}
    for vendor in (0, 1, 0xFFFF):
        yield {"dest": None, "src": None, "msg": 0x80, "der": False, "prio": 0, "hop": 255, "vendor": vendor}


@rule("C08.R1", "NPCI.encode and NPCI.decode lay the header out as clause 6.2.2 prescribes and agree with each other", floor=10, engines="E4 layout extraction + finite-domain evaluation")
def r1(ctx):
    prog = ctx.prog
    c = prog.cls(MOD, "NPCI")
    m = c.module
    ev = Evaluator(prog, m, c)
    at = _addr_types(ctx)
    for n in ("encode", "decode"):
        if n not in c.methods:
            raise AnchorMissing("NPCI.%s" % n)
    check_header_copy_first(ctx, c, c.methods["decode"], "NPCI.decode")
    enc = [b for b in extract(prog, c, c.methods["encode"], "encode") if consistent_branch(b)]
    dec = [b for b in extract(prog, c, c.methods["decode"], "decode") if consistent_branch(b)]
    ctx.count("encode_branches", len(enc))
    ctx.count("decode_branches", len(dec))
    results = {}

    def note(key, ok, msg):
        if key not in results or (results[key][0] and not ok):
            results[key] = (ok, msg)
    n = 0
    for case in npci_cases(ctx.tier == "thorough"):
        n += 1
        want, ctl = ref_npci(case)
        env = {"self.npduVersion": 1, "self.npduNetMessage": case["msg"], "self.npduVendorID": case["vendor"], "self.npduHopCount": case["hop"],
               "self.pduExpectingReply": case["der"], "self.pduNetworkPriority": case["prio"],
               "self.npduDADR": None if not case["dest"] else True, "self.npduSADR": None if not case["src"] else True,
               "self.npduDADR is not None": bool(case["dest"]), "self.npduSADR is not None": bool(case["src"]),
               "self.npduNetMessage is not None": case["msg"] is not None}
        if case["dest"]:
            kind, net, adr = case["dest"]
            env["self.npduDADR.addrType"] = {"rstation": at["remoteStationAddr"], "rbcast": at["remoteBroadcastAddr"], "global": at["globalBroadcastAddr"]}[kind]
            env["self.npduDADR.addrNet"] = net
            env["self.npduDADR.addrLen"] = len(adr) if adr else None
            env["self.npduDADR.addrAddr"] = adr
        if case["src"]:
            _, net, adr = case["src"]
            env["self.npduSADR.addrType"] = at["remoteStationAddr"]
            env["self.npduSADR.addrNet"] = net
            env["self.npduSADR.addrLen"] = len(adr)
            env["self.npduSADR.addrAddr"] = adr
        dk = case["dest"][0] if case["dest"] else "none"
        ekey = "NPCI.encode[dest=%s,src=%s,msg=%s]" % (dk, bool(case["src"]), "none" if case["msg"] is None else ("vendor" if case["msg"] >= 0x80 else "std"))
        fb = [b for b in feasible_branches(enc, ev, env) if b.term != "raise"]
        if len(fb) != 1:
            note(ekey, False, "%d encode branches feasible" % len(fb))
        else:
            got = []
            try:
                for it in fb[0].emits():
                    got.append((it.width, ev.value(it.expr, env)))
            except (NotConst, TypeError) as e:
                got = "not evaluable: %s" % e
            note(ekey, got == want, "emits %r, clause 6.2.2 prescribes %r" % (got, want))
            st = fb[0].stores()
            if "self.npduControl" in st:
                try:
                    note("NPCI.encode:control-recorded", ev.value(st["self.npduControl"], env) == ctl, "npduControl is not the emitted control octet")
                except NotConst:
                    pass
        # decode the reference items
        dkey = "NPCI.decode[dest=%s,src=%s,msg=%s]" % (dk, bool(case["src"]), "none" if case["msg"] is None else ("vendor" if case["msg"] >= 0x80 else "std"))
        denv = {"_r%d" % i: v for i, (w, v) in enumerate(want)}
        denv["len(pdu.pduData)"] = 50
        denv["len(%s.pduData)" % c.methods["decode"].args.args[1].arg] = 50
        # broadcast destinations carry no address octets: the decoder still issues a zero-length data read
        items = list(want)
        db = [b for b in dec if b.term != "raise"]
        cand = []
        for b in db:
            widths = [(r.width, r.expr) for r in b.reads()]
            env2, ok = _bind_reads(ev, b, want)
            if ok and len(feasible_branches([b], ev, env2)) == 1:
                cand.append((b, env2))
        if len(cand) != 1:
            note(dkey, False, "%d decode branches accept the reference octets %r" % (len(cand), want))
            continue
        b, env2 = cand[0]
        st = b.stores()
        problems = []

        def val(k):
            e = st.get(k)
            if e is None:
                return ("unset",)
            try:
                return ev.value(e, env2)
            except NotConst:
                return ("expr", norm(e))
        if val("self.npduVersion") != 1:
            problems.append("version")
        if val("self.npduControl") != ctl:
            problems.append("control %r" % (val("self.npduControl"),))
        if bool(val("self.pduExpectingReply")) != case["der"] or isinstance(val("self.pduExpectingReply"), tuple):
            problems.append("expecting-reply %r" % (val("self.pduExpectingReply"),))
        if val("self.pduNetworkPriority") != case["prio"]:
            problems.append("priority %r" % (val("self.pduNetworkPriority"),))
        # addresses: constructor + arguments
        for fld, spec in (("self.npduDADR", case["dest"]), ("self.npduSADR", case["src"])):
            e = st.get(fld)
            if not spec:
                if e is not None and not (isinstance(e, ast.Constant) and e.value is None):
                    problems.append("%s set without address" % fld)
                continue
            kind, net, adr = spec
            wantf = {"rstation": "RemoteStation", "rbcast": "RemoteBroadcast", "global": "GlobalBroadcast"}[kind]
            if not (isinstance(e, ast.Call) and norm(e.func) == wantf):
                problems.append("%s built with %s, expected %s" % (fld, norm(e)[:40] if e is not None else None, wantf))
                continue
            try:
                args = [ev.value(a, env2) for a in e.args]
            except NotConst:
                args = None
            wanta = {"rstation": [net, adr], "rbcast": [net], "global": []}[kind]
            if args != wanta:
                problems.append("%s arguments %r, expected %r" % (fld, args, wanta))
        if case["dest"]:
            if val("self.npduHopCount") != case["hop"]:
                problems.append("hop count %r" % (val("self.npduHopCount"),))
        elif "self.npduHopCount" in st:
            problems.append("hop count decoded without destination")
        if case["msg"] is not None:
            if val("self.npduNetMessage") != case["msg"]:
                problems.append("message type %r" % (val("self.npduNetMessage"),))
            if case["msg"] >= 0x80 and val("self.npduVendorID") != case["vendor"]:
                problems.append("vendor id %r" % (val("self.npduVendorID"),))
            if case["msg"] < 0x80 and "self.npduVendorID" in st:
                problems.append("vendor id decoded for a standard message")
        else:
            if val("self.npduNetMessage") not in (None, ("unset",)):
                problems.append("message type set for an APDU")
        note(dkey, not problems, "reference octets %r decode wrongly: %s" % (want, "; ".join(problems)))
    for k, (ok, msg) in sorted(results.items()):
        ctx.check(k, ok, where(m, c.methods["encode" if ".encode" in k else "decode"]), msg)
    ctx.count("layout_cases", n)
    # NPDU: header then untouched payload
    nc = prog.cls(MOD, "NPDU")
    e, d = nc.methods.get("encode"), nc.methods.get("decode")
    if e is None or d is None:
        raise AnchorMissing("NPDU.encode/decode")
    calls = [norm(x) for x in calls_in(e)]
    p = e.args.args[1].arg
    ctx.check("NPDU.encode:header-then-data", calls == ["NPCI.encode(self, %s)" % p, "%s.put_data(self.pduData)" % p], where(m, e), "NPDU.encode must emit the header then self.pduData")
    p = d.args.args[1].arg
    st = [s for t_, s in stores_in(d) if is_self_attr(t_, "pduData")]
    ok = len(st) == 1 and norm(st[0].value) == "%s.get_data(len(%s.pduData))" % (p, p) and norm(list(calls_in(d))[0]) == "NPCI.decode(self, %s)" % p
    ctx.check("NPDU.decode:header-then-rest", ok, where(m, d), "NPDU.decode must take the header then all remaining octets")


def _with_zero_reads(denv, want):
    return dict(denv)


def _bind_reads(ev, b, want):
    """bind the branch's read symbols to the reference items in order; a data read of
    length 0 (broadcast address) consumes no reference item"""
    env = {}
    i = 0
    for r in b.reads():
        if r.width == "data":
            try:
                ln = ev.value(r.expr, env)
            except NotConst:
                return env, False
            if ln == 0:
                env[r.target] = b""
                continue
            if i >= len(want) or want[i][0] != "data" or len(want[i][1]) != ln:
                return env, False
            env[r.target] = want[i][1]
            i += 1
        else:
            if i >= len(want) or want[i][0] != r.width:
                return env, False
            env[r.target] = want[i][1]
            i += 1
    env["len(pdu.pduData)"] = 50
    return env, i == len(want)


@rule("C08.R2", "forbidden and truncated headers are refused with DecodingError before the field is used", floor=4, engines="E4 + E5")
def r2(ctx):
    prog = ctx.prog
    c = prog.cls(MOD, "NPCI")
    m = c.module
    ev = Evaluator(prog, m, c)
    d = c.methods["decode"]
    p = d.args.args[1].arg
    dec = [b for b in extract(prog, c, d, "decode") if consistent_branch(b)]
    L = "len(%s.pduData)" % p
    cases = {
        "short": ({L: 1}, "a header shorter than two octets"),
        "empty": ({L: 0}, "an empty buffer"),
        "version0": ({L: 9, "_r0": 0, "_r1": 0}, "version 0"),
        "version2": ({L: 9, "_r0": 2, "_r1": 0}, "version 2"),
        "snet-global": ({L: 9, "_r0": 1, "_r1": 0x08, "_r2": 0xFFFF, "_r3": 1, "_r4": b"\x01"}, "SNET 0xFFFF (global broadcast as source)"),
        "slen-zero": ({L: 9, "_r0": 1, "_r1": 0x08, "_r2": 5, "_r3": 0, "_r4": b""}, "SLEN 0 (broadcast as source)"),
    }
    for k, (env, what) in cases.items():
        fb = feasible_branches(dec, ev, env)
        ok = bool(fb) and all(b.term == "raise" and b.items[-1].extra == "DecodingError" for b in fb)
        ctx.check("NPCI.decode:refuses[%s]" % k, ok, where(m, d), "%s must be refused with DecodingError (%d feasible branches, %d raising)" % (what, len(fb), sum(1 for b in fb if b.term == "raise")))
    # the SADR refusals come before the address object is built
    for b in dec:
        if b.term == "raise" and b.items and "SADR" in norm(b.items[-1].node):
            ctx.check("NPCI.decode:sadr-check-before-use", "self.npduSADR" not in b.stores(), where(m, b.items[-1].node), "the source address is stored before it is validated")
    # a valid header is not refused
    ok_env = {L: 9, "_r0": 1, "_r1": 0x00}
    fb = feasible_branches(dec, ev, ok_env)
    ctx.check("NPCI.decode:accepts-minimal", any(b.term != "raise" for b in fb), where(m, d), "a minimal valid header (01 00) is refused")
    rs = sorted({norm(r.exc.func) for r in walk_shallow(d) if isinstance(r, ast.Raise) and isinstance(r.exc, ast.Call)})
    ctx.check("NPCI.decode:raises", rs == ["DecodingError"], where(m, d), "explicit raise classes: %r" % rs)


# clause 6.4: body widths of each message
REF_BODIES = {
    "WhoIsRouterToNetwork": ("opt", [2]),
    "IAmRouterToNetwork": ("list", [2]),
    "ICouldBeRouterToNetwork": ("fixed", [2, 1]),
    "RejectMessageToNetwork": ("fixed", [1, 2]),
    "RouterBusyToNetwork": ("list", [2]),
    "RouterAvailableToNetwork": ("list", [2]),
    "InitializeRoutingTable": ("table", [2, 1, 1, "data"]),
    "InitializeRoutingTableAck": ("table", [2, 1, 1, "data"]),
    "EstablishConnectionToNetwork": ("fixed", [2, 1]),
    "DisconnectConnectionToNetwork": ("fixed", [2]),
    "WhatIsNetworkNumber": ("fixed", []),
    "NetworkNumberIs": ("fixed", [2, 1]),
}


def trace_agreement(ctx, c, ref=None):
    """compare the branches of c.encode and c.decode item by item; returns list of problems"""
    prog = ctx.prog
    enc_f, dec_f = c.methods.get("encode"), c.methods.get("decode")
    if enc_f is None or dec_f is None:
        raise AnchorMissing("%s.encode/decode" % c.name)
    enc = [b for b in extract(prog, c, enc_f, "encode") if consistent_branch(b) and b.term != "raise"]
    dec = [b for b in extract(prog, c, dec_f, "decode") if consistent_branch(b) and b.term != "raise"]
    problems = []
    if not enc or not dec:
        return ["no non-raising branch"], enc, dec
    # pair branches by width signature
    esigs = {tuple(_sig(b)): b for b in enc}
    dsigs = {tuple(_sig(b)): b for b in dec}
    if set(esigs) != set(dsigs):
        problems.append("encode writes %s but decode reads %s" % (sorted(map(str, esigs)), sorted(map(str, dsigs))))
        return problems, enc, dec
    for sig, eb in esigs.items():
        db = dsigs[sig]
        problems += _pair(prog, c, eb, db)
    return problems, enc, dec


def _sig(b):
    out = []
    for i in b.items:
        if i.kind in ("emit", "read"):
            out.append(i.width)
        elif i.kind == "loop":
            out.append(("loop",) + tuple(tuple(_sig(s)) for s in i.sub if s.term != "raise"))
    return out


def _pair(prog, c, eb, db, loopvar=None):
    """field correspondence of two branches with equal width signature"""
    problems = []
    ei = [i for i in eb.items if i.kind in ("emit", "loop")]
    di = [i for i in db.items if i.kind in ("read", "loop")]
    dstores = {}
    for it in db.items:
        if it.kind == "store":
            dstores[it.target] = it.expr
    sym_of_field = {}
    for tgt, e in dstores.items():
        if isinstance(e, ast.Name):
            sym_of_field[e.id] = tgt
    for e, d in zip(ei, di):
        if e.kind == "emit":
            ex = e.expr
            t = norm(ex)
            if isinstance(ex, ast.Call) and norm(ex.func) == "len":
                # a length/count octet: must govern the following loop or data read
                continue
            if isinstance(ex, ast.Constant):
                continue
            if t.startswith("self."):
                got = sym_of_field.get(d.target)
                if got != t:
                    problems.append("%s is written at this position but the value read there is stored into %s" % (t, got))
        else:
            # loops: recurse on their (single) sub-branches
            es = [s for s in e.sub if s.term != "raise" and _sig(s)]
            ds = [s for s in d.sub if s.term != "raise" and _sig(s)]
            if len(es) == 1 and len(ds) == 1:
                problems += _pair_loop(prog, c, e, es[0], d, ds[0], db)
    return problems


def _pair_loop(prog, c, eloop, eb, dloop, db, outer_dec):
    problems = []
    lst = eloop.extra                      # e.g. self.iartnNetworkList
    # the list is started afresh by the decoder (a constructor default or an earlier decode must not leak into it)
    resets = [i for i in outer_dec.items if i.kind == "store" and i.target == lst and isinstance(i.expr, ast.List) and not i.expr.elts]
    before_loop = outer_dec.items.index(dloop)
    if not resets or outer_dec.items.index(resets[0]) > before_loop:
        problems.append("decode does not reset %s to an empty list before appending (entries of an earlier frame or of the shared constructor default accumulate)" % lst)
    # decode must append to the same list
    apps = [i for i in db.items if i.kind == "call" and ".append(" in i.extra]
    if not apps or not apps[-1].extra.startswith(lst + ".append("):
        problems.append("encode iterates %s but decode appends to %s" % (lst, apps[-1].extra.split(".append")[0] if apps else None))
    # loop control: until-empty or counted by the symbol of the count octet
    hdr = dloop.extra
    if hdr.startswith("range("):
        cnt = hdr[6:-1]
        cnt_reads = [i for i in outer_dec.items if i.kind == "read" and i.target == cnt]
        if not cnt_reads:
            problems.append("decode loop bound %s is not a value read from the buffer" % cnt)
        emits_len = [i for i in eloop_prev_emits(eloop, outer_dec) if False]
    elif not hdr.endswith(".pduData"):
        problems.append("decode loop condition %s" % hdr)
    return problems


def eloop_prev_emits(*a):
    return []


@rule("C08.R3", "each network-layer message writes and reads the same fields in the same order and width (clause 6.4)", floor=12, engines="E4 trace agreement")
def r3(ctx):
    prog = ctx.prog
    m = prog.module(MOD)
    for name, (shape, widths) in REF_BODIES.items():
        c = prog.cls(MOD, name)
        problems, enc, dec = trace_agreement(ctx, c)
        # reference widths
        if shape == "fixed":
            want = [list(widths)]
        elif shape == "opt":
            want = [[], list(widths)]
        elif shape == "list":
            want = [[("loop", tuple(widths))]]
        else:
            want = [[1, ("loop", tuple(widths))]]
        got = sorted(_sig(b) for b in enc)
        if sorted(want) != got:
            problems.append("encode layout %r, clause 6.4 prescribes %r" % (got, want))
        gotd = sorted(_sig(b) for b in dec)
        if sorted(want) != gotd:
            problems.append("decode layout %r, clause 6.4 prescribes %r" % (gotd, want))
        if shape == "table":
            problems += _table_checks(prog, c, enc, dec)
        if shape == "opt":
            # present iff data left / field not None
            eb = [b for b in enc if _sig(b)]
            ok = eb and any(norm(t).endswith("is not None") and p for t, p in eb[0].conds)
            dbb = [b for b in dec if _sig(b)]
            ok = ok and dbb and any(norm(t).endswith(".pduData") and p for t, p in dbb[0].conds)
            if not ok:
                problems.append("the optional network number must be written iff set and read iff octets remain")
        ctx.check("%s:body" % name, not problems, where(m, c.node), "; ".join(problems)[:500], facts={"encode": [b.describe()[:200] for b in enc], "decode": [b.describe()[:200] for b in dec]})
        # both sides move the header
        for mn, pat in (("encode", "NPCI.update(%s, self)"), ("decode", "NPCI.update(self, %s)")):
            f = c.methods[mn]
            p = f.args.args[1].arg
            ctx.check("%s.%s:header" % (name, mn), any(norm(x) == pat % p for x in calls_in(f)), where(m, f), "%s must copy the NPCI with %s" % (mn, pat % p))


def _table_checks(prog, c, enc, dec):
    problems = []
    eb, db = enc[0], dec[0]
    e_items = [i for i in eb.items if i.kind in ("emit", "loop")]
    if len(e_items) == 2 and e_items[0].kind == "emit" and e_items[1].kind == "loop":
        if norm(e_items[0].expr) != "len(%s)" % e_items[1].extra:
            problems.append("count octet is %s but the loop runs over %s" % (norm(e_items[0].expr), e_items[1].extra))
        sub = [s for s in e_items[1].sub if s.term != "raise"][0]
        em = sub.emits()
        lv = norm(e_items[1].node.target)
        want = ["%s.rtDNET" % lv, "%s.rtPortID" % lv, "len(%s.rtPortInfo)" % lv, "%s.rtPortInfo" % lv]
        if [norm(i.expr) for i in em] != want:
            problems.append("entry fields written %r, expected %r" % ([norm(i.expr) for i in em], want))
    else:
        problems.append("encode: count + loop expected")
    d_items = [i for i in db.items if i.kind in ("read", "loop")]
    if len(d_items) == 2 and d_items[0].kind == "read" and d_items[1].kind == "loop":
        if d_items[1].extra != "range(%s)" % d_items[0].target:
            problems.append("decode loop %s is not bounded by the count octet %s" % (d_items[1].extra, d_items[0].target))
        sub = [s for s in d_items[1].sub if s.term != "raise"][0]
        rd = sub.reads()
        if len(rd) == 4:
            if rd[3].expr is None or norm(rd[3].expr) != rd[2].target:
                problems.append("port info length %s is not the length octet %s" % (norm(rd[3].expr) if rd[3].expr is not None else None, rd[2].target))
            mk = [i for i in sub.items if i.kind in ("call", "store") and "RoutingTableEntry(" in (i.extra or norm(i.expr))]
            txt = None
            for i in sub.items:
                t = i.extra if i.kind == "call" else (norm(i.expr) if i.kind == "store" and i.expr is not None else "")
                if t and "RoutingTableEntry(" in t:
                    txt = t[t.index("RoutingTableEntry("):]
            want = "RoutingTableEntry(%s, %s, %s)" % (rd[0].target, rd[1].target, rd[3].target)
            if txt is None or not txt.startswith(want):
                problems.append("entry built as %s, expected %s" % (txt, want))
    else:
        problems.append("decode: count + loop expected")
    # constructor parameter -> field mapping of RoutingTableEntry
    rte = prog.cls(MOD, "RoutingTableEntry")
    init = rte.methods["__init__"]
    params = [a.arg for a in init.args.args[1:]]
    mp = {t.attr: norm(s.value) for t, s in stores_in(init) if is_self_attr(t)}
    if [mp.get("rtDNET"), mp.get("rtPortID"), mp.get("rtPortInfo")] != params[:3]:
        problems.append("RoutingTableEntry(dnet, portID, portInfo) does not store its parameters in rtDNET, rtPortID, rtPortInfo")
    return problems


@rule("C08.R4", "message-type registry: unique numbers equal to the NPCI constants, stored by the constructor, all twelve registered", floor=12, engines="E3")
def r4(ctx):
    prog = ctx.prog
    m = prog.module(MOD)
    npci = prog.cls(MOD, "NPCI")
    from ..tables import Tables
    T = Tables(prog)
    reg = T.registry_calls(MOD, "register_npdu_type")
    seen = {}
    names = set()
    for k, text, st in reg:
        if k is None:
            ctx.bad("npdu_types:%s" % text, where(m, st), "registered name does not resolve")
            continue
        names.add(k.name)
        mt = prog.try_const(k.module, k.attrs.get("messageType"), k) if "messageType" in k.attrs else None
        ctx.check("%s:messageType" % k.name, isinstance(mt, int) and mt not in seen, where(m, st), "message type %r missing or already used by %s" % (mt, seen.get(mt)))
        seen[mt] = k.name
        cname = k.name[0].lower() + k.name[1:]
        cv = prog.try_const(m, npci.attrs.get(cname), npci) if cname in npci.attrs else None
        ctx.check("%s:constant" % k.name, cv == mt, where(m, st), "NPCI.%s is %r but %s.messageType is %r" % (cname, cv, k.name, mt))
        init = k.methods.get("__init__")
        st2 = [s for t, s in stores_in(init) if is_self_attr(t, "npduNetMessage")] if init else []
        ctx.check("%s:ctor" % k.name, len(st2) == 1 and norm(st2[0].value) == "%s.messageType" % k.name, where(m, init or k.node), "the constructor must set npduNetMessage to the class's messageType")
    ctx.check("npdu_types:complete", names >= set(REF_BODIES), where(m, m.tree.body[0]), "unregistered message classes: %r" % sorted(set(REF_BODIES) - names))
    f = m.functions.get("register_npdu_type")
    if f is None:
        raise AnchorMissing("npdu.register_npdu_type")
    st = [s for s in walk_shallow(f) if isinstance(s, ast.Assign)]
    p = f.args.args[0].arg
    ctx.check("register_npdu_type:keyed", len(st) == 1 and norm(st[0].targets[0]) == "npdu_types[%s.messageType]" % p and norm(st[0].value) == p, where(m, f), "classes must be stored under their messageType")


@rule("C08.R5", "a truncated header or message body is refused: every multi-octet read of the decoders goes through the bounded, consuming PDUData reads", floor=8, engines="E1 facts + E5 (shared with C02.R2)")
def r5_reads(ctx):
    from .c02 import pdudata_reads
    pdudata_reads(ctx)
