"""C07 - APDU fixed headers: bit layout of the eight PDU types on both sides
against clause 20.1, code tables, field set, exception class."""
import ast

from ..report import rule
from ..model import norm, NotConst, calls_in, stores_in, ShapeError, AnchorMissing, is_self_attr
from ..paths import enumerate_paths, facts_at, walk_shallow, enclosing_stmt
from ..guards import Evaluator, atom_texts
from ..codec import extract, feasible_branches, consistent_branch
from .common import check_header_copy_first, where, same_function, grid

FIELDS = ["apduType", "apduSeg", "apduMor", "apduSA", "apduSrv", "apduNak", "apduSeq", "apduWin", "apduMaxSegs", "apduMaxResp", "apduService", "apduInvokeID", "apduAbortRejectReason"]
TYPE_NAMES = ["ConfirmedRequestPDU", "UnconfirmedRequestPDU", "SimpleAckPDU", "ComplexAckPDU", "SegmentAckPDU", "ErrorPDU", "RejectPDU", "AbortPDU"]
CARRIES_DATA = {0: True, 1: True, 2: False, 3: True, 4: False, 5: True, 6: False, 7: True}


def ref_encode(t, f):
    """clause 20.1.2 - 20.1.9: header octets of PDU type t for field dict f"""
    b = lambda x: 1 if x else 0
    if t == 0:
        o = [0x00 | b(f["apduSeg"]) << 3 | b(f["apduMor"]) << 2 | b(f["apduSA"]) << 1, (f["apduMaxSegs"] << 4) | f["apduMaxResp"], f["apduInvokeID"]]
        if f["apduSeg"]:
            o += [f["apduSeq"], f["apduWin"]]
        return o + [f["apduService"]]
    if t == 1:
        return [0x10, f["apduService"]]
    if t == 2:
        return [0x20, f["apduInvokeID"], f["apduService"]]
    if t == 3:
        o = [0x30 | b(f["apduSeg"]) << 3 | b(f["apduMor"]) << 2, f["apduInvokeID"]]
        if f["apduSeg"]:
            o += [f["apduSeq"], f["apduWin"]]
        return o + [f["apduService"]]
    if t == 4:
        return [0x40 | b(f["apduNak"]) << 1 | b(f["apduSrv"]), f["apduInvokeID"], f["apduSeq"], f["apduWin"]]
    if t == 5:
        return [0x50, f["apduInvokeID"], f["apduService"]]
    if t == 6:
        return [0x60, f["apduInvokeID"], f["apduAbortRejectReason"]]
    if t == 7:
        return [0x70 | b(f["apduSrv"]), f["apduInvokeID"], f["apduAbortRejectReason"]]
    raise ValueError(t)


REF_FIELDS = {0: ["apduSeg", "apduMor", "apduSA", "apduMaxSegs", "apduMaxResp", "apduInvokeID", "apduSeq", "apduWin", "apduService"],
              1: ["apduService"], 2: ["apduInvokeID", "apduService"],
              3: ["apduSeg", "apduMor", "apduInvokeID", "apduSeq", "apduWin", "apduService"],
              4: ["apduNak", "apduSrv", "apduInvokeID", "apduSeq", "apduWin"],
              5: ["apduInvokeID", "apduService"], 6: ["apduInvokeID", "apduAbortRejectReason"], 7: ["apduSrv", "apduInvokeID", "apduAbortRejectReason"]}
FLAGS = {"apduSeg", "apduMor", "apduSA", "apduSrv", "apduNak"}
RANGE = {"apduMaxSegs": [0, 1, 2, 4, 7], "apduMaxResp": [0, 1, 2, 4, 8, 15]}
OCTET = [0, 1, 2, 4, 8, 16, 32, 64, 128, 255]


def field_cases(t, wide=False):
    """one-at-a-time variation of every field over values that exercise each bit (thorough tier: every value of the
    field's range), for every flag combination"""
    import itertools
    RANGE = {"apduMaxSegs": list(range(8)), "apduMaxResp": list(range(16))} if wide else globals()["RANGE"]
    OCTET = list(range(256)) if wide else globals()["OCTET"]
    names = REF_FIELDS[t]
    flags = [n for n in names if n in FLAGS]
    nums = [n for n in names if n not in FLAGS]
    for fl in itertools.product([False, True], repeat=len(flags)):
        base = {n: 0 for n in nums}
        base.update(dict(zip(flags, fl)))
        yield dict(base)
        for n in nums:
            for v in RANGE.get(n, OCTET):
                if v == 0:
                    continue
                d = dict(base)
                d[n] = v
                yield d
        d = dict(base)
        for n in nums:
            d[n] = RANGE.get(n, OCTET)[-1]
        yield d


def _apci(ctx):
    c = ctx.prog.cls("apdu", "APCI")
    for n in ("encode", "decode", "update", "__init__"):
        if n not in c.methods:
            raise AnchorMissing("APCI.%s" % n)
    return c


def _types(ctx):
    out = {}
    for i, n in enumerate(TYPE_NAMES):
        k = ctx.prog.cls("apdu", n)
        v = ctx.prog.try_const(k.module, k.attrs.get("pduType"), k) if "pduType" in k.attrs else None
        out[n] = v
    return out


@rule("C07.R1", "APCI.encode and APCI.decode place every header field of the eight PDU types on the bits clause 20.1 prescribes, and agree with each other",
      floor=30, engines="E4 layout extraction + finite-domain expression evaluation")
def r1(ctx):
    prog = ctx.prog
    c = _apci(ctx)
    m = c.module
    ev = Evaluator(prog, m, c)
    tv = _types(ctx)
    for i, n in enumerate(TYPE_NAMES):
        ctx.check("pduType[%s]" % n, tv[n] == i, where(m, prog.cls("apdu", n).node), "%s.pduType must be %d (found %r)" % (n, i, tv[n]))
    check_header_copy_first(ctx, c, c.methods["decode"], "APCI.decode")
    enc = [b for b in extract(prog, c, c.methods["encode"], "encode") if consistent_branch(b)]
    dec = [b for b in extract(prog, c, c.methods["decode"], "decode") if consistent_branch(b)]
    ctx.count("encode_branches", len(enc))
    ctx.count("decode_branches", len(dec))
    ncases = 0
    for t in range(8):
        enc_ok = dec_ok = rt_ok = True
        enc_msg = dec_msg = ""
        for f in field_cases(t, wide=(ctx.tier == "thorough")):
            ncases += 1
            want = ref_encode(t, f)
            env = {"self.apduType": t}
            env.update({"self." + k: v for k, v in f.items()})
            for k in FIELDS:
                env.setdefault("self." + k, None)
            env["self.apduType"] = t
            fb = [b for b in feasible_branches(enc, ev, env) if b.term != "raise"]
            if len(fb) != 1:
                enc_ok = False
                enc_msg = "%d encode branches for %r" % (len(fb), f)
                continue
            got = []
            try:
                for it in fb[0].emits():
                    if it.width != 1:
                        got.append(("w", it.width))
                    else:
                        got.append(int(ev.value(it.expr, env)))
            except (NotConst, TypeError) as e:
                enc_ok = False
                enc_msg = "emit not evaluable: %s" % e
                continue
            if got != want:
                enc_ok = False
                enc_msg = "fields %r: emits %r, clause 20.1 prescribes %r" % ({k: v for k, v in f.items() if v}, got, want)
            # decode the reference octets
            denv = {"_r%d" % i: o for i, o in enumerate(want)}
            db = [b for b in feasible_branches(dec, ev, denv)]
            db = [b for b in db if b.term != "raise"]
            if len(db) != 1:
                dec_ok = False
                dec_msg = "%d decode branches for octets %r" % (len(db), want)
                continue
            b = db[0]
            if len(b.reads()) != len(want):
                dec_ok = False
                dec_msg = "octets %r: decoder reads %d header octets" % (want, len(b.reads()))
                continue
            st = b.stores()
            for k in REF_FIELDS[t] + ["apduType"]:
                if k in ("apduSeq", "apduWin") and not f.get("apduSeg", t == 4):
                    continue
                e = st.get("self." + k)
                if e is None:
                    dec_ok = False
                    dec_msg = "field %s is never decoded for type %d" % (k, t)
                    continue
                try:
                    v = ev.value(e, denv)
                except NotConst as ex:
                    dec_ok = False
                    dec_msg = "store of %s not evaluable (%s)" % (k, ex)
                    continue
                wantv = t if k == "apduType" else f[k]
                if (bool(v) != bool(wantv)) if k in FLAGS else (v != wantv):
                    dec_ok = False
                    dec_msg = "octets %r: %s decodes to %r, expected %r" % (want, k, v, wantv)
            extra = [k for k in st if k.startswith("self.apdu") and k[5:] not in REF_FIELDS[t] + ["apduType"]]
            if extra:
                dec_ok = False
                dec_msg = "type %d decodes fields it does not carry: %r" % (t, extra)
            pd = st.get("self.pduData")
            if CARRIES_DATA[t]:
                if pd is None or norm(pd) != "%s.pduData" % c.methods["decode"].args.args[1].arg:
                    dec_ok = False
                    dec_msg = "type %d: payload must be the untouched rest of the buffer" % t
        ctx.check("APCI.encode[type=%d]" % t, enc_ok, where(m, c.methods["encode"]), enc_msg)
        ctx.check("APCI.decode[type=%d]" % t, dec_ok, where(m, c.methods["decode"]), dec_msg)
    ctx.count("layout_cases", ncases)
    # exhaustive and closed: unknown types are refused on both sides
    for t in (8, 9, 15):
        env = {"self.apduType": t}
        fb = feasible_branches(enc, ev, env)
        ctx.check("APCI.encode[type=%d]:refused" % t, bool(fb) and all(b.term == "raise" for b in fb), where(m, c.methods["encode"]), "an unknown PDU type must be refused by the encoder")
        denv = {"_r0": t << 4}
        db = feasible_branches(dec, ev, denv)
        ok = bool(db) and all(b.term == "raise" and b.items[-1].extra == "DecodingError" for b in db)
        ctx.check("APCI.decode[type=%d]:refused" % t, ok, where(m, c.methods["decode"]), "an unknown PDU type must be refused with DecodingError")
    # reserved bits of octet 0 do not change the type
    for o in (0x0F, 0x1F, 0x25):
        denv = {"_r0": o, "_r1": 0, "_r2": 0, "_r3": 0, "_r4": 0, "_r5": 0}
        db = [b for b in feasible_branches(dec, ev, denv) if b.term != "raise"]
        ok = len(db) == 1 and ev.value(db[0].stores().get("self.apduType"), denv) == o >> 4
        ctx.check("APCI.decode:type-nibble[%#x]" % o, ok, where(m, c.methods["decode"]), "the PDU type is the high nibble of the first octet")
    # APDU.encode/decode and _APDU: header then untouched payload
    a = prog.cls("apdu", "APDU")
    e = a.methods.get("encode")
    d = a.methods.get("decode")
    if e is None or d is None:
        raise AnchorMissing("APDU.encode/decode")
    calls = [norm(x.func) for x in calls_in(e)]
    ctx.check("APDU.encode:header-then-data", calls[:2] == ["APCI.encode", "%s.put_data" % e.args.args[1].arg] and norm(list(calls_in(e))[1].args[0]) == "self.pduData", where(m, e), "APDU.encode must emit the header then self.pduData")
    st = [s for t_, s in stores_in(d) if is_self_attr(t_, "pduData")]
    p = d.args.args[1].arg
    ok = len(st) == 1 and norm(st[0].value) == "%s.get_data(len(%s.pduData))" % (p, p) and [norm(x.func) for x in calls_in(d)][0] == "APCI.decode"
    ctx.check("APDU.decode:header-then-rest", ok, where(m, d), "APDU.decode must take the header then all remaining octets as payload")


@rule("C07.R2", "max-segments / max-APDU-length code tables equal the standard's and the encoders round a capability down, never up", floor=12, engines="E3 + E5")
def r2(ctx):
    prog = ctx.prog
    m = prog.module("apdu")
    ev = Evaluator(prog, m)
    want = {"_max_segments_accepted_encoding": [None, 2, 4, 8, 16, 32, 64, None],
            "_max_apdu_length_encoding": [50, 128, 206, 480, 1024, 1476] + [None] * 10}
    tables = {}
    for name, ref in want.items():
        v = m.consts.get(name)
        if not v:
            raise AnchorMissing("apdu.%s" % name)
        val = prog.try_const(m, v[0])
        tables[name] = val
        ctx.check("%s:values" % name, val == ref, where(m, v[0]), "code table differs from clause 20.1.2.4/20.1.2.5: %r" % (val,))
    for fname, tname, lo in (("encode_max_segments_accepted", "_max_segments_accepted_encoding", 1), ("encode_max_apdu_length_accepted", "_max_apdu_length_encoding", 0)):
        f = m.functions.get(fname)
        if f is None:
            raise AnchorMissing("apdu.%s" % fname)
        arg = f.args.args[0].arg
        loops = [l for l in walk_shallow(f) if isinstance(l, ast.For)]
        tab = tables[tname] or []
        valid = [i for i, v in enumerate(tab) if v is not None]
        ok = len(loops) == 1
        elems = None
        if ok:
            try:
                elems = list(ev.value(loops[0].iter, {}))
            except (NotConst, TypeError):
                ok = False
        ctx.check("%s:scan-evaluable" % fname, ok, where(m, f), "the table scan must be a single loop over a constant range of codes")
        if ok:
            # unroll the scan over its (constant) iterable for capabilities around every table value: the code returned is
            # the largest one whose table value does not exceed the capability - never rounded up, no defined code skipped
            lp = loops[0]
            rets = [r for r in ast.walk(lp) if isinstance(r, ast.Return)]
            tnames = [x.id for x in ast.walk(lp.target) if isinstance(x, ast.Name)]
            bad = []
            probes = sorted({v + d for v in tab if v is not None for d in (-1, 0, 1)} | {10 ** 6})
            for a_ in probes:
                want = max([i for i in valid if tab[i] <= a_], default=None)
                got = "falls-through"
                for el in elems:
                    env = {arg: a_}
                    if isinstance(lp.target, ast.Name):
                        env[lp.target.id] = el
                    elif isinstance(lp.target, ast.Tuple) and isinstance(el, (tuple, list)) and len(el) == len(lp.target.elts):
                        for te, ev_ in zip(lp.target.elts, el):
                            if isinstance(te, ast.Name):
                                env[te.id] = ev_
                    hit = None
                    for r in rets:
                        fa = facts_at(r, stop=lp)
                        try:
                            if ev.must_hold(fa, env):
                                hit = ev.value(r.value, env)
                                break
                            if ev.may_hold(fa, env):
                                hit = "?"
                                break
                        except TypeError:
                            hit = "?"
                            break
                    if hit is not None:
                        got = hit
                        break
                if (want is None and got != "falls-through") or (want is not None and got != want):
                    bad.append((a_, got, want))
            ctx.check("%s:scan-descending" % fname, not bad, where(m, lp),
                      "capability -> code chosen by the scan (expected: the largest code whose table value is <= the capability): %s" % "; ".join("%s -> %s, expected %s" % b_ for b_ in bad[:5]))
            ctx.check("%s:round-down" % fname, not [b_ for b_ in bad if b_[2] is not None and isinstance(b_[1], int) and b_[1] > b_[2]] and not [b_ for b_ in bad if b_[2] is None], where(m, lp),
                      "a code may be chosen only if its table value is <= the capability (never round up)")
        # nothing fits -> raise
        last = f.body[-1]
        ctx.check("%s:no-fit-raises" % fname, isinstance(last, ast.Raise), where(m, f), "a capability below the smallest table value must be refused")
    f = m.functions["encode_max_segments_accepted"]
    arg = f.args.args[0].arg
    rets = [r for r in walk_shallow(f) if isinstance(r, ast.Return) and not any(isinstance(l, ast.For) for l in _parents(r))]
    got = {}
    for r in rets:
        v = prog.try_const(m, r.value)
        fa = facts_at(r)
        got[v] = sorted(a for a in (0, 1, 2, 64, 65, 100) if ev.must_hold(fa, {arg: a}))
    ctx.check("encode_max_segments_accepted:unspecified->0", 0 in got and set(got[0]) >= {0} and not ({1, 2, 64} & set(got.get(0, []))), where(m, f), "0/None (unspecified) must encode as 0 (found %r)" % got)
    ctx.check("encode_max_segments_accepted:>64->7", got.get(7) == [65, 100], where(m, f), "more than 64 segments must encode as 7 and nothing else may (found %r)" % got.get(7))
    # decoders index the same tables
    for fname, tname in (("decode_max_segments_accepted", "_max_segments_accepted_encoding"), ("decode_max_apdu_length_accepted", "_max_apdu_length_encoding")):
        f = m.functions.get(fname)
        if f is None:
            raise AnchorMissing("apdu.%s" % fname)
        subs = [n for n in walk_shallow(f) if isinstance(n, ast.Subscript)]
        ok = len(subs) == 1 and norm(subs[0].value) == tname and norm(subs[0].slice) == f.args.args[0].arg
        ctx.check("%s:indexes-table" % fname, ok, where(m, f), "the decoder must read %s[code]" % tname)
    f = m.functions["decode_max_apdu_length_accepted"]
    raises = [r for r in walk_shallow(f) if isinstance(r, ast.Raise)]
    ctx.check("decode_max_apdu_length_accepted:reserved-refused", len(raises) == 1 and any(p is False or t.startswith("not") for t, p in atom_texts(facts_at(raises[0]))), where(m, f), "a reserved length code must be refused")


def _parents(n):
    p = getattr(n, "_parent", None)
    while p is not None:
        yield p
        p = getattr(p, "_parent", None)


@rule("C07.R3", "the header field set is the same in APCI.__init__, APCI.update and the debug contents (headers are moved by update())", floor=4, engines="E0")
def r3(ctx):
    prog = ctx.prog
    c = _apci(ctx)
    init = {t.attr for t, s in stores_in(c.methods["__init__"]) if is_self_attr(t) and t.attr.startswith("apdu")}
    upd = c.methods["update"]
    src = upd.args.args[1].arg
    copied = {t.attr for t, s in stores_in(upd) if is_self_attr(t) and isinstance(s, ast.Assign) and norm(s.value) == "%s.%s" % (src, t.attr)}
    dbg = set(prog.try_const(c.module, c.attrs.get("_debug_contents"), c) or ())
    ctx.check("APCI.__init__:fields", init == set(FIELDS), where(c.module, c.methods["__init__"]), "header fields initialised: missing %r extra %r" % (sorted(set(FIELDS) - init), sorted(init - set(FIELDS))))
    ctx.check("APCI.update:copies-all", copied == init, where(c.module, upd), "update() must copy every header field from its argument: not copied %r" % sorted(init - copied))
    ctx.check("APCI._debug_contents", dbg == init, where(c.module, c.node), "debug contents differ from the field set: %r" % sorted(dbg ^ init))
    base = [x for x in calls_in(upd) if norm(x.func) == "PCI.update"]
    ctx.check("APCI.update:base", len(base) == 1, where(c.module, upd), "update() must also copy the PCI fields (addresses, user data)")
    # _APDU.encode/decode move header + data
    a = prog.cls("apdu", "_APDU")
    for mn, upd_call in (("encode", "APCI.update(%s, self)"), ("decode", "APCI.update(self, %s)")):
        f = a.methods.get(mn)
        if f is None:
            raise AnchorMissing("_APDU.%s" % mn)
        p = f.args.args[1].arg
        ok = any(norm(x) == upd_call % p for x in calls_in(f))
        ctx.check("_APDU.%s:moves-header" % mn, ok, where(a.module, f), "%s must move the header with %s" % (mn, upd_call % p))
    f = a.methods.get("set_context")
    if f is None:
        raise AnchorMissing("_APDU.set_context")
    cx = f.args.args[1].arg
    st = {t.attr: norm(s.value) for t, s in stores_in(f) if is_self_attr(t)}
    ok = st.get("apduInvokeID") == "%s.apduInvokeID" % cx and st.get("pduDestination") == "%s.pduSource" % cx
    ctx.check("_APDU.set_context", ok, where(a.module, f), "a reply's context must take the invoke ID and address it to the request's source")


@rule("C07.R4", "decoding arbitrary octets yields a header or a DecodingError", floor=2, engines="E2 (explicit raise sites)")
def r4(ctx):
    c = _apci(ctx)
    d = c.methods["decode"]
    rs = [r for r in walk_shallow(d) if isinstance(r, ast.Raise)]
    names = sorted({norm(r.exc.func) if isinstance(r.exc, ast.Call) else norm(r.exc) for r in rs if r.exc is not None})
    ctx.check("APCI.decode:raises", names == ["DecodingError"], where(c.module, d), "explicit raise classes in APCI.decode: %r" % names)
    e = c.methods["encode"]
    rs = [r for r in walk_shallow(e) if isinstance(r, ast.Raise)]
    ctx.check("APCI.encode:raises", len(rs) == 1, where(c.module, e), "the encoder refuses unknown types with one explicit raise")
    # every octet read goes through the bounded reader
    reads = [x for x in calls_in(d) if isinstance(x.func, ast.Attribute) and norm(x.func.value) == d.args.args[1].arg]
    ok = all(x.func.attr in ("get", "get_short", "get_long", "get_data") for x in reads)
    ctx.check("APCI.decode:bounded-reads", ok and len(reads) >= 10, where(c.module, d), "header octets must be read with PDUData.get*() (which raise DecodingError on a short buffer)")
