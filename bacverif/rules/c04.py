"""C04 - a confirmed request ends in exactly one outcome (typestate of the
client/server segmentation state machines and of the IOCB layer)."""
import ast

from ..report import rule
from ..model import norm, NotConst, is_self_attr, calls_in, stores_in, ShapeError, AnchorMissing
from ..paths import enumerate_paths, facts_at, always_leaves, walk_shallow as walk_shallow_
from ..guards import Evaluator
from .common import (where, self_call, base_call, feasible, EffectSummary, attr_stores, path_nodes)

MOD = "appservice"
STATE_NAMES = ["IDLE", "SEGMENTED_REQUEST", "AWAIT_CONFIRMATION", "AWAIT_RESPONSE",
               "SEGMENTED_RESPONSE", "SEGMENTED_CONFIRMATION", "COMPLETED", "ABORTED"]
PRIMS = ("response", "request", "set_state", "start_timer", "stop_timer", "restart_timer")


def states(ctx):
    m = ctx.prog.module(MOD)
    out = {}
    for n in STATE_NAMES:
        r = m.consts.get(n)
        if not r or len(r) != 1:
            raise AnchorMissing("state constant %s.%s" % (MOD, n))
        out[n] = ctx.prog.const(m, r[0])
    if len(set(out.values())) != len(out):
        raise ShapeError("state constants are not distinct: %r" % out)
    return out


def terminal_values(ctx):
    s = states(ctx)
    return {s["COMPLETED"], s["ABORTED"]}


def make_classifier(ctx, cls, resp_name="response"):
    m = cls.module
    term = terminal_values(ctx)

    def classify(call):
        n = self_call(call)
        if n == resp_name:
            return "resp"
        if n == "set_state":
            if not call.args:
                return None
            try:
                v = ctx.prog.const(m, call.args[0])
            except NotConst:
                return "dyn"       # set_state with a non-constant state: unknown
            return "term" if v in term else "trans"
        bc = base_call(call, ctx.prog, cls)
        if bc and bc[1] == "set_state":
            # SSM.set_state(self, newState, timer) inside the subclass override: pass-through
            return None
        return None
    return classify


def summaries(ctx, clsname, resp_name="response"):
    c = ctx.prog.cls(MOD, clsname)
    es = EffectSummary(ctx.prog, c, ["resp", "term", "trans", "dyn"], make_classifier(ctx, c, resp_name),
                       stop=("response", "request", "set_state", "start_timer", "stop_timer", "restart_timer"))
    return c, es


CLIENT_HANDLERS = ["indication", "confirmation", "process_task", "segmented_request", "segmented_request_timeout",
                   "await_confirmation", "await_confirmation_timeout", "segmented_confirmation",
                   "segmented_confirmation_timeout"]


@rule("C04.R1", "client: an outcome is delivered to the application iff the transaction enters a terminal state, at most once per path",
      floor=12, engines="E1 paths + effect summaries")
def r1(ctx):
    c, es = summaries(ctx, "ClientSSM")
    for h in CLIENT_HANDLERS:
        if h not in c.methods:
            raise AnchorMissing("ClientSSM.%s" % h)
    for name, fn in sorted(c.methods.items()):
        if name in PRIMS or name in ("abort", "__init__"):
            continue
        summ = es.of_function(fn)
        ctx.touched("appservice.ClientSSM.%s" % name)
        for t, trace in sorted(summ.items()):
            resp, term, trans, dyn = t
            ok = (resp == term) and resp <= 1 and dyn == 0 and not (term and trans and False)
            ctx.check("ClientSSM.%s:resp=%d,term=%d" % (name, resp, term), ok, where(c.module, fn),
                      "a path delivers %d outcome(s) to the application but enters a terminal state %d time(s): %s"
                      % (resp, term, " ".join(trace)[:400]),
                      facts={"responses": resp, "terminal_transitions": term, "other_transitions": trans, "trace": trace[:12]})
    ctx.count("paths", es.paths_seen)
    # abort() itself: exactly one terminal transition and returns an AbortPDU
    ab = c.methods.get("abort")
    if ab is None:
        raise AnchorMissing("ClientSSM.abort")
    for t in es.of_function(ab):
        ctx.check("ClientSSM.abort:summary", t[1] == 1 and t[0] == 0, where(c.module, ab),
                  "abort() must enter ABORTED exactly once and leave delivery to its caller (found resp=%d term=%d)" % (t[0], t[1]))


@rule("C04.R2", "server: every reply path of ServerSSM.confirmation sends exactly one PDU to the peer and makes exactly one state transition",
      floor=4, engines="E1 paths + effect summaries")
def r2(ctx):
    c, es = summaries(ctx, "ServerSSM")
    fn = c.methods.get("confirmation")
    if fn is None:
        raise AnchorMissing("ServerSSM.confirmation")
    for t, trace in sorted(es.of_function(fn).items()):
        resp, term, trans, dyn = t
        ok = resp == 1 and (term + trans) == 1 and dyn == 0
        ctx.check("ServerSSM.confirmation:resp=%d,term=%d,trans=%d" % (resp, term, trans), ok, where(c.module, fn),
                  "a non-raising path sends %d PDUs to the client and makes %d terminal + %d other transitions: %s"
                  % (resp, term, trans, " ".join(trace)[:400]), facts={"trace": trace[:12]})
    # the other server handlers: a terminal transition is never accompanied by two peer sends,
    # and a path that hands the request to the application (self.request) enters AWAIT_RESPONSE or a terminal state
    for name in ("idle", "segmented_request", "await_response", "segmented_response", "await_response_timeout",
                 "segmented_request_timeout", "segmented_response_timeout"):
        f = c.methods.get(name)
        if f is None:
            raise AnchorMissing("ServerSSM.%s" % name)
        for t, trace in sorted(es.of_function(f).items()):
            resp, term, trans, dyn = t
            ctx.check("ServerSSM.%s:resp=%d,term=%d,trans=%d" % (name, resp, term, trans), term <= 1 and resp <= 1 and dyn == 0 and term + trans <= 1,
                      where(c.module, f), "more than one send/transition on a path: %s" % " ".join(trace)[:300])
    ctx.count("paths", es.paths_seen)


@rule("C04.R3", "terminal states are final; the timer is stopped before any state change; terminal transitions unregister the transaction and release the device info",
      floor=8, engines="E1 facts + E5")
def r3(ctx):
    prog = ctx.prog
    sv = states(ctx)
    term = {sv["COMPLETED"], sv["ABORTED"]}
    base = prog.cls(MOD, "SSM")
    fn = base.methods.get("set_state")
    if fn is None:
        raise AnchorMissing("SSM.set_state")
    st = attr_stores(fn, "state")
    if not st:
        raise ShapeError("SSM.set_state does not store self.state")
    ev = Evaluator(prog, base.module, base)
    for tgt, stmt in st:
        facts = facts_at(stmt)
        reach = [v for v in range(0, 8) if ev.may_hold(facts, {"self.state": v})]
        ctx.check("SSM.set_state:store-guard", set(reach) == set(range(0, 8)) - term, where(base.module, stmt),
                  "the store to self.state is reachable from current states %r, expected exactly the non-terminal ones %r"
                  % (reach, sorted(set(range(8)) - term)), facts={"reachable_from": reach})
        # value stored is the first parameter
        p0 = fn.args.args[1].arg if len(fn.args.args) > 1 else None
        ctx.check("SSM.set_state:store-value", isinstance(stmt, ast.Assign) and isinstance(stmt.value, ast.Name) and stmt.value.id == p0,
                  where(base.module, stmt), "self.state must receive the requested state parameter")
    # stop_timer before the store, start_timer(timer) after it iff timer
    tname = fn.args.args[2].arg if len(fn.args.args) > 2 else "timer"
    npaths = 0
    for p in enumerate_paths(fn):
        if p.term == "raise":
            continue
        npaths += 1
        nodes = path_nodes(p)
        idx_store = [i for i, n in enumerate(nodes) if isinstance(n, ast.Assign) and any(is_self_attr(t, "state") for t in n.targets)]
        idx_stop = [i for i, n in enumerate(nodes) if isinstance(n, ast.Call) and self_call(n) in ("stop_timer",)]
        idx_start = [i for i, n in enumerate(nodes) if isinstance(n, ast.Call) and self_call(n) in ("start_timer", "restart_timer")]
        ok = bool(idx_store) and bool(idx_stop) and min(idx_stop) < min(idx_store)
        ctx.check("SSM.set_state:stop-before-store", ok, where(base.module, fn),
                  "a non-raising path changes state without stopping the timer first: %s" % p.describe())
        for tv in (0, 1500):
            if not feasible(p, ev, {tname: tv}):
                continue
            if tv:
                ok = bool(idx_start) and idx_store and min(idx_start) > min(idx_store)
                ctx.check("SSM.set_state:start-timer-when-requested", ok, where(base.module, fn),
                          "set_state(S, timer) with timer > 0 does not start the timer after the transition: %s" % p.describe())
                if idx_start:
                    call = nodes[idx_start[0]]
                    ctx.check("SSM.set_state:start-timer-arg", len(call.args) == 1 and norm(call.args[0]) == tname, where(base.module, call),
                              "the timer must be started with the requested interval")
            else:
                ctx.check("SSM.set_state:no-timer-when-zero", not idx_start, where(base.module, fn),
                          "set_state(S) without timer starts a timer: %s" % p.describe())
    ctx.count("paths", npaths)
    # stop_timer really suspends
    for tm in ("stop_timer",):
        f = base.methods.get(tm)
        if f is None:
            raise AnchorMissing("SSM.%s" % tm)
        bad = [p for p in enumerate_paths(f) if feasible(p, ev, {"self.isScheduled": True})
               and not any(isinstance(n, ast.Call) and self_call(n) == "suspend_task" for n in path_nodes(p))]
        ctx.check("SSM.stop_timer:suspends", not bad, where(base.module, f), "stop_timer() does not suspend a scheduled timer")
    # the IOCB's own timeout: arming it again must not leave the previous task scheduled
    io = prog.cls("iocb", "IOCB")
    st_ = io.methods.get("set_timeout")
    if st_ is None:
        raise AnchorMissing("IOCB.set_timeout")
    evio = Evaluator(prog, io.module, io)
    for p in enumerate_paths(st_):
        if p.term == "raise":
            continue
        nodes = path_nodes(p)
        replaced = [n for n in nodes if isinstance(n, ast.Assign) and any(norm(t) == "self.ioTimeout" for t in n.targets)]
        susp = [n for n in nodes if isinstance(n, ast.Call) and norm(n.func) == "self.ioTimeout.suspend_task"]
        inst = [n for n in nodes if isinstance(n, ast.Call) and norm(n.func) == "self.ioTimeout.install_task"]
        had = feasible(p, evio, {"self.ioTimeout": True})
        ok = len(inst) == 1 and (not had or bool(susp)) and (not replaced or not had or (susp and susp[0].lineno < replaced[0].lineno))
        ctx.check("IOCB.set_timeout:rearm", ok, where(io.module, st_), "setting the timeout again must suspend the task armed before (or re-use it): a second task would fire at the old deadline and outlive the outcome")
    for tm in ("start_timer", "restart_timer"):
        f = base.methods.get(tm)
        if f is None:
            raise AnchorMissing("SSM.%s" % tm)
        for p in enumerate_paths(f):
            nodes = path_nodes(p)
            inst = [n for n in nodes if isinstance(n, ast.Call) and self_call(n) == "install_task"]
            susp = [n for n in nodes if isinstance(n, ast.Call) and self_call(n) == "suspend_task"]
            # delegation to the sibling that is checked here too: stop_timer() suspends a pending timer,
            # start_timer(msecs) suspends and installs
            deleg_stop = [n for n in nodes if isinstance(n, ast.Call) and self_call(n) == "stop_timer"]
            deleg_start = [n for n in nodes if isinstance(n, ast.Call) and self_call(n) == "start_timer" and tm != "start_timer"
                           and len(n.args) == 1 and norm(n.args[0]) == f.args.args[1].arg]
            ok = len(inst) + len(deleg_start) == 1
            if deleg_stop or deleg_start:
                pass
            elif feasible(p, ev, {"self.isScheduled": True}) and not feasible(p, ev, {"self.isScheduled": False}):
                ok = ok and len(susp) >= 1
            elif not any("isScheduled" in norm(t) for t, _ in p.conds()):
                ok = ok and False if not susp else ok            # no test of the pending timer at all: it must be suspended unconditionally
            ctx.check("SSM.%s:reinstall" % tm, ok, where(base.module, f), "timer (re)start must suspend a pending timer and install exactly once")
            for c in inst:
                # delta = msecs / 1000.0
                kw = {k.arg: k.value for k in c.keywords}
                d = kw.get("delta")
                pn = f.args.args[1].arg
                good = (isinstance(d, ast.BinOp) and isinstance(d.op, ast.Div) and norm(d.left) == pn
                        and prog.try_const(base.module, d.right) in (1000, 1000.0))
                ctx.check("SSM.%s:milliseconds" % tm, good, where(base.module, c), "timer interval must be msecs/1000 seconds as delta (found %s)" % norm(c))

    # subclasses
    for cname, lst in (("ClientSSM", "clientTransactions"), ("ServerSSM", "serverTransactions")):
        c = prog.cls(MOD, cname)
        f = c.methods.get("set_state")
        if f is None:
            raise AnchorMissing("%s.set_state" % cname)
        evc = Evaluator(prog, c.module, c)
        p0 = f.args.args[1].arg
        for p in enumerate_paths(f):
            if p.term == "raise":
                continue
            nodes = path_nodes(p)
            calls = [n for n in nodes if isinstance(n, ast.Call)]
            basecalls = [n for n in calls if (base_call(n, prog, c) or (None, None))[1] == "set_state"]
            ok = len(basecalls) == 1 and len(basecalls[0].args) >= 3 and norm(basecalls[0].args[1]) == p0 \
                and norm(basecalls[0].args[2]) == f.args.args[2].arg
            if basecalls and isinstance(basecalls[0].func.value, ast.Call):   # super().set_state(newState, timer)
                ok = len(basecalls) == 1 and len(basecalls[0].args) >= 2 and norm(basecalls[0].args[0]) == p0
            ctx.check("%s.set_state:delegates" % cname, ok, where(c.module, f),
                      "every path must pass (newState, timer) to SSM.set_state exactly once")
            removes = [n for n in calls if norm(n.func) == "self.ssmSAP.%s.remove" % lst and len(n.args) == 1 and norm(n.args[0]) == "self"]
            wrong_removes = [n for n in calls if norm(n.func).endswith(".remove") and n not in removes]
            releases = [n for n in calls if norm(n.func) == "self.ssmSAP.deviceInfoCache.release"]
            for v in range(8):
                for di in (True, False):
                    if not feasible(p, evc, {p0: v, "self.device_info": di}):
                        continue
                    if v in term:
                        ok = len(removes) == 1 and not wrong_removes
                        ctx.check("%s.set_state:unregister[%d]" % (cname, v), ok, where(c.module, f),
                                  "entering terminal state %d does not remove the transaction from %s exactly once" % (v, lst))
                        ok = (len(releases) == 1) if di else (len(releases) == 0)
                        ctx.check("%s.set_state:release[%d,%s]" % (cname, v, di), ok, where(c.module, f),
                                  "entering terminal state %d with device_info=%s performs %d releases" % (v, di, len(releases)))
                        if removes and basecalls:
                            ctx.check("%s.set_state:order[%d]" % (cname, v), nodes.index(basecalls[0]) < nodes.index(removes[0]), where(c.module, f),
                                      "the base transition (which refuses terminal->x) must precede the cleanup")
                    else:
                        ctx.check("%s.set_state:keep[%d]" % (cname, v), not removes and not releases and not wrong_removes, where(c.module, f),
                                  "a non-terminal transition (%d) removes the transaction or releases the device info" % v)
        # acquire in __init__ is paired with the release
        init = c.methods.get("__init__")
        acq = [n for n in calls_in(init) if norm(n.func) == "self.ssmSAP.deviceInfoCache.acquire"] if init else []
        ctx.check("%s.__init__:acquire" % cname, len(acq) == 1, where(c.module, init or c.node),
                  "device info must be acquired once at construction (paired with the release at the terminal transition)")
    # who may write .state
    m = prog.module(MOD)
    ssm_family = [c for c in m.classes.values() if base in prog.mro(c)]
    n = 0
    for c in ssm_family:
        for name, f in c.methods.items():
            for tgt, stmt in attr_stores(f, "state"):
                n += 1
                allowed = (c is base and name in ("__init__", "set_state"))
                ctx.check("%s.%s:writes-state" % (c.name, name), allowed, where(m, stmt),
                          "self.state of a transaction may only be written by SSM.set_state")
    ctx.count("state_writers", n)


def _positive_timeout(ev, expr, allowed_timers):
    """the timer argument is a positive time computed from the configured timeouts (and nothing else):
    it evaluates to a positive number whenever the timeouts are positive, for two different settings"""
    try:
        vals = []
        for scale in (1, 7):
            env = {k: 1000 * scale * (i + 1) for i, k in enumerate(sorted(allowed_timers))}
            vals.append(ev.value(expr, env))
    except (NotConst, TypeError):
        return False
    return all(isinstance(v, (int, float)) and not isinstance(v, bool) and v > 0 for v in vals) and vals[0] != vals[1]


@rule("C04.R4", "every waiting state is entered with a timeout and is dispatched by the timeout and event dispatchers",
      floor=14, engines="E1 paths + E5")
def r4(ctx):
    prog = ctx.prog
    sv = states(ctx)
    inv = {v: k for k, v in sv.items()}
    term = {sv["COMPLETED"], sv["ABORTED"]}
    allowed_timers = {"self.apduTimeout", "self.segmentTimeout", "self.ssmSAP.applicationTimeout", "self.applicationTimeout"}
    for cname, dispatchers in (("ClientSSM", ("process_task", "confirmation")), ("ServerSSM", ("process_task", "indication"))):
        c = prog.cls(MOD, cname)
        ev = Evaluator(prog, c.module, c)
        waiting = set()
        for name, f in c.methods.items():
            for call in calls_in(f):
                if self_call(call) != "set_state" or not call.args:
                    continue
                try:
                    s = prog.const(c.module, call.args[0])
                except NotConst:
                    if name == "set_state":
                        continue
                    ctx.bad("%s.%s:set_state(%s)" % (cname, name, norm(call.args[0])), where(c.module, call), "state argument is not a state constant")
                    continue
                if s in term:
                    targ = call.args[1] if len(call.args) > 1 else next((k_.value for k_ in call.keywords if k_.arg == "timer"), None)
                    no_timer = targ is None or (prog.try_const(c.module, targ) == 0 and prog.try_const(c.module, targ) is not False)
                    ctx.check("%s.%s:set_state(%s)" % (cname, name, inv.get(s)), no_timer and len(call.args) <= 2, where(c.module, call),
                              "a terminal transition must not arm a timer")
                    continue
                waiting.add(s)
                targ = call.args[1] if len(call.args) > 1 else next((k.value for k in call.keywords if k.arg == "timer"), None)
                ok = targ is not None and _positive_timeout(ev, targ, allowed_timers)
                ctx.check("%s.%s:set_state(%s)" % (cname, name, inv.get(s)), ok, where(c.module, call),
                          "waiting state %s entered without one of the configured timeouts (found %s): the transaction could wait for ever"
                          % (inv.get(s), norm(targ) if targ is not None else "no timer"))
            for call in calls_in(f):
                if self_call(call) in ("start_timer", "restart_timer") and name not in ("set_state", "start_timer", "restart_timer"):
                    ok = len(call.args) == 1 and _positive_timeout(ev, call.args[0], allowed_timers)
                    ctx.check("%s.%s:%s" % (cname, name, self_call(call)), ok, where(c.module, call), "timer restarted with something that is not a positive time derived from the configured timeouts")
        for d in dispatchers:
            f = c.methods.get(d)
            if f is None:
                raise AnchorMissing("%s.%s" % (cname, d))
            ps = enumerate_paths(f)
            states_to_dispatch = set(waiting)
            if cname == "ServerSSM" and d == "indication":
                states_to_dispatch |= {sv["IDLE"]}
            for s in sorted(states_to_dispatch):
                fs = [p for p in ps if feasible(p, ev, {"self.state": s})]
                handlers = set()
                ok = bool(fs)
                for p in fs:
                    hs = [self_call(n) for n in path_nodes(p) if isinstance(n, ast.Call) and self_call(n)]
                    if p.term == "raise" or not hs:
                        ok = False
                    handlers.update(hs)
                ok = ok and len(handlers) == 1
                ctx.check("%s.%s:dispatch[%s]" % (cname, d, inv.get(s)), ok, where(c.module, f),
                          "state %s is not dispatched to exactly one handler (found %s)" % (inv.get(s), sorted(handlers)),
                          facts={"handlers": sorted(handlers)})
            # distinct states go to distinct handlers
            seen = {}
            for s in sorted(states_to_dispatch):
                for p in ps:
                    if feasible(p, ev, {"self.state": s}):
                        for n in path_nodes(p):
                            if isinstance(n, ast.Call) and self_call(n):
                                seen.setdefault(self_call(n), set()).add(s)
            for h, ss in seen.items():
                ctx.check("%s.%s:handler[%s]" % (cname, d, h), len(ss) == 1, where(c.module, f),
                          "handler %s is reached from several states %s" % (h, sorted(inv[x] for x in ss)))
            if d == "process_task":
                # terminal states: timer expiry is a no-op (no raise, no call)
                for s in sorted(term):
                    fs = [p for p in ps if feasible(p, ev, {"self.state": s})]
                    ok = bool(fs) and all(p.term != "raise" and not [n for n in path_nodes(p) if isinstance(n, ast.Call)] for p in fs)
                    ctx.check("%s.%s:terminal-noop[%s]" % (cname, d, inv.get(s)), ok, where(c.module, f), "a late timer in a terminal state must be ignored")
        # expected pairing handler <-> state by name
        expected = {"process_task": {"SEGMENTED_REQUEST": "segmented_request_timeout", "AWAIT_CONFIRMATION": "await_confirmation_timeout",
                                     "SEGMENTED_CONFIRMATION": "segmented_confirmation_timeout", "AWAIT_RESPONSE": "await_response_timeout",
                                     "SEGMENTED_RESPONSE": "segmented_response_timeout"}}
        f = c.methods["process_task"]
        ps = enumerate_paths(f)
        for s in sorted(waiting):
            want = expected["process_task"].get(inv[s])
            got = set()
            for p in ps:
                if feasible(p, ev, {"self.state": s}):
                    got.update(self_call(n) for n in path_nodes(p) if isinstance(n, ast.Call) and self_call(n))
            if want and want in c.methods:
                ctx.check("%s.process_task:timeout-of[%s]" % (cname, inv[s]), got == {want}, where(c.module, f),
                          "timeout in state %s runs %s, the class's handler for it is %s" % (inv[s], sorted(got), want))


def _retry_rule(ctx, cname, mname, counter, terminal_pred):
    prog = ctx.prog
    c = prog.cls(MOD, cname)
    f = c.methods.get(mname)
    if f is None:
        raise AnchorMissing("%s.%s" % (cname, mname))
    ev = Evaluator(prog, c.module, c)
    _, es = summaries(ctx, cname)
    ckey = "self.%s" % counter
    ps = enumerate_paths(f)
    for p in ps:
        if p.term == "raise":
            continue
        nodes = path_nodes(p)
        # terminal path?
        t = False
        resp = 0
        for n in nodes:
            if isinstance(n, ast.Call):
                if self_call(n) == "set_state" and n.args and prog.try_const(c.module, n.args[0]) in terminal_values(ctx):
                    t = True
                elif self_call(n) and self_call(n) not in PRIMS and self_call(n) != mname:
                    if any(tt[1] >= 1 for tt in es.of_method(self_call(n))) and not any(tt[1] == 0 for tt in es.of_method(self_call(n))):
                        t = True
        feas = [v for v in range(0, 7) if feasible(p, ev, {ckey: v, "self.numberOfApduRetries": 3})]
        if t:
            ctx.check("%s.%s:give-up-branch" % (cname, mname), set(feas) == {3, 4, 5, 6}, where(c.module, f),
                      "the give-up branch must be taken exactly when %s >= numberOfApduRetries (taken for counts %r with 3 retries)" % (counter, feas),
                      facts={"feasible_counts": feas})
            continue
        ctx.check("%s.%s:retry-branch" % (cname, mname), set(feas) == {0, 1, 2}, where(c.module, f),
                  "the retransmit branch must be taken exactly while %s < numberOfApduRetries (taken for counts %r with 3 retries)" % (counter, feas),
                  facts={"feasible_counts": feas})
        incs = [n for n in nodes if (isinstance(n, ast.AugAssign) and norm(n.target) == ckey and isinstance(n.op, ast.Add) and prog.try_const(c.module, n.value) == 1)
                or (isinstance(n, ast.Assign) and norm(n.targets[0]) == ckey and norm(n.value) in (ckey + " + 1", "1 + " + ckey))]
        ctx.check("%s.%s:counts-retry" % (cname, mname), len(incs) == 1, where(c.module, f),
                  "the retransmit branch increments %s %d times (must be exactly once, by one)" % (counter, len(incs)))
        # something is actually re-sent and the timer re-armed
        sends = [n for n in nodes if isinstance(n, ast.Call) and self_call(n) in ("request", "response", "fill_window", "indication")]
        ctx.check("%s.%s:resends" % (cname, mname), len(sends) >= 1, where(c.module, f), "the retransmit branch sends nothing")
        timers = [n for n in nodes if isinstance(n, ast.Call) and self_call(n) in ("start_timer", "restart_timer", "indication")]
        ctx.check("%s.%s:rearms" % (cname, mname), len(timers) >= 1, where(c.module, f), "the retransmit branch does not re-arm the timer")
        # the timer has just fired: it must be armed again before anything that can raise (get_segment refuses a bad index),
        # otherwise a failing retransmission leaves a live transaction without any timer
        if timers and sends:
            risky = [n for n in nodes if isinstance(n, ast.Call) and self_call(n) in ("fill_window", "get_segment", "request", "response")]
            ctx.check("%s.%s:rearms-before-resend" % (cname, mname), nodes.index(timers[0]) < nodes.index(risky[0]) if risky else True, where(c.module, f),
                      "the timer is re-armed only after the retransmission: if get_segment()/fill_window() raises, the transaction stays for ever without a timer")
        # re-entrant indication resets the counter: must be restored from a local saved after the increment
        reent = [n for n in nodes if isinstance(n, ast.Call) and self_call(n) == "indication"]
        if reent and incs:
            i_inc = nodes.index(incs[0])
            i_call = nodes.index(reent[0])
            saves = [(i, n) for i, n in enumerate(nodes) if isinstance(n, ast.Assign) and len(n.targets) == 1 and isinstance(n.targets[0], ast.Name)
                     and norm(n.value) == ckey and i_inc < i < i_call]
            restores = [(i, n) for i, n in enumerate(nodes) if isinstance(n, ast.Assign) and norm(n.targets[0]) == ckey and i > i_call
                        and isinstance(n.value, ast.Name) and any(n.value.id == s.targets[0].id for _, s in saves)]
            ctx.check("%s.%s:restores-count" % (cname, mname), bool(saves) and bool(restores), where(c.module, f),
                      "indication() resets %s; the incremented value must be saved before and restored after the re-entrant call" % counter)
            # and the re-sent PDU is the saved request
            ctx.check("%s.%s:resends-same-request" % (cname, mname), len(reent[0].args) == 1 and norm(reent[0].args[0]) == "self.segmentAPDU",
                      where(c.module, reent[0]), "the retry must resend the stored request")
    ctx.count("paths", len(ps))


@rule("C04.R5", "retransmissions are counted against numberOfApduRetries and end in an abort", floor=9, engines="E1 paths + E5")
def r5(ctx):
    _retry_rule(ctx, "ClientSSM", "segmented_request_timeout", "segmentRetryCount", None)
    _retry_rule(ctx, "ClientSSM", "await_confirmation_timeout", "retryCount", None)
    _retry_rule(ctx, "ServerSSM", "segmented_response_timeout", "segmentRetryCount", None)
    # the counters are reset when a transfer (re)starts
    c = ctx.prog.cls(MOD, "ClientSSM")
    f = c.methods["indication"]
    for p in enumerate_paths(f):
        if p.term == "raise":
            continue
        nodes = path_nodes(p)
        sets = [n for n in nodes if isinstance(n, ast.Call) and self_call(n) == "set_state" and ctx.prog.try_const(c.module, n.args[0]) not in terminal_values(ctx)]
        if not sets:
            continue
        z = [n for n in nodes if isinstance(n, ast.Assign) and norm(n.targets[0]) == "self.retryCount" and ctx.prog.try_const(c.module, n.value) == 0]
        if not ctx.check("ClientSSM.indication:resets-retryCount", bool(z), where(c.module, f), "a path that starts waiting does not zero retryCount"):
            break
    else:
        pass
    # the segment retry counter is cleared only when the peer made progress (an ack inside the window moves it on)
    for cname, mname in (("ClientSSM", "segmented_request"), ("ServerSSM", "segmented_response")):
        cc = ctx.prog.cls(MOD, cname)
        f = cc.methods.get(mname)
        if f is None:
            raise AnchorMissing("%s.%s" % (cname, mname))
        from ..guards import atoms_of_facts
        zs = [s_ for t, s_ in attr_stores(f, "segmentRetryCount") if isinstance(s_, ast.Assign) and ctx.prog.try_const(cc.module, s_.value) == 0]
        okz = bool(zs)
        for z in zs:
            at = atoms_of_facts(facts_at(z, check_kills=False))      # the guard as evaluated (the branch then moves the window)
            inw = [(a, p) for a, p in at if isinstance(a, ast.Call) and self_call(a) == "in_window"]
            if not (len(inw) == 1 and inw[0][1] is True):
                okz = False
        ctx.check("%s.%s:retry-reset-only-on-progress" % (cname, mname), okz, where(cc.module, f),
                  "segmentRetryCount is cleared on a segment-ack that is not inside the window (e.g. a repeated NAK): a lost segment is then retransmitted for ever")
    # numberOfApduRetries / timeouts come from the configuration (local device or SAP default)
    base = ctx.prog.cls(MOD, "SSM")
    init = base.methods["__init__"]
    for fld, src in (("numberOfApduRetries", "numberOfApduRetries"), ("apduTimeout", "apduTimeout"), ("segmentTimeout", "apduSegmentTimeout")):
        st = [s for t, s in attr_stores(init, fld)]
        ok = len(st) == 1 and isinstance(st[0].value, ast.Call) and norm(st[0].value.func) == "getattr" and \
            ctx.prog.try_const(base.module, st[0].value.args[1]) == src
        ctx.check("SSM.__init__:%s" % fld, ok, where(base.module, st[0] if st else init), "%s must be read from the local device's %s" % (fld, src))


@rule("C04.R6", "IOCB layer: completion/abort are idempotent, finish the active block, clear it and advance the queue; responses map to complete/abort exhaustively",
      floor=12, engines="E1 paths + E5")
def r6(ctx):
    prog = ctx.prog
    m = prog.module("iocb")
    ioc = prog.cls("iocb", "IOController")
    consts = {}
    for n in ("IDLE", "PENDING", "ACTIVE", "COMPLETED", "ABORTED"):
        v = m.consts.get(n)
        if not v:
            raise AnchorMissing("iocb.%s" % n)
        consts[n] = prog.const(m, v[0])
    ev = Evaluator(prog, m, ioc)
    for mname, newstate, fld in (("complete_io", "COMPLETED", "ioResponse"), ("abort_io", "ABORTED", "ioError")):
        f = ioc.methods.get(mname)
        if f is None:
            raise AnchorMissing("IOController.%s" % mname)
        iocb = f.args.args[1].arg
        val = f.args.args[2].arg
        for p in enumerate_paths(f):
            nodes = path_nodes(p)
            for sname, s in consts.items():
                if not feasible(p, ev, {"%s.ioState" % iocb: s}):
                    continue
                stores = [n for n in nodes if isinstance(n, ast.Assign) and norm(n.targets[0]) == "%s.ioState" % iocb]
                trig = [n for n in nodes if isinstance(n, ast.Call) and norm(n.func) == "%s.trigger" % iocb]
                res = [n for n in nodes if isinstance(n, ast.Assign) and norm(n.targets[0]) == "%s.%s" % (iocb, fld) and norm(n.value) == val]
                if sname in ("COMPLETED", "ABORTED"):
                    ok = not stores and not trig and not res and p.term != "raise"
                    ctx.check("IOController.%s:idempotent[%s]" % (mname, sname), ok, where(m, f),
                              "a block that is already %s is changed or triggered again" % sname)
                else:
                    ok = (len(stores) == 1 and prog.try_const(m, stores[0].value) == consts[newstate] and len(trig) == 1 and len(res) == 1
                          and nodes.index(stores[0]) < nodes.index(trig[0]) and nodes.index(res[0]) < nodes.index(trig[0]))
                    ctx.check("IOController.%s:finishes[%s]" % (mname, sname), ok, where(m, f),
                              "from state %s the block must get state %s and its result, then be triggered exactly once" % (sname, newstate))
    # IOCB.trigger: dequeue, stop the timeout, set the event, call back each callback once
    iocb_c = prog.cls("iocb", "IOCB")
    f = iocb_c.methods.get("trigger")
    if f is None:
        raise AnchorMissing("IOCB.trigger")
    evi = Evaluator(prog, m, iocb_c)
    for p in enumerate_paths(f):
        nodes = path_nodes(p)
        calls = [norm(n.func) for n in nodes if isinstance(n, ast.Call)]
        if feasible(p, evi, {"self.ioQueue": True}):
            ctx.check("IOCB.trigger:dequeues", "self.ioQueue.remove" in calls, where(m, f), "a queued block is triggered without being removed from its queue")
        if feasible(p, evi, {"self.ioTimeout": True}):
            ctx.check("IOCB.trigger:stops-timeout", "self.ioTimeout.suspend_task" in calls, where(m, f), "the timeout task stays armed after the block finished (a later timeout would abort a finished block)")
        ctx.check("IOCB.trigger:sets-event", calls.count("self.ioComplete.set") == 1, where(m, f), "completion event not set exactly once")
    loops = [n for n in ast.walk(f) if isinstance(n, ast.For) and norm(n.iter) == "self.ioCallback"]
    ok = len(loops) == 1 and len([c for c in calls_in(loops[0]) if isinstance(c.func, ast.Name)]) == 1 if loops else False
    ctx.check("IOCB.trigger:callbacks", ok, where(m, f), "each registered callback must be called exactly once per trigger")
    # IOCB.complete/abort without controller: same idempotence
    for mname, newstate in (("complete", "COMPLETED"), ("abort", "ABORTED")):
        f = iocb_c.methods.get(mname)
        if f is None:
            raise AnchorMissing("IOCB.%s" % mname)
        for p in enumerate_paths(f):
            nodes = path_nodes(p)
            deleg = [n for n in nodes if isinstance(n, ast.Call) and norm(n.func) == "self.ioController.%s_io" % mname]
            trig = [n for n in nodes if isinstance(n, ast.Call) and norm(n.func) == "self.trigger"]
            if feasible(p, evi, {"self.ioController": True}) and not feasible(p, evi, {"self.ioController": False}):
                ctx.check("IOCB.%s:delegates" % mname, len(deleg) == 1 and not trig, where(m, f), "with a controller the block must be finished through the controller only")
            else:
                ctx.check("IOCB.%s:local" % mname, not deleg and len(trig) <= 1, where(m, f), "without a controller the block is finished locally at most once")
    # IOQController
    q = prog.cls("iocb", "IOQController")
    evq = Evaluator(prog, m, q)
    ctrl = {}
    for n in ("CTRL_IDLE", "CTRL_ACTIVE", "CTRL_WAITING"):
        v = m.consts.get(n)
        if not v:
            raise AnchorMissing("iocb.%s" % n)
        ctrl[n] = prog.const(m, v[0])
    for mname in ("complete_io", "abort_io"):
        f = q.methods.get(mname)
        if f is None:
            raise AnchorMissing("IOQController.%s" % mname)
        iocb = f.args.args[1].arg
        for p in enumerate_paths(f):
            if p.term == "raise":
                # complete_io refuses a block that is not the active one
                continue
            nodes = path_nodes(p)
            calls = [n for n in nodes if isinstance(n, ast.Call)]
            deleg = [n for n in calls if (base_call(n, prog, q) or (None, None))[1] == mname]
            ctx.check("IOQController.%s:delegates" % mname, len(deleg) == 1, where(m, f), "must finish the block through IOController.%s exactly once" % mname)
            is_active = feasible(p, evq, {"%s is self.active_iocb" % iocb: True, "%s is not self.active_iocb" % iocb: False})
            not_active = feasible(p, evq, {"%s is self.active_iocb" % iocb: False, "%s is not self.active_iocb" % iocb: True})
            clears = [n for n in nodes if isinstance(n, ast.Assign) and norm(n.targets[0]) == "self.active_iocb" and prog.try_const(m, n.value, default=0) is None]
            st = [n for n in nodes if isinstance(n, ast.Assign) and norm(n.targets[0]) == "self.state"]
            adv = [n for n in calls if (norm(n.func) == "deferred" and n.args and norm(n.args[0]).endswith("._trigger"))
                   or (norm(n.func).endswith("install_task"))]
            if is_active and not not_active:
                ok = len(clears) == 1 and len(st) == 1 and len(adv) == 1
                if ok:
                    v = prog.try_const(m, st[0].value)
                    ok = v in (ctrl["CTRL_IDLE"], ctrl["CTRL_WAITING"])
                ctx.check("IOQController.%s:advance" % mname, ok, where(m, f),
                          "finishing the active block must clear active_iocb, leave the controller idle/waiting and schedule the next queue entry exactly once: %s" % p.describe())
            elif not_active and not is_active:
                ctx.check("IOQController.%s:foreign" % mname, not clears and not st and not adv, where(m, f),
                          "finishing a block that is not the active one must not disturb the controller")
    f = q.methods.get("_trigger")
    if f is None:
        raise AnchorMissing("IOQController._trigger")
    for p in enumerate_paths(f):
        nodes = path_nodes(p)
        gets = [n for n in nodes if isinstance(n, ast.Call) and norm(n.func) == "self.ioQueue.get"]
        if gets:
            fa = facts_at(gets[0])
            reach = [k for k, v in sorted(ctrl.items()) if evq.may_hold(fa, {"self.state": v})]
            ctx.check("IOQController._trigger:only-when-idle", reach == ["CTRL_IDLE"], where(m, f),
                      "the next block is taken from the queue while the controller may be %s" % reach)
            qe = [v for v in (True, False) if evq.may_hold(fa, {"self.ioQueue.queue": v})]
            ctx.check("IOQController._trigger:only-when-queued", qe == [True], where(m, f), "the queue is read although it may be empty")
            pr = [n for n in nodes if isinstance(n, ast.Call) and norm(n.func) == "self.process_io"]
            exc = any(e.kind == "except" for e in p.events)
            ctx.check("IOQController._trigger:process", len(pr) == 1 or exc, where(m, f), "dequeued block is not processed")
    # request_io: busy -> queued, idle -> processed; errors abort the block
    f = q.methods.get("request_io")
    for p in enumerate_paths(f):
        nodes = path_nodes(p)
        puts = [n for n in nodes if isinstance(n, ast.Call) and norm(n.func) == "self.ioQueue.put"]
        procs = [n for n in nodes if isinstance(n, ast.Call) and norm(n.func) == "self.process_io"]
        idle = feasible(p, evq, {"self.state": ctrl["CTRL_IDLE"]})
        busy = feasible(p, evq, {"self.state": ctrl["CTRL_ACTIVE"]})
        if busy and not idle:
            ctx.check("IOQController.request_io:busy-queues", len(puts) == 1 and not procs, where(m, f), "a request arriving at a busy controller must be queued, not processed")
        if idle and not busy and not any(e.kind == "except" for e in p.events):
            ctx.check("IOQController.request_io:idle-processes", len(procs) == 1 and not puts, where(m, f), "a request arriving at an idle controller must be processed")
    # _app_complete: exhaustive mapping of response classes
    appc = prog.cls("app", "ApplicationIOController")
    f = appc.methods.get("_app_complete")
    if f is None:
        raise AnchorMissing("ApplicationIOController._app_complete")
    mapping = {}
    for call in calls_in(f):
        fn = norm(call.func)
        if fn.endswith(".complete_io") or fn.endswith(".abort_io"):
            facts = facts_at(call)
            for fa in facts:
                if fa.pol and isinstance(fa.test, ast.Call) and norm(fa.test.func) == "isinstance" and fa.origin == "arm":
                    k = fa.test.args[1]
                    names = [norm(e) for e in (k.elts if isinstance(k, ast.Tuple) else [k])]
                    for nm in names:
                        mapping[nm] = fn.rsplit(".", 1)[1]
            ctx.check("_app_complete:%s-active" % fn.rsplit(".", 1)[1], len(call.args) == 2 and norm(call.args[0]).endswith(".active_iocb"), where(appc.module, call),
                      "the response must finish the queue's active block")
    want = {"SimpleAckPDU": "complete_io", "ComplexAckPDU": "complete_io", "ErrorPDU": "abort_io", "RejectPDU": "abort_io", "AbortPDU": "abort_io"}
    for k, v in want.items():
        ctx.check("_app_complete:map[%s]" % k, mapping.get(k) == v, where(appc.module, f),
                  "%s must finish the request through %s (found %s)" % (k, v, mapping.get(k)), facts={"mapping": mapping})
    ctx.check("_app_complete:map[None]", any(k.startswith("None") or k == "type(None)" for k, v in mapping.items() if v == "complete_io"), where(appc.module, f),
              "an unconfirmed request (None) must complete the block")
    # the per-peer queue is forgotten only when it is empty and idle
    dels = [n for n in walk_shallow_(f) if isinstance(n, ast.Delete) and "queue_by_address" in norm(n)]
    okd = len(dels) == 1
    if okd:
        eva = Evaluator(prog, appc.module, appc)
        fa = facts_at(dels[0])
        qn = [norm(c.func.value) for c in calls_in(f) if norm(c.func).endswith(".complete_io")]
        q = qn[0] if qn else "queue"
        reach = [(a, b) for a in (True, False) for b in (True, False) if eva.may_hold(fa, {"%s.ioQueue.queue" % q: a, "%s.active_iocb" % q: b})]
        okd = reach == [(False, False)]
    ctx.check("_app_complete:queue-dropped-only-when-idle", okd, where(appc.module, f),
              "the per-peer request queue may be discarded only when nothing is queued and nothing is active ((queued, active) combinations reaching the delete: %r): otherwise a later reply is matched against the wrong request" % (reach if dels else None,))
    # confirmation routes every response into _app_complete keyed by the peer address
    f = appc.methods.get("confirmation")
    if f is None:
        raise AnchorMissing("ApplicationIOController.confirmation")
    cs = [c for c in calls_in(f) if self_call(c) == "_app_complete"]
    ok = len(cs) == 1 and len(cs[0].args) == 2 and norm(cs[0].args[0]).endswith(".pduSource") and norm(cs[0].args[1]) == f.args.args[1].arg
    ctx.check("ApplicationIOController.confirmation:routes", ok and not facts_at(cs[0]), where(appc.module, f), "every response must be routed to the queue of its source address")
