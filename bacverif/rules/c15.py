"""C15 - property reads and writes: validate before mutate, refusal table,
array indexing, ReadProperty vs ReadPropertyMultiple, error literals, drift
of the (object type, property) -> datatype table."""
import ast
import json
import os

from ..report import rule, VERIF_DIR
from ..model import norm, NotConst, calls_in, stores_in, ShapeError, AnchorMissing, is_self_attr
from ..paths import enumerate_paths, facts_at, walk_shallow, enclosing_stmt, always_leaves
from ..guards import Evaluator, atom_texts, conjuncts, atoms_of_facts
from ..tables import Tables
from .common import where, path_nodes, feasible, body_paths, consistent, self_call

PROP_REF = os.path.join(VERIF_DIR, "spec", "property_reference.json")


def _is_mutation(n):
    """store into object state: obj._values[...] = / arry[...] = / app indexes"""
    if isinstance(n, ast.Assign):
        for t in n.targets:
            tx = norm(t)
            if isinstance(t, ast.Subscript) and (norm(t.value).endswith("._values") or norm(t.value) == "arry" or norm(t.value).endswith("._app.objectName") or norm(t.value).endswith("._app.objectIdentifier")):
                return True
    if isinstance(n, ast.Delete):
        for t in n.targets:
            if isinstance(t, ast.Subscript) and (norm(t.value).endswith("._app.objectName") or norm(t.value).endswith("._app.objectIdentifier") or norm(t.value) == "app_object_list"):
                return True
    return False


@rule("C15.R1", "a write validates before it mutates: nothing can refuse the write after the first store into object state", floor=5, engines="E1 paths (validate-before-mutate)")
def r1(ctx):
    prog = ctx.prog
    pc = prog.cls("object", "Property")
    m = pc.module
    f = pc.methods.get("WriteProperty")
    if f is None:
        raise AnchorMissing("Property.WriteProperty")
    top = [s for s in f.body if not (isinstance(s, ast.Expr) and isinstance(s.value, ast.Constant))]
    first = None
    for i, s in enumerate(top):
        if any(_is_mutation(n) for n in ast.walk(s)):
            first = i
            break
    if first is None:
        raise ShapeError("Property.WriteProperty: no store into object state found")
    # (a) every raise in later top-level statements: none at all
    late = [n for s in top[first + 1:] for n in ast.walk(s) if isinstance(n, ast.Raise)]
    ctx.check("Property.WriteProperty:no-raise-after-mutation-block", not late, where(m, late[0] if late else f), "a raise follows the statement that stores the value")
    # (b) inside the mutating statement(s): on every path, no raise after a completed mutation
    n = 0
    for s in top[first:]:
        if not any(_is_mutation(x) for x in ast.walk(s)):
            continue
        for p in body_paths([s]):
            if not consistent(p.conds()):
                continue
            n += 1
            mutated = False
            bad = None
            pending = None
            for e in p.events:
                if e.kind == "excin":
                    pending = e.node          # this statement did not complete
                if e.kind == "stmt" and _is_mutation(e.node):
                    mutated = True
                if e.kind == "raise" and mutated:
                    bad = e.node
            ctx.check("Property.WriteProperty:no-refusal-after-store", bad is None, where(m, bad or s), "the write is refused after the value was already stored: %s" % p.describe()[:200])
    ctx.count("paths", n)
    # (c) the checks that can refuse are all in front: mutability, required value, datatype
    ev = Evaluator(prog, m, pc)
    rs = [r for s in top[:first] for r in ast.walk(s) if isinstance(r, ast.Raise)]
    kinds = set()
    for r in rs:
        tx = norm(r.exc)
        kinds.add("writeAccessDenied" if "writeAccessDenied" in tx else "InvalidParameterDatatype" if "InvalidParameterDatatype" in tx else "propertyIsNotAnArray" if "propertyIsNotAnArray" in tx else "ValueError" if "ValueError" in tx else "other")
    ctx.check("Property.WriteProperty:validation-precedes", {"writeAccessDenied", "InvalidParameterDatatype"} <= kinds and len(rs) >= 8, where(m, f), "mutability and datatype checks must precede the store (found %d refusing raises of kinds %s before it)" % (len(rs), sorted(kinds)))
    # (d) the datatype cascade is exhaustive over value kinds: every way through an arm that does not refuse has actually
    # tested the value for membership in something (is_valid / isinstance ... true), never only "it is not a list"
    casc = None
    for x in ast.walk(f):
        if isinstance(x, ast.If) and "issubclass(self.datatype, AnyAtomic)" in norm(x.test):
            casc = x
    if casc is None:
        raise ShapeError("Property.WriteProperty: datatype cascade not found")
    node = casc
    narm = 0
    while True:
        arm_name = norm(node.test)[:60]
        for p_ in body_paths(node.body):
            if p_.term == "raise" or not consistent(p_.conds()):
                continue
            narm += 1
            tested = False
            for t_, pol_ in p_.conds():
                for a_, ap_ in conjuncts(t_, pol_):
                    tx = norm(a_)
                    if isinstance(a_, ast.Call) and (tx.startswith("isinstance(value") or tx.endswith(".is_valid(value)") or tx.startswith("isinstance(item") or tx.endswith(".is_valid(item)")) and ap_:
                        tested = True
                    if isinstance(a_, ast.BoolOp) and "isinstance(value, self.datatype)" in tx:
                        tested = True           # (value is not None) and not isinstance(value, datatype): false means None or an instance
            ctx.check("Property.WriteProperty:arm[%s]:value-kind-tested" % arm_name, tested, where(m, node),
                      "a value can pass this arm without ever being tested for membership in the property's type (%s): it is stored unchecked" % p_.describe()[:160])
        if len(node.orelse) == 1 and isinstance(node.orelse[0], ast.If):
            node = node.orelse[0]
        else:
            break
    if narm < 5:
        raise ShapeError("Property.WriteProperty: only %d accepting paths through the datatype cascade" % narm)
    # direct writes skip validation only
    d = [s for s in top[:first] if isinstance(s, ast.If) and norm(s.test) == "direct"]
    ctx.check("Property.WriteProperty:direct-skips-validation-only", len(d) == 1 and not any(_is_mutation(x) for x in ast.walk(d[0])), where(m, f), "`direct` selects whether to validate, never whether to store")
    # the array element store translates its own failures
    tries = [t for s in top[first:] for t in ast.walk(s) if isinstance(t, ast.Try)]
    ok = len(tries) == 1 and len(tries[0].body) == 1 and _is_mutation(tries[0].body[0])
    codes = {}
    if ok:
        for h in tries[0].handlers:
            codes[norm(h.type)] = [prog.try_const(m, k.value) for x in ast.walk(h) if isinstance(x, ast.Call) and norm(x.func) == "ExecutionError" for k in x.keywords if k.arg == "errorCode"]
    ctx.check("Property.WriteProperty:element-store-errors", ok and codes.get("IndexError") == ["invalidArrayIndex"] and codes.get("TypeError") == ["valueOutOfRange"], where(m, f), "a bad element index must become invalidArrayIndex, a refused length change valueOutOfRange (found %r)" % codes)
    # monitors run after the store with (old, new)
    # local/object.py: writable name / identifier
    lo = prog.module("local.object")
    for cname, idx in (("WriteableObjectName", "objectName"), ("WriteableObjectIdentifier", "objectIdentifier")):
        c = prog.cls("local.object", cname)
        g = c.methods.get("WriteProperty")
        if g is None:
            raise AnchorMissing("%s.WriteProperty" % cname)
        for p in enumerate_paths(g):
            if not consistent(p.conds()):
                continue
            nodes = path_nodes(p)
            base = [i for i, x in enumerate(nodes) if isinstance(x, ast.Call) and norm(x.func) == "Property.WriteProperty"]
            raises = [i for i, x in enumerate(nodes) if isinstance(x, ast.Raise)]
            muts = [i for i, x in enumerate(nodes) if _is_mutation(x)]
            ok = all(r < base[0] for r in raises) if base else True
            ok = ok and (all(mi > base[0] for mi in muts) if base else not muts)
            ctx.check("%s.WriteProperty:refuse-then-write-then-index" % cname, ok, where(lo, g), "refusals must precede the delegated write and the application's index is updated only after it")
        # duplicate test against the application's index
        rs = [r for r in walk_shallow(g) if isinstance(r, ast.Raise)]
        ok = any(("duplicateName" if idx == "objectName" else "duplicateObjectId") in norm(r.exc) and any(t.endswith("in obj._app.%s" % idx) and p for t, p in atom_texts(facts_at(r))) for r in rs)
        ctx.check("%s.WriteProperty:duplicate-refused" % cname, ok, where(lo, g), "a name / identifier already used in the device must be refused")
    from . import c17
    c17.r4(ctx)


@rule("C15.R2", "each way a read or write can fail is answered with its own error class and code", floor=10, engines="E1 facts + E3 literals")
def r2(ctx):
    prog = ctx.prog
    pc = prog.cls("object", "Property")
    m = pc.module
    ev = Evaluator(prog, m, pc)

    def code_of(r):
        if isinstance(r.exc, ast.Call) and norm(r.exc.func) == "ExecutionError":
            kw = {k.arg: prog.try_const(m, k.value) for k in r.exc.keywords}
            a = [prog.try_const(m, x) for x in r.exc.args]
            return (kw.get("errorClass", a[0] if a else None), kw.get("errorCode", a[1] if len(a) > 1 else None))
        return None
    w = pc.methods["WriteProperty"]
    rd = pc.methods.get("ReadProperty")
    if rd is None:
        raise AnchorMissing("Property.ReadProperty")
    # immutable
    imm = [r for r in walk_shallow(w) if isinstance(r, ast.Raise) and code_of(r) == ("property", "writeAccessDenied")]
    ok = len(imm) == 1 and ("self.mutable", False) in atom_texts(facts_at(imm[0])) and not ev.may_hold(facts_at(imm[0]), {"direct": True})
    ctx.check("Property.WriteProperty:immutable->writeAccessDenied", ok, where(m, w), "a read-only property answers property/writeAccessDenied (not for direct internal writes)")
    for fn, nm in ((w, "WriteProperty"), (rd, "ReadProperty")):
        na = [r for r in walk_shallow(fn) if isinstance(r, ast.Raise) and code_of(r) == ("property", "propertyIsNotAnArray")]
        ok = len(na) >= 1 and all(any(t == "issubclass(self.datatype, Array)" and not p for t, p in atom_texts(facts_at(r))) or any("issubclass(self.datatype, List)" == t and p for t, p in atom_texts(facts_at(r))) for r in na) \
            and all(not ev.may_hold(facts_at(r), {"arrayIndex": None}) and ev.may_hold(facts_at(r), {"arrayIndex": 1}) for r in na)
        ctx.check("Property.%s:index-on-non-array->propertyIsNotAnArray" % nm, ok, where(m, fn), "an array index on a property that is not an array answers property/propertyIsNotAnArray")
        hs = [h for t in walk_shallow(fn) if isinstance(t, ast.Try) for h in t.handlers if h.type is not None and norm(h.type) == "IndexError"]
        ok = len(hs) == 1 and any(isinstance(r, ast.Raise) and code_of(r) == ("property", "invalidArrayIndex") for r in ast.walk(hs[0]))
        ctx.check("Property.%s:IndexError->invalidArrayIndex" % nm, ok, where(m, fn), "an index outside the array answers property/invalidArrayIndex")
    # service handlers
    so = prog.module("service.object")
    c = prog.cls("service.object", "ReadWritePropertyServices")
    for hname in ("do_ReadPropertyRequest", "do_WritePropertyRequest"):
        h = c.methods.get(hname)
        if h is None:
            raise AnchorMissing("ReadWritePropertyServices.%s" % hname)
        rs = [r for r in walk_shallow(h) if isinstance(r, ast.Raise)]
        uo = [r for r in rs if isinstance(r.exc, ast.Call) and "unknownObject" in norm(r.exc) and "'object'" in norm(r.exc).replace('"', "'")]
        ok = len(uo) == 1 and ("obj", False) in atom_texts(facts_at(uo[0]))
        ctx.check("%s:unknown-object" % hname, ok, where(so, h), "an object that does not exist answers object/unknownObject")
        hs = [hh for t in walk_shallow(h) if isinstance(t, ast.Try) for hh in t.handlers if hh.type is not None and norm(hh.type) == "PropertyError"]
        ok = len(hs) == 1 and any(isinstance(r, ast.Raise) and "unknownProperty" in norm(r.exc) and "'property'" in norm(r.exc).replace('"', "'") for r in ast.walk(hs[0]))
        ctx.check("%s:PropertyError->unknownProperty" % hname, ok, where(so, h), "a property the object does not have answers property/unknownProperty")
        pe = [r for r in rs if isinstance(r.exc, ast.Call) and norm(r.exc.func) == "PropertyError"]
        ok = len(pe) == 1 and any("is None" in t and p for t, p in atom_texts(facts_at(pe[0])))
        ctx.check("%s:absent-value->unknownProperty" % hname, ok, where(so, h), "a property whose value is None is treated as not present")
    # the object's own lookup raises PropertyError
    oc = prog.cls("object", "Object")
    ap = oc.methods.get("_attr_to_property")
    ok = ap is not None and any(isinstance(r, ast.Raise) and norm(r.exc.func) == "PropertyError" and ("prop", False) in atom_texts(facts_at(r)) for r in walk_shallow(ap))
    ctx.check("Object._attr_to_property:unknown->PropertyError", ok, where(m, ap or oc.node), "an unknown property identifier raises PropertyError")
    g = so.functions.get("read_property_to_result_element")
    if g is None:
        raise AnchorMissing("service.object.read_property_to_result_element")
    got = {}
    for t in [x for x in walk_shallow(g) if isinstance(x, ast.Try)]:
        for hh in t.handlers:
            for x in ast.walk(hh):
                if isinstance(x, ast.Call) and norm(x.func) == "ErrorType":
                    got[norm(hh.type)] = {k.arg: norm(k.value) for k in x.keywords}
    ok = got.get("PropertyError") == {"errorClass": "'property'", "errorCode": "'unknownProperty'"} and got.get("ExecutionError") == {"errorClass": "error.errorClass", "errorCode": "error.errorCode"}
    ctx.check("read_property_to_result_element:embedded-errors", ok, where(so, g), "ReadPropertyMultiple embeds unknownProperty for PropertyError and the class/code of any ExecutionError (found %r)" % got)
    uo = [r for r in walk_shallow(g) if isinstance(r, ast.Raise) and "unknownObject" in norm(r.exc)]
    ctx.check("read_property_to_result_element:unknown-object", len(uo) == 1 and ("obj", False) in atom_texts(facts_at(uo[0])), where(so, g), "an unknown object yields an embedded object/unknownObject")
    # write errors raised by the local property classes
    cpl = prog.cls("local.object", "CurrentPropertyList")
    w2 = cpl.methods.get("WriteProperty")
    ok = w2 is not None and len(w2.body) >= 1 and any(isinstance(r, ast.Raise) and "writeAccessDenied" in norm(r.exc) for r in walk_shallow(w2))
    ctx.check("CurrentPropertyList.WriteProperty:refused", ok, where(prog.module("local.object"), w2 or cpl.node), "the computed property list cannot be written")


@rule("C15.R3", "arrays answer index 0 with their length, 1..n with the elements and anything else with IndexError / invalidArrayIndex", floor=6, engines="E5 value sets")
def r3(ctx):
    prog = ctx.prog
    cd = prog.module("constructeddata")
    f = cd.functions.get("ArrayOf")
    if f is None:
        raise AnchorMissing("constructeddata.ArrayOf")
    ks = [st for st in f.body if isinstance(st, ast.ClassDef)]
    if len(ks) != 1:
        raise ShapeError("ArrayOf: one inner class expected")
    meth = {st.name: st for st in ks[0].body if isinstance(st, ast.FunctionDef)}
    ev = Evaluator(prog, cd)
    for mn in ("__getitem__", "__setitem__"):
        g = meth.get(mn)
        if g is None:
            raise AnchorMissing("ArrayOf.%s" % mn)
        item = g.args.args[1].arg
        rs = [r for r in walk_shallow(g) if isinstance(r, ast.Raise) and "IndexError" in norm(r.exc)]
        ok = len(rs) == 1
        if ok:
            rej = [(i, n) for n in (0, 3) for i in (-1, 0, 1, 3, 4) if ev.must_hold(facts_at(rs[0]), {item: i, "self.value[0]": n})]
            ok = rej == [(-1, 0), (1, 0), (3, 0), (4, 0), (-1, 3), (4, 3)]
        ctx.check("ArrayOf.%s:index-range" % mn, ok, where(cd, g), "indexes below 0 or above the current length must raise IndexError, 0..length must not")
        # the access happens after the check
        acc = [n for n in walk_shallow(g) if isinstance(n, ast.Subscript) and norm(n.value) == "self.value" and norm(n.slice) == item]
        ctx.check("ArrayOf.%s:check-before-access" % mn, bool(acc) and all(a.lineno > rs[0].lineno for a in acc) if rs else False, where(cd, g), "the element is accessed before the index was checked")
    s = meth["__setitem__"]
    item = s.args.args[1].arg
    fl = [x for x in calls_in(s) if norm(x.func) == "self.fix_length"]
    ok = len(fl) == 1 and any(t == "%s == 0" % item and p for t, p in atom_texts(facts_at(fl[0]))) and norm(fl[0].args[0]) == s.args.args[2].arg
    ctx.check("ArrayOf.__setitem__:index-0-sets-length", ok, where(cd, s), "writing index 0 changes the length")
    st = [x for x in walk_shallow(s) if isinstance(x, ast.Assign) and norm(x.targets[0]) == "self.value[%s]" % item]
    ok = len(st) == 1 and any(t == "%s == 0" % item and not p for t, p in atom_texts(facts_at(st[0])))
    ctx.check("ArrayOf.__setitem__:element-store", ok, where(cd, s), "writing index i >= 1 stores the element")
    init = meth.get("__init__")
    sts = [x for x in walk_shallow(init) if isinstance(x, ast.Assign) and norm(x.targets[0]) == "self.value"] if init else []
    ok = len(sts) == 2 and {norm(x.value) for x in sts} == {"[0]", "[len(value)]"}
    ctx.check("ArrayOf.__init__:length-in-slot-0", ok, where(cd, init or ks[0]), "slot 0 of the internal list always holds the length")
    ln = meth.get("__len__")
    ctx.check("ArrayOf.__len__", ln is not None and any(isinstance(r, ast.Return) and norm(r.value) == "self.value[0]" for r in walk_shallow(ln)), where(cd, ln or ks[0]), "len() is the stored length")
    fx = meth.get("fix_length")
    ok = fx is not None and any(isinstance(x, ast.Assign) and norm(x.targets[0]) == "self.value[0]" and norm(x.value) == fx.args.args[1].arg for x in walk_shallow(fx))
    ctx.check("ArrayOf.fix_length:updates-length", ok, where(cd, fx or ks[0]), "changing the length must update slot 0")
    # Property.ReadProperty delegates to the array's indexing
    pc = prog.cls("object", "Property")
    rd = pc.methods["ReadProperty"]
    sub = [n for n in walk_shallow(rd) if isinstance(n, ast.Subscript) and norm(n.slice) == "arrayIndex" and norm(n.value) == "value"]
    ctx.check("Property.ReadProperty:uses-array-indexing", len(sub) == 1, where(pc.module, rd), "element reads go through the array's own indexing (0 = length)")
    if len(sub) == 1:
        evp = Evaluator(prog, pc.module, pc)
        fa = [z for z in facts_at(sub[0]) if "value" in {n.id for n in ast.walk(z.test) if isinstance(n, ast.Name)}]
        # an empty array is falsy (ArrayOf defines __len__) but still answers index 0 with its length and refuses the rest
        reach = [lab for lab, v in (("None", None), ("empty", ()), ("non-empty", (1, 2))) if evp.may_hold(fa, {"value": v})]
        ctx.check("Property.ReadProperty:indexes-every-array", reach == ["empty", "non-empty"], where(pc.module, sub[0]),
                  "the array's indexing must be reached for every array value, empty or not, and only skipped when there is no value; reached for %s" % reach)
    # a python list written to a whole array / list property is turned into the property's datatype (an ArrayOf keeps
    # its length in slot 0: a raw list stored there answers index 0 with the first element)
    wpf = pc.methods["WriteProperty"]
    conv = [st for st in ast.walk(wpf) if isinstance(st, ast.Assign) and norm(st.targets[0]) == "value" and norm(st.value) == "self.datatype(value)"]
    for kind in ("Array", "List"):
        good = []
        for st in conv:
            at = atom_texts(facts_at(st))
            if ("issubclass(self.datatype, %s)" % kind, True) in at and ("arrayIndex is not None", True) not in at:
                good.append(st)
        ctx.check("Property.WriteProperty:whole-%s-write-converted" % kind.lower(), len(good) == 1, where(pc.module, good[0] if good else wpf),
                  "a whole-%s write must store self.datatype(value), not the caller's python list" % kind.lower())
    _fix_length_distinct(ctx)
    # computed property list
    lo = prog.module("local.object")
    cpl = prog.cls("local.object", "CurrentPropertyList")
    r = cpl.methods.get("ReadProperty")
    if r is None:
        raise AnchorMissing("CurrentPropertyList.ReadProperty")
    evl = Evaluator(prog, lo, cpl)
    rets = [x for x in walk_shallow(r) if isinstance(x, ast.Return)]
    got = {}
    for x in rets:
        for i in (None, 0, 1, 3, 4):
            if evl.may_hold(facts_at(x), {"arrayIndex": i, "arrayIndex is None": i is None, "len(property_list)": 3}) and (i is None or not evl.may_hold(facts_at(x), {"arrayIndex": None, "arrayIndex is None": True, "len(property_list)": 3}) or i is None):
                got.setdefault(i, set()).add(norm(x.value))
    rs = [x for x in walk_shallow(r) if isinstance(x, ast.Raise)]
    rej = [i for i in (0, 1, 3, 4, 7) if rs and evl.must_hold([z for z in facts_at(rs[0]) if "len(" in norm(z.test)], {"arrayIndex": i, "len(property_list)": 3})]
    ok = got.get(0) == {"len(property_list)"} and "property_list[arrayIndex - 1]" in got.get(1, set()) and rej == [4, 7] and len(rs) == 1 and "invalidArrayIndex" in norm(rs[0].exc)
    ctx.check("CurrentPropertyList.ReadProperty:indexing", ok, where(lo, r), "index 0 -> length, 1..n -> element n-1 of the list, above n -> invalidArrayIndex (found returns %r, refused %r)" % ({k: sorted(v) for k, v in got.items()}, rej))


def _fix_length_distinct(ctx):
    """growing an array creates one object per new slot (shared with C17.R7)"""
    prog = ctx.prog
    cd = prog.module("constructeddata")
    af = cd.functions.get("ArrayOf")
    fx = [st for st in ast.walk(af) if isinstance(st, ast.FunctionDef) and st.name == "fix_length"] if af else []
    if not fx:
        raise AnchorMissing("ArrayOf.fix_length")
    mult = [x for x in ast.walk(fx[0]) if isinstance(x, ast.BinOp) and isinstance(x.op, ast.Mult) and isinstance(x.left, ast.List) and len(x.left.elts) == 1]
    for x in mult:
        el = x.left.elts[0]
        atomic_only = any(("Atomic" in t and pol) for t, pol in atom_texts(facts_at(x)))
        ctx.check("ArrayOf.fix_length:distinct-elements[%s]" % norm(el), atomic_only or isinstance(el, ast.Constant), where(cd, x),
                  "[%s] * n puts one and the same object into every new slot; for constructed elements (priority values) a write to one slot then shows in all of them" % norm(el))
    grow = [x for x in ast.walk(fx[0]) if isinstance(x, ast.Call) and isinstance(x.func, ast.Attribute) and x.func.attr in ("append", "extend") and norm(x.func.value) == "self.value"]
    ctx.check("ArrayOf.fix_length:grows", len(grow) >= 1, where(cd, fx[0]), "fix_length must add the missing elements")


def _cascade(prog, module, fn, idx_text):
    """ordered (condition -> conversion) pairs of the value-conversion if/elif chain"""
    chain = None
    for s in walk_shallow(fn):
        if isinstance(s, ast.If) and "issubclass(datatype, Atomic)" in norm(s.test):
            chain = s
            break
    if chain is None:
        raise ShapeError("%s: value conversion cascade not found" % fn.name)
    out = []
    node = chain
    while True:
        cond = norm(node.test).replace(idx_text, "INDEX")
        body = []
        def one(st):
            if isinstance(st, ast.Raise):
                return "raise " + (norm(st.exc.func) if isinstance(st.exc, ast.Call) else norm(st.exc))
            if isinstance(st, ast.If):
                inner = "; ".join(one(x) for x in st.body)
                rest = ""
                if st.orelse:
                    rest = " else{" + "; ".join(one(x) for x in st.orelse) + "}"
                return "if " + norm(st.test).replace(idx_text, "INDEX") + "{" + inner + "}" + rest
            return norm(st).replace(idx_text, "INDEX").split("\n")[0][:120]
        for st in node.body:
            body.append(one(st))
        out.append((cond, body))
        if len(node.orelse) == 1 and isinstance(node.orelse[0], ast.If):
            node = node.orelse[0]
        else:
            break
    return out


@rule("C15.R4", "ReadPropertyMultiple returns what ReadProperty returns: same value conversion, right selector polarity", floor=4, engines="sibling normal form")
def r4(ctx):
    prog = ctx.prog
    so = prog.module("service.object")
    c = prog.cls("service.object", "ReadWritePropertyServices")
    rp = c.methods.get("do_ReadPropertyRequest")
    ra = so.functions.get("read_property_to_any")
    if rp is None or ra is None:
        raise AnchorMissing("do_ReadPropertyRequest / read_property_to_any")
    a = _cascade(prog, so, rp, "apdu.propertyArrayIndex")
    b = _cascade(prog, so, ra, "propertyArrayIndex")
    common = [x for x in a if x in b]
    only_a = [x for x in a if x not in b]
    only_b = [x for x in b if x not in a]
    # the branches both have must agree in order; a branch only one side has is reported (advisory rule C15.R4a below)
    ctx.check("ReadProperty~ReadPropertyMultiple:shared-branches-in-order", [x for x in a if x in common] == [x for x in b if x in common] and len(common) >= 3, where(so, ra),
              "the value conversions the two services share differ in order or content")
    ctx.check("ReadProperty~ReadPropertyMultiple:atomic-and-list-first", a[0] == b[0], where(so, ra), "both must first wrap atomic values and python lists in the property's datatype")
    ctx.check("ReadProperty~ReadPropertyMultiple:array-element", a[1] == b[1], where(so, ra), "array elements: index 0 is an Unsigned length, atomic subtypes are wrapped, others type-checked")
    # selectors
    mc = prog.cls("service.object", "ReadWritePropertyMultipleServices")
    h = mc.methods.get("do_ReadPropertyMultipleRequest")
    if h is None:
        raise AnchorMissing("do_ReadPropertyMultipleRequest")
    ev = Evaluator(prog, so, mc)
    conts = [n for n in walk_shallow(h) if isinstance(n, ast.Continue)]
    skipped = set()
    for sel in ("all", "required", "optional"):
        for opt in (True, False):
            for pid in ("presentValue", "propertyList", "objectName"):
                env = {"propertyIdentifier": sel, "prop.optional": opt, "propId": pid}
                for n in conts:
                    par = getattr(n, "_parent", None)
                    if not (isinstance(par, ast.If) and any(k in norm(par.test) for k in ("propertyIdentifier ==", "prop.optional", "propId"))):
                        continue
                    fa = [x for x in facts_at(n) if any(k in norm(x.test) for k in ("propertyIdentifier ==", "prop.optional", "propId"))]
                    if fa and ev.must_hold(fa, env):
                        skipped.add((sel, opt, pid))
    want = {(s, o, "propertyList") for s in ("all", "required", "optional") for o in (True, False)} | {("required", True, p_) for p_ in ("presentValue", "objectName")} | {("optional", False, p_) for p_ in ("presentValue", "objectName")}
    ctx.check("do_ReadPropertyMultipleRequest:selectors", skipped == want, where(so, h),
              "'all' returns everything but propertyList, 'required' skips optional properties, 'optional' skips required ones (skipped combinations differ: extra %r missing %r)" % (sorted(skipped - want), sorted(want - skipped)))
    # each reference yields exactly one element via read_property_to_result_element
    calls = [x for x in calls_in(h) if norm(x.func) == "read_property_to_result_element"]
    ctx.check("do_ReadPropertyMultipleRequest:reads-through-helper", len(calls) == 2 and all(norm(x.args[0]) == "obj" for x in calls), where(so, h), "every property is read through read_property_to_result_element")
    g = so.functions["read_property_to_result_element"]
    calls = [x for x in calls_in(g) if norm(x.func) == "read_property_to_any"]
    ctx.check("read_property_to_result_element:uses-read_property_to_any", len(calls) == 1 and [norm(a_) for a_ in calls[0].args] == [x.arg for x in g.args.args], where(so, g), "the element value comes from read_property_to_any(obj, property, index)")
    # per-specification results are built from scratch: no list carried over from the previous read access specification,
    # no value read before it is assigned in the current pass
    from ..defassign import stale_accumulators, stale_loop_flags, maybe_undefined
    for k in (c, mc):
        for hn, hf in k.methods.items():
            if not hn.startswith("do_"):
                continue
            acc = stale_accumulators(hf)
            fl = stale_loop_flags(hf)
            und = maybe_undefined(hf)
            ctx.check("%s:fresh-per-iteration" % hn, not acc and not fl and not und, where(so, (acc or fl or [(None, hf)])[0][1] if (acc or fl) else (und[0][1] if und else hf)),
                      "; ".join(["'%s' keeps growing across passes of the loop at line %d but is handed on in every pass (line %d): a result then also lists what belongs to the previous ones" % (n, lp.lineno, x.lineno) for n, x, lp in acc] +
                                ["'%s' (line %d) may carry the value of the previous pass of the loop at line %d" % (n, x.lineno, lp.lineno) for n, x, lp in fl] +
                                ["'%s' (line %d) may be read before it is assigned" % (n, x.lineno) for n, x in und]))
    from .common import check_names_bound
    check_names_bound(ctx, ["service.object", "object", "local.object"])
    # the request's fields reach the object: identifier and array index on every read / pre-check / write, priority on the write
    wp = c.methods.get("do_WritePropertyRequest")
    if wp is None:
        raise AnchorMissing("do_WritePropertyRequest")
    for fn, meth, want in ((rp, "ReadProperty", ["apdu.propertyIdentifier", "apdu.propertyArrayIndex"]),
                           (wp, "ReadProperty", ["apdu.propertyIdentifier", "apdu.propertyArrayIndex"]),
                           (wp, "WriteProperty", ["apdu.propertyIdentifier", "value", "apdu.propertyArrayIndex", "apdu.priority"])):
        ap = fn.args.args[1].arg
        calls = [x for x in calls_in(fn) if isinstance(x.func, ast.Attribute) and x.func.attr == meth and norm(x.func.value) == "obj"]
        got = [norm(a_).replace(ap + ".", "apdu.") for a_ in calls[0].args] if len(calls) == 1 and not calls[0].keywords else None
        ctx.check("%s:obj.%s-arguments" % (fn.name, meth), got == want, where(so, calls[0] if calls else fn),
                  "obj.%s must be given %s from the request (found %s): an index or priority that is dropped is neither honoured nor refused" % (meth, want, got))
    g2 = so.functions.get("read_property_to_any")
    calls = [x for x in calls_in(g2) if isinstance(x.func, ast.Attribute) and x.func.attr == "ReadProperty" and norm(x.func.value) == "obj"]
    ctx.check("read_property_to_any:obj.ReadProperty-arguments", len(calls) == 1 and [norm(a_) for a_ in calls[0].args] == [x.arg for x in g2.args.args[1:3]], where(so, g2),
              "ReadPropertyMultiple reads with the reference's identifier and array index")
    # the device wildcard
    for fn, var in ((rp, "objId"), (h, "objectIdentifier")):
        st = [s for s in walk_shallow(fn) if isinstance(s, ast.Assign) and norm(s.targets[0]) == var and norm(s.value) == "self.localDevice.objectIdentifier"]
        ok = len(st) == 1 and any("('device', 4194303)" in t and p for t, p in atom_texts(facts_at(st[0])))
        ctx.check("%s:device-wildcard" % fn.name, ok, where(so, fn), "(device, 4194303) addresses the local device object")


@rule("C15.R4a", "ReadProperty and ReadPropertyMultiple convert a stored value through the same cascade: no branch that only one of them has", floor=1, engines="sibling normal form")
def r4a(ctx):
    prog = ctx.prog
    so = prog.module("service.object")
    c = prog.cls("service.object", "ReadWritePropertyServices")
    a = _cascade(prog, so, c.methods["do_ReadPropertyRequest"], "apdu.propertyArrayIndex")
    b = _cascade(prog, so, so.functions["read_property_to_any"], "propertyArrayIndex")
    for x in a:
        if x not in b:
            ctx.bad("only-in-ReadProperty[%s]" % x[0][:50], where(so, c.methods["do_ReadPropertyRequest"]), "ReadProperty has a conversion branch ReadPropertyMultiple lacks: %s -> %s" % x)
    for x in b:
        if x not in a:
            ctx.bad("only-in-ReadPropertyMultiple[%s]" % x[0][:50], where(so, so.functions["read_property_to_any"]), "ReadPropertyMultiple has a conversion branch ReadProperty lacks: %s -> %s" % x)
    ctx.ok("compared", where(so, so.functions["read_property_to_any"]))


@rule("C15.R5", "error literals used by the property services are members of the enumerations", floor=20, engines="E3 (shared with C10.R5)")
def r5(ctx):
    from . import c10
    c10.r5(ctx)


def current_properties(ctx):
    prog = ctx.prog
    T = Tables(prog)
    om = prog.module("object")
    out = {}
    for c in om.classes.values():
        pn = c.attrs.get("properties")
        ot = prog.try_const(om, c.attrs.get("objectType"), c) if "objectType" in c.attrs else None
        if not isinstance(pn, ast.List):
            continue
        if ot is None:
            ot = "-"
        d = {}
        for e in pn.elts:
            if isinstance(e, ast.Call) and len(e.args) >= 2:
                pid = prog.try_const(om, e.args[0])
                k = prog.resolve_class_expr(om, e.args[1])
                if isinstance(pid, str):
                    d[pid] = {"kind": norm(e.func), "sig": T.signature(k) if k is not None else "?"}
        out["%s:%s" % (ot, c.name)] = d
    return out


@rule("C15.R6", "the datatype of every (object type, property) has not drifted from the reviewed reference", floor=500, engines="E3 + spec/property_reference.json")
def r6(ctx):
    if not os.path.exists(PROP_REF):
        raise AnchorMissing("spec/property_reference.json")
    with open(PROP_REF) as f:
        ref = json.load(f)
    cur = current_properties(ctx)
    for key, props in sorted(ref.items()):
        now = cur.get(key)
        if now is None:
            # class renamed / removed: matched by object type
            ot = key.split(":")[0]
            cand = [k for k in cur if k.split(":")[0] == ot]
            now = cur[cand[0]] if len(cand) == 1 else None
        if now is None:
            ctx.bad("object[%s]" % key, "py34/bacpypes/object.py:1", "object class for this type vanished")
            continue
        for pid, spec in sorted(props.items()):
            n = now.get(pid)
            ctx.check("object[%s].%s" % (key.split(":")[0], pid), n is not None and n["sig"] == spec["sig"] and _writable(n["kind"]) == _writable(spec["kind"]) and _optional(n["kind"]) == _optional(spec["kind"]),
                      "py34/bacpypes/object.py:1", "property datatype / conformance changed: reference %s, now %s" % (spec, n))


def _writable(kind):
    return kind == "WritableProperty"


def _optional(kind):
    return kind == "OptionalProperty"


@rule("C15.R7", "a write to a commandable present value stores exactly the commanded value in exactly the commanded slot (a falsy value is a value, not a relinquish)", floor=1, engines="E1 paths (shared with C17.R3)")
def r7(ctx):
    from . import c17
    c17.r3(ctx)


def write_existence_test(ctx):
    """(C15.R8, C17.R9) WriteProperty refuses an unknown property, not a property whose current value happens to be
    false (0, 0.0, '', inactive): the existence test on the value read back is `is None`"""
    prog = ctx.prog
    c = prog.cls("service.object", "ReadWritePropertyServices")
    m = c.module
    f = c.methods.get("do_WritePropertyRequest")
    if f is None:
        raise AnchorMissing("ReadWritePropertyServices.do_WritePropertyRequest")
    ev = Evaluator(prog, m, c)
    tests = []
    for n in walk_shallow(f):
        if isinstance(n, ast.If) and any(isinstance(x, ast.Raise) and "PropertyError" in norm(x) for x in n.body):
            rd = [x for x in ast.walk(n.test) if isinstance(x, ast.Call) and isinstance(x.func, ast.Attribute) and x.func.attr == "ReadProperty"]
            if rd:
                tests.append((n, rd[0]))
    ok = len(tests) == 1
    why = ""
    if ok:
        node, rd = tests[0]
        ct = norm(rd)
        for v in (0, 0.0, "", 5, "x", False):
            r = ev.eval3(node.test, {ct: v, "%s is None" % ct: False, "%s is not None" % ct: True})
            if r is not False:
                ok = False
                why = "refused for the current value %r" % (v,)
        if ok and ev.eval3(node.test, {"%s is None" % ct: True, "%s is not None" % ct: False}) is not True and "None" not in norm(node.test):
            ok = False
            why = "an absent property is not refused"
    ctx.check("do_WritePropertyRequest:unknown-property-test", ok, where(m, f), "the property is unknown when reading it yields None, not when it yields a false value (%s)" % why)


@rule("C15.R8", "a write is refused as unknownProperty only for a property that does not exist, never because its current value is false", floor=1, engines="E5")
def r8(ctx):
    write_existence_test(ctx)


@rule("C15.R9", "a commanded value reads back: the present value of a commandable object is the value in the lowest-numbered non-null slot, whatever its truth value (0, 0.0, inactive are values)", floor=3, engines="E1 (shared with C17.R2)")
def r9(ctx):
    from . import c17
    c17.r2(ctx)
