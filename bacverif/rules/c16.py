"""C16 - COV: acknowledge then notify, one record per subscriber, renewal
re-times and records, expiry and cancel, one notification per change burst,
table agreement between COV-capable object types and the criteria map."""
import ast

from ..report import rule
from ..model import norm, NotConst, calls_in, stores_in, ShapeError, AnchorMissing, is_self_attr
from ..paths import enumerate_paths, facts_at, walk_shallow, enclosing_stmt, enclosing_loops
from ..guards import Evaluator, atom_texts
from ..tables import Tables
from .common import where, path_nodes, feasible, self_call, same_function, grid, subst_locals

MOD = "service.cov"


@rule("C16.R1", "a subscribe request is acknowledged exactly once and every non-cancel path defers exactly one initial notification for that subscription, after the ack", floor=4, engines="E1 paths")
def r1(ctx):
    prog = ctx.prog
    c = prog.cls(MOD, "ChangeOfValueServices")
    m = c.module
    ev = Evaluator(prog, m, c)
    for hname in ("do_SubscribeCOVRequest", "do_SubscribeCOVPropertyRequest"):
        f = c.methods.get(hname)
        if f is None:
            raise AnchorMissing("ChangeOfValueServices.%s" % hname)
        n = 0
        from .common import consistent
        for p in enumerate_paths(f):
            if p.term == "raise" or not consistent(p.conds()):
                continue
            n += 1
            nodes = path_nodes(p)
            acks = [i for i, x in enumerate(nodes) if isinstance(x, ast.Call) and norm(x.func) == "SimpleAckPDU"]
            resp = [i for i, x in enumerate(nodes) if isinstance(x, ast.Call) and self_call(x) == "response"]
            defs = [i for i, x in enumerate(nodes) if isinstance(x, ast.Call) and norm(x.func) == "deferred" and x.args and norm(x.args[0]).endswith(".send_cov_notifications")]
            ok = len(acks) == 1 and len(resp) == 1
            if not ctx.check("%s:one-ack" % hname, ok, where(m, f), "a non-raising path does not send exactly one SimpleAck: %s" % p.describe()[:200]):
                break
            cancel = feasible(p, ev, {"cancel_subscription": True}) and not feasible(p, ev, {"cancel_subscription": False})
            if cancel:
                ctx.check("%s:cancel-no-notification" % hname, not defs, where(m, f), "a cancellation must not be followed by a notification")
            else:
                ok = len(defs) == 1 and defs[0] > resp[0] and len(nodes[defs[0]].args) == 2 and norm(nodes[defs[0]].args[1]) == "cov"
                if not ctx.check("%s:initial-notification" % hname, ok, where(m, f), "a subscription or renewal must defer exactly one notification for that subscriber after the acknowledgement"):
                    break
        ctx.count("paths", n)
        # cancel means: neither confirmed nor lifetime given
        cs = [s for s in walk_shallow(f) if isinstance(s, ast.Assign) and norm(s.targets[0]) == "cancel_subscription"]
        ok = len(cs) == 1
        if ok:
            got = [(a, b) for a in (None, True, False) for b in (None, 0, 60) if ev.eval3(cs[0].value, {"confirmed": a, "lifetime": b}) is True]
            ok = got == [(None, None)]
        ctx.check("%s:cancel-definition" % hname, ok, where(m, f), "a request is a cancellation exactly when both issueConfirmedNotifications and lifetime are absent")
        # refusals precede everything
        for r in [x for x in walk_shallow(f) if isinstance(x, ast.Raise)]:
            before = [x for x in walk_shallow(f) if isinstance(x, ast.Call) and (norm(x.func) in ("Subscription", "self.add_subscription", "self.response") or norm(x.func).endswith(".renew_subscription")) and x.lineno < r.lineno]
            ctx.check("%s:refusal-before-effects" % hname, not before, where(m, r), "a refusal is raised after the subscription state was already changed")


@rule("C16.R2", "there is one record per (subscriber address, process id, object): renewals and cancellations act on the found record, a new record is created only when none matches", floor=4, engines="E1 + E5")
def r2(ctx):
    prog = ctx.prog
    sl = prog.cls(MOD, "SubscriptionList")
    m = sl.module
    f = sl.methods.get("find")
    if f is None:
        raise AnchorMissing("SubscriptionList.find")
    ev = Evaluator(prog, m, sl)
    a = [x.arg for x in f.args.args[1:]]
    # decided on the paths of the method, one record examined: the record is returned exactly when all three keys are
    # equal, None otherwise (return inside the loop, or break and return behind it - the paths are the same)
    from .common import path_return_value
    loops = [l for l in walk_shallow(f) if isinstance(l, ast.For)]
    ok = len(loops) == 1 and isinstance(loops[0].target, ast.Name) and norm(loops[0].iter) == "self.cov_subscriptions"
    if ok:
        rec = loops[0].target.id
        keys = [("%s.client_addr" % rec, a[0]), ("%s.proc_id" % rec, a[1]), ("%s.obj_id" % rec, a[2])]
        n_match = 0
        paths = enumerate_paths(f)
        for mask in range(8):
            env = {rec: "<the record>"}
            for i, (k1, k2) in enumerate(keys):
                env[k1] = 1
                env[k2] = 1 if (mask >> i) & 1 else 2
            for p_ in paths:
                kind, val = path_return_value(p_, ev, env)
                if kind == "infeasible":
                    continue
                examined = any(e.kind == "loop1" for e in p_.events)
                if kind != "value" or p_.term != "return":
                    ok = False
                elif mask == 7 and examined:
                    n_match += 1
                    ok = ok and val == "<the record>"
                else:
                    ok = ok and val is None
        ok = ok and n_match >= 1
    ctx.check("SubscriptionList.find:key", ok, where(m, f), "a record matches only when subscriber address, process identifier and object identifier are all equal")
    c = prog.cls(MOD, "ChangeOfValueServices")
    evc = Evaluator(prog, m, c)
    for hname in ("do_SubscribeCOVRequest", "do_SubscribeCOVPropertyRequest"):
        h = c.methods[hname]
        fd = [x for x in calls_in(h) if norm(x.func).endswith(".cov_subscriptions.find")]
        ok = len(fd) == 1 and [norm(x) for x in fd[0].args] == ["client_addr", "proc_id", "obj_id"]
        ctx.check("%s:looks-up-by-key" % hname, ok, where(m, h), "the existing record must be looked up by (client address, process id, object id)")
        mk = [x for x in calls_in(h) if norm(x.func) == "Subscription"]
        ok = len(mk) == 1
        if ok:
            fa = facts_at(mk[0])
            reach = [(found, cancel) for found in (True, False) for cancel in (True, False) if evc.may_hold(fa, {"cov": found, "cancel_subscription": cancel})]
            ok = reach == [(False, False)]
            args = [norm(x) for x in mk[0].args]
            ok = ok and args[:6] == ["obj", "client_addr", "proc_id", "obj_id", "confirmed", "lifetime"]
        ctx.check("%s:create-only-when-absent" % hname, ok, where(m, h), "a Subscription is created exactly when no record exists and the request is not a cancellation, from the request's own fields")
        rn = [x for x in calls_in(h) if norm(x.func) == "cov.renew_subscription"]
        cn = [x for x in calls_in(h) if norm(x.func) == "self.cancel_subscription"]
        ok = len(rn) == 1 and len(cn) == 1
        if ok:
            r1_ = [(fo, ca) for fo in (True, False) for ca in (True, False) if evc.may_hold(facts_at(rn[0]), {"cov": fo, "cancel_subscription": ca})]
            r2_ = [(fo, ca) for fo in (True, False) for ca in (True, False) if evc.may_hold(facts_at(cn[0]), {"cov": fo, "cancel_subscription": ca})]
            ok = r1_ == [(True, False)] and r2_ == [(True, True)] and norm(cn[0].args[0]) == "cov"
        ctx.check("%s:renew-or-cancel-found-record" % hname, ok, where(m, h), "an existing record is renewed (not duplicated) or cancelled")
        ad = [x for x in calls_in(h) if norm(x.func) == "self.add_subscription"]
        ok = len(ad) == 1 and mk and ad[0].lineno > mk[0].lineno and norm(ad[0].args[0]) == "cov"
        ctx.check("%s:registers-new-record" % hname, ok, where(m, h), "a new record must be added to the object's detection")


@rule("C16.R3", "a renewal re-times the subscription and records what the request asked for (lifetime, confirmed), which notifications and the active-subscription list report", floor=3, engines="E1 dataflow of request-derived fields")
def r3(ctx):
    prog = ctx.prog
    s = prog.cls(MOD, "Subscription")
    m = s.module
    f = s.methods.get("renew_subscription")
    if f is None:
        raise AnchorMissing("Subscription.renew_subscription")
    ev = Evaluator(prog, m, s)
    lt = f.args.args[1].arg
    for p in enumerate_paths(f):
        nodes = path_nodes(p)
        susp = [x for x in nodes if isinstance(x, ast.Call) and self_call(x) == "suspend_task"]
        inst = [x for x in nodes if isinstance(x, ast.Call) and self_call(x) == "install_task"]
        if feasible(p, ev, {"self.isScheduled": True}):
            ctx.check("Subscription.renew_subscription:stops-old-timer", len(susp) == 1, where(m, f), "the running lifetime timer must be stopped on renewal (a renewal as permanent would otherwise still expire)")
        if feasible(p, ev, {lt: 60}) and not feasible(p, ev, {lt: 0}):
            ok = len(inst) == 1 and {k.arg: norm(k.value) for k in inst[0].keywords} == {"delta": lt}
            ctx.check("Subscription.renew_subscription:re-times", ok, where(m, f), "a non-zero lifetime must install the timer for the new lifetime")
        if feasible(p, ev, {lt: 0}) and not feasible(p, ev, {lt: 60}):
            ctx.check("Subscription.renew_subscription:permanent", not inst, where(m, f), "a lifetime of zero makes the subscription permanent (no timer)")
    # fields read by the reporters
    det = prog.cls(MOD, "COVDetection")
    rep = det.methods.get("send_cov_notifications")
    acs = prog.cls(MOD, "ActiveCOVSubscriptions").methods.get("ReadProperty")
    if rep is None or acs is None:
        raise AnchorMissing("COVDetection.send_cov_notifications / ActiveCOVSubscriptions.ReadProperty")
    read = set()
    for fn in (rep, acs):
        for n in walk_shallow(fn):
            if isinstance(n, ast.Attribute) and isinstance(n.value, ast.Name) and n.value.id == "cov" and isinstance(n.ctx, ast.Load):
                read.add(n.attr)
    init = s.methods["__init__"]
    params = [a.arg for a in init.args.args[1:]]
    from_request = {t.attr: norm(st.value) for t, st in stores_in(init) if is_self_attr(t) and norm(st.value) in params}
    stored_on_renew = {t.attr for t, st in stores_in(f) if is_self_attr(t)}
    # what can change between two subscribe requests of the same subscriber: lifetime and the confirmed flag
    # (address, process id and object id are the key)
    mutable = [k for k in ("lifetime", "confirmed") if k in read and k in from_request]
    rn_params = [a.arg for a in f.args.args[1:]]
    for k in mutable:
        ctx.check("Subscription.renew_subscription:records[%s]" % k, k in stored_on_renew, where(m, f),
                  "notifications and the active-subscription list read cov.%s, which the constructor takes from the request, but a renewal does not store the renewing request's value: the reported %s stays that of the first request"
                  % (k, "remaining time / permanence" if k == "lifetime" else "confirmed/unconfirmed choice"),
                  facts={"read_by_reporters": sorted(read), "stored_on_renewal": sorted(stored_on_renew), "renew_parameters": rn_params})
    if not mutable:
        raise ShapeError("reporters read neither cov.lifetime nor cov.confirmed")
    # ... and every renewal site hands over the renewing request's values
    svc = prog.cls(MOD, "ChangeOfValueServices")
    REQ = {"lifetime": "lifetime", "confirmed": "issueConfirmedNotifications"}
    nsites = 0
    for hname, h in svc.methods.items():
        if not hname.startswith("do_Subscribe"):
            continue
        ap = h.args.args[1].arg
        for call in calls_in(h):
            if isinstance(call.func, ast.Attribute) and call.func.attr == "renew_subscription":
                nsites += 1
                bound = {}
                for i, a in enumerate(call.args):
                    if i < len(rn_params):
                        bound[rn_params[i]] = a
                for kw in call.keywords:
                    if kw.arg:
                        bound[kw.arg] = kw.value
                from .common import path_value as _pv
                evr = Evaluator(prog, m, svc)
                for k in mutable:
                    a = bound.get(k)
                    src = norm(subst_locals(h, a)) if a is not None else None
                    ok = src == "%s.%s" % (ap, REQ[k])
                    if not ok and isinstance(a, ast.Name):
                        # the argument is a local: what it holds at the call, for two different requests
                        ok = True
                        for conf, life in ((True, 60), (False, 30)):
                            env0 = {"%s.lifetime" % ap: life, "%s.issueConfirmedNotifications" % ap: conf}
                            vals = set()
                            for p_ in enumerate_paths(h):
                                if not any(nd is call for nd in path_nodes(p_)):
                                    continue
                                kind, v = _pv(p_, evr, env0, a.id, upto=enclosing_stmt(call))
                                if kind != "infeasible":
                                    vals.add((kind, v))
                            ok = ok and vals == {("value", life if k == "lifetime" else conf)}
                    ctx.check("%s:renewal-passes[%s]" % (hname, k), ok, where(m, call),
                              "the renewal must be given the request's %s (%s.%s); found %s: the subscription keeps reporting the first request's value" % (k, ap, REQ[k], src))
    # a request may omit the lifetime (= indefinite): what reaches Subscription(...) / renew_subscription(...) as lifetime is a
    # number on every path, for every combination of present / absent request parameters that is not a cancellation
    from .common import path_value
    evs = Evaluator(prog, m, svc)
    for hname, h in svc.methods.items():
        if not hname.startswith("do_Subscribe"):
            continue
        ap = h.args.args[1].arg
        sinks = []
        for call in calls_in(h):
            if isinstance(call.func, ast.Name) and call.func.id == "Subscription" and len(call.args) >= 6:
                sinks.append((call, call.args[5]))
            elif isinstance(call.func, ast.Attribute) and call.func.attr == "renew_subscription" and call.args:
                sinks.append((call, call.args[0]))
        bad = []
        for call, arg in sinks:
            if not isinstance(arg, ast.Name):
                continue
            for conf, life in ((False, None), (True, None), (True, 0), (False, 60)):
                env0 = {"%s.lifetime" % ap: life, "%s.issueConfirmedNotifications" % ap: conf, "obj": True, "obj._object_supports_cov": True, "cov_detection": True, "criteria_class": True}
                for p_ in enumerate_paths(h):
                    if not any(nd is call for nd in path_nodes(p_)):
                        continue
                    kind, v = path_value(p_, evs, env0, arg.id, upto=enclosing_stmt(call))
                    if kind == "infeasible":
                        continue
                    if kind != "value" or v is None or isinstance(v, bool) or not isinstance(v, (int, float)):
                        item = "%s(confirmed=%r, lifetime=%r) -> %s %r" % (norm(call.func), conf, life, kind, v)
                        if item not in bad:
                            bad.append(item)
        ctx.check("%s:lifetime-is-a-number" % hname, bool(sinks) and not bad, where(m, h),
                  "the lifetime handed on must be a number (0 = indefinite) whenever the request is not a cancellation: %s" % "; ".join(bad[:3]))
    ctx.check("ChangeOfValueServices:renewal-sites", nsites >= 2, where(m, svc.node), "both subscribe handlers renew an existing subscription (found %d sites)" % nsites)
    # remaining time is computed from the timer
    for fn, name in ((rep, "COVDetection.send_cov_notifications"), (acs, "ActiveCOVSubscriptions.ReadProperty")):
        tr = [st for st in walk_shallow(fn) if isinstance(st, ast.Assign) and norm(st.targets[0]) == "time_remaining" and "taskTime" in norm(st.value)]
        ok = len(tr) == 1 and norm(tr[0].value) == "int(cov.taskTime - current_time)" and ("cov.lifetime", True) in [(t, p) for t, p in atom_texts(facts_at(tr[0]))]
        ctx.check("%s:time-remaining" % name, ok, where(m, fn), "the remaining lifetime is the timer's due time minus now (0 for permanent subscriptions)")


@rule("C16.R4", "expiry cancels; cancelling stops the timer, removes the record and drops an emptied detection", floor=5, engines="E1")
def r4(ctx):
    prog = ctx.prog
    s = prog.cls(MOD, "Subscription")
    m = s.module
    pt = s.methods.get("process_task")
    ok = pt is not None and [self_call(x) for x in calls_in(pt)] == ["cancel_subscription"]
    ctx.check("Subscription.process_task:expires", ok, where(m, pt or s.node), "when the lifetime runs out the subscription must cancel itself")
    cs = s.methods.get("cancel_subscription")
    if cs is None:
        raise AnchorMissing("Subscription.cancel_subscription")
    names = [norm(x.func) for x in calls_in(cs)]
    ok = "self.suspend_task" in names and "self.obj_ref._app.cancel_subscription" in names
    clr = [st for t, st in stores_in(cs) if is_self_attr(t, "obj_ref")]
    ok = ok and (not clr or clr[0].lineno > [x for x in calls_in(cs) if norm(x.func) == "self.obj_ref._app.cancel_subscription"][0].lineno)
    ctx.check("Subscription.cancel_subscription", ok, where(m, cs), "cancelling stops the timer and tells the application (before the object reference is dropped)")
    init = s.methods["__init__"]
    it = [x for x in calls_in(init) if self_call(x) == "install_task"]
    ev = Evaluator(prog, m, s)
    ok = len(it) == 1 and {k.arg: norm(k.value) for k in it[0].keywords} == {"delta": "self.lifetime"}
    if ok:
        reach = [v for v in (0, 1, 60) if ev.may_hold(facts_at(it[0]), {"lifetime": v, "self.lifetime": v})]
        ok = reach == [1, 60]
    ctx.check("Subscription.__init__:arms-lifetime", ok, where(m, init), "a non-zero lifetime arms the expiry timer, zero does not")
    c = prog.cls(MOD, "ChangeOfValueServices")
    f = c.methods.get("cancel_subscription")
    if f is None:
        raise AnchorMissing("ChangeOfValueServices.cancel_subscription")
    nodes = list(walk_shallow(f))
    call = [x for x in calls_in(f) if norm(x.func) == "cov_detection.cancel_subscription"]
    ub = [x for x in calls_in(f) if norm(x.func) == "cov_detection.unbind"]
    dl = [x for x in nodes if isinstance(x, ast.Delete) and norm(x.targets[0]) == "self.cov_detections[cov.obj_ref]"]
    ok = len(call) == 1 and len(ub) == 1 and len(dl) == 1
    if ok:
        evc = Evaluator(prog, m, c)
        for x in (ub[0], dl[0]):
            reach = [n for n in (0, 1, 3) if evc.may_hold(facts_at(x, check_kills=False), {"len(cov_detection.cov_subscriptions)": n})]
            ok = ok and reach == [0]
        ok = ok and call[0].lineno < ub[0].lineno
    ctx.check("ChangeOfValueServices.cancel_subscription", ok, where(m, f), "the record is removed from its detection; when that was the last one the monitors are unbound and the detection dropped")
    d = prog.cls(MOD, "COVDetection")
    g = d.methods.get("cancel_subscription")
    names = [norm(x.func) for x in calls_in(g)] if g else []
    ok = "self.cov_subscriptions.remove" in names and "cov.suspend_task" in names
    ctx.check("COVDetection.cancel_subscription", ok, where(m, g or d.node), "the detection removes the record and stops its timer")
    ad = c.methods.get("add_subscription")
    ok = ad is not None and [norm(x) for x in calls_in(ad)] == ["self.cov_detections[cov.obj_ref].add_subscription(cov)"]
    ctx.check("ChangeOfValueServices.add_subscription", ok, where(m, ad or c.node), "a new record goes to the detection of its object")
    # the active list is built from the live records
    sub = c.methods.get("subscriptions")
    ok = False
    if sub is not None:
        outer = [l for l in sub.body if isinstance(l, ast.For)]
        ys = [n for n in walk_shallow(sub) if isinstance(n, (ast.Yield, ast.YieldFrom))]
        if len(outer) == 1 and len(ys) == 1:
            o = outer[0]
            it = norm(o.iter)
            det = None
            if it == "self.cov_detections.items()" and isinstance(o.target, ast.Tuple) and len(o.target.elts) == 2:
                det = norm(o.target.elts[1])
            elif it == "self.cov_detections.values()" and isinstance(o.target, ast.Name):
                det = o.target.id
            y = ys[0]
            if det is not None and not facts_at(y, stop=o):
                if isinstance(y, ast.YieldFrom):
                    ok = norm(y.value) == "%s.cov_subscriptions" % det and not [l for l in enclosing_loops(y) if l is not o]
                else:
                    inner = [l for l in enclosing_loops(y) if l is not o]
                    ok = len(inner) == 1 and norm(inner[0].iter) == "%s.cov_subscriptions" % det and isinstance(inner[0].target, ast.Name) \
                        and y.value is not None and norm(y.value) == inner[0].target.id
    ctx.check("ChangeOfValueServices.subscriptions:live-records", ok, where(m, sub or c.node), "the active-subscription list enumerates exactly the records of the live detections")


@rule("C16.R5", "one notification per burst of changes; the increment filter reports a change of at least the increment since the last reported value; notifications go to every subscription, confirmed or not as requested", floor=8, engines="E1 + E5")
def r5(ctx):
    prog = ctx.prog
    dm = prog.cls("service.detect", "DetectionMonitor")
    m = dm.module
    f = dm.methods.get("property_change")
    if f is None:
        raise AnchorMissing("DetectionMonitor.property_change")
    ev = Evaluator(prog, m, dm)
    dfc = [x for x in calls_in(f) if norm(x.func) == "deferred"]
    ok = len(dfc) == 1 and norm(dfc[0].args[0]) == "self.algorithm._execute"
    if ok:
        reach = [(t, g) for t in (True, False) for g in (True, False) if ev.may_hold(facts_at(dfc[0], check_kills=False), {"self.algorithm._triggered": t, "trigger": g})]
        ok = reach == [(False, True)]
        st = [s_ for s_ in walk_shallow(f) if isinstance(s_, ast.Assign) and norm(s_.targets[0]) == "self.algorithm._triggered" and prog.try_const(m, s_.value) is True]
        ok = ok and len(st) == 1 and getattr(st[0], "_parent", None) is getattr(enclosing_stmt(dfc[0]), "_parent", None)
    ctx.check("DetectionMonitor.property_change:one-deferred-execute-per-burst", ok, where(m, f), "a change defers the algorithm exactly when it qualifies and no execution is pending, and marks it pending")
    st = [s_ for s_ in walk_shallow(f) if isinstance(s_, ast.Expr) and isinstance(s_.value, ast.Call) and norm(s_.value.func) == "setattr"]
    ok = len(st) == 1 and [norm(a) for a in st[0].value.args] == ["self.algorithm", "self.parameter", f.args.args[2].arg] and not facts_at(st[0])
    ctx.check("DetectionMonitor.property_change:tracks-current-value", ok, where(m, f), "the algorithm's parameter always takes the new value (the notification carries current values)")
    tr = [s_ for s_ in walk_shallow(f) if isinstance(s_, ast.Assign) and norm(s_.targets[0]) == "trigger" and isinstance(s_.value, ast.Compare)]
    ok = len(tr) == 1 and ev.eval3(tr[0].value, {f.args.args[1].arg: 1, f.args.args[2].arg: 1}) is False and ev.eval3(tr[0].value, {f.args.args[1].arg: 1, f.args.args[2].arg: 2}) is True
    if not tr:
        # the same choice spelled with the library: (self.filter or operator.ne)(old, new)
        calls_ = [s_ for s_ in walk_shallow(f) if isinstance(s_, ast.Assign) and norm(s_.targets[0]) == "trigger" and isinstance(s_.value, ast.Call)
                  and [norm(a_) for a_ in s_.value.args] == [f.args.args[1].arg, f.args.args[2].arg]]
        if len(calls_) == 1:
            fn_ = calls_[0].value.func
            if isinstance(fn_, ast.Name):
                defs_ = [s_ for s_ in walk_shallow(f) if isinstance(s_, ast.Assign) and norm(s_.targets[0]) == fn_.id]
                fn_ = defs_[0].value if len(defs_) == 1 else fn_
            ok = isinstance(fn_, ast.BoolOp) and isinstance(fn_.op, ast.Or) and [norm(v_) for v_ in fn_.values] == ["self.filter", "operator.ne"]
    ctx.check("DetectionMonitor.property_change:default-any-change", ok, where(m, f), "without a filter any change of value qualifies")
    da = prog.cls("service.detect", "DetectionAlgorithm")
    ex = da.methods.get("_execute")
    ok = ex is not None
    if ok:
        calls = [x for x in walk_shallow(ex) if isinstance(x, ast.Call) and self_call(x) == "execute"]
        clr = [s_ for s_ in walk_shallow(ex) if isinstance(s_, ast.Assign) and norm(s_.targets[0]) == "self._triggered" and prog.try_const(m, s_.value) is False]
        ok = len(calls) == 1 and len(clr) == 1 and clr[0].lineno > calls[0].lineno
    ctx.check("DetectionAlgorithm._execute:clears-pending-after", ok, where(m, ex or da.node), "the pending mark is cleared after the algorithm ran")
    # increment filter
    ic = prog.cls(MOD, "COVIncrementCriteria")
    mi = ic.module
    evi = Evaluator(prog, mi, ic)
    pf = ic.methods.get("present_value_filter")
    if pf is None:
        raise AnchorMissing("COVIncrementCriteria.present_value_filter")
    nv = pf.args.args[2].arg
    from .common import subst_locals
    rets = [r for r in walk_shallow(pf) if isinstance(r, ast.Return)]
    ok = len(rets) == 1
    if ok:
        e = subst_locals(pf, rets[0].value)
        g = grid(**{nv: [0.0, 4.0, 4.5, 5.0, 5.5, 9.9, 10.0, 10.5], "self.previous_reported_value": [5.0], "self.obj.covIncrement": [0.5, 5.0]})
        ok, cx = same_function(evi, e, g, lambda env: abs(env[nv] - env["self.previous_reported_value"]) >= env["self.obj.covIncrement"])
    ctx.check("COVIncrementCriteria.present_value_filter:threshold", ok, where(mi, pf), "a change qualifies iff |new - last reported| >= covIncrement (inclusive)")
    sn = ic.methods.get("send_cov_notifications")
    ok = sn is not None
    if ok:
        st = [s_ for t, s_ in stores_in(sn) if is_self_attr(t, "previous_reported_value")]
        base = [x for x in calls_in(sn) if norm(x.func) == "COVDetection.send_cov_notifications"]
        ok = len(st) == 1 and norm(st[0].value) == "self.presentValue" and len(base) == 1
        # ... on every path, also for a notification that goes to one subscriber only (the initial one, a renewal): whoever
        # is told a value is told the reference the next change is measured against
        for p_ in enumerate_paths(sn):
            if p_.term == "raise":
                continue
            seq = [("store" if isinstance(nd, ast.Assign) and any(is_self_attr(t_, "previous_reported_value") for t_ in nd.targets) else "send")
                   for nd in path_nodes(p_) if (isinstance(nd, ast.Assign) and any(is_self_attr(t_, "previous_reported_value") for t_ in nd.targets))
                   or (isinstance(nd, ast.Call) and norm(nd.func) == "COVDetection.send_cov_notifications")]
            ok = ok and seq == ["store", "send"]
    ctx.check("COVIncrementCriteria.send_cov_notifications:remembers-reported", ok, where(mi, sn or ic.node), "each notification makes the reported value the new reference for the increment")
    # the notifier
    d = prog.cls(MOD, "COVDetection")
    rep = d.methods["send_cov_notifications"]
    evd = Evaluator(prog, mi, d)
    got = {}
    for s_ in [x for x in walk_shallow(rep) if isinstance(x, ast.Assign) and norm(x.targets[0]) == "request"]:
        for v in (True, False):
            if evd.may_hold(facts_at(s_), {"cov.confirmed": v}) and not evd.may_hold(facts_at(s_), {"cov.confirmed": not v}):
                got[v] = norm(s_.value)
    if not got:
        # the class chosen first, the request built from it afterwards: request_class = X under the condition, request = request_class(..)
        mk = [x for x in walk_shallow(rep) if isinstance(x, ast.Assign) and norm(x.targets[0]) == "request" and isinstance(x.value, ast.Call) and isinstance(x.value.func, ast.Name)]
        if len(mk) == 1:
            chooser = mk[0].value.func.id
            for s_ in [x for x in walk_shallow(rep) if isinstance(x, ast.Assign) and norm(x.targets[0]) == chooser and isinstance(x.value, ast.Name)]:
                for v in (True, False):
                    if evd.may_hold(facts_at(s_), {"cov.confirmed": v}) and not evd.may_hold(facts_at(s_), {"cov.confirmed": not v}):
                        got[v] = norm(s_.value) + "()"
    ctx.check("COVDetection.send_cov_notifications:confirmed-as-requested", got == {True: "ConfirmedCOVNotificationRequest()", False: "UnconfirmedCOVNotificationRequest()"}, where(mi, rep), "confirmed subscriptions get confirmed notifications, others unconfirmed (found %r)" % got)
    nl = [s_ for s_ in walk_shallow(rep) if isinstance(s_, ast.Assign) and norm(s_.targets[0]) == "notification_list"]
    vals = {}
    for s_ in nl:
        for given in (True, False):
            if evd.may_hold(facts_at(s_), {"subscription is not None": given, "subscription is None": not given}) and not evd.may_hold(facts_at(s_), {"subscription is not None": not given, "subscription is None": given}):
                vals[given] = norm(s_.value)
    ctx.check("COVDetection.send_cov_notifications:recipients", vals == {True: "[subscription]", False: "self.cov_subscriptions"}, where(mi, rep), "an initial notification goes to the new subscriber only, a change notification to every subscription (found %r)" % vals)
    send = [x for x in calls_in(rep) if norm(x.func) == "self.obj._app.cov_notification"]
    ok = len(send) == 1 and enclosing_loops(send[0]) and norm(enclosing_loops(send[0])[0].iter) == "notification_list" and not facts_at(send[0], stop=enclosing_loops(send[0])[0])
    ctx.check("COVDetection.send_cov_notifications:one-per-subscription", ok, where(mi, rep), "exactly one notification is sent per subscription in the list")
    flds = {norm(t): norm(s_.value) for s_ in walk_shallow(rep) if isinstance(s_, ast.Assign) for t in s_.targets if norm(t).startswith("request.")}
    # fields given to the constructor as keywords count like the stores they replace (`destination` is pduDestination)
    for x in walk_shallow(rep):
        if isinstance(x, ast.Assign) and norm(x.targets[0]) == "request" and isinstance(x.value, ast.Call):
            for kw_ in x.value.keywords:
                if kw_.arg:
                    flds.setdefault("request.%s" % {"destination": "pduDestination", "source": "pduSource"}.get(kw_.arg, kw_.arg), norm(kw_.value))
    want = {"request.pduDestination": "cov.client_addr", "request.subscriberProcessIdentifier": "cov.proc_id", "request.monitoredObjectIdentifier": "cov.obj_id", "request.timeRemaining": "time_remaining", "request.listOfValues": "list_of_values"}
    ctx.check("COVDetection.send_cov_notifications:fields", all(flds.get(k) == v for k, v in want.items()), where(mi, rep), "notification fields must come from the subscription record and the current values")
    ex = d.methods.get("execute")
    ctx.check("COVDetection.execute:notifies", ex is not None and [self_call(x) for x in calls_in(ex)] == ["send_cov_notifications"], where(mi, ex or d.node), "a qualifying change sends notifications")


@rule("C16.R6", "every object type that declares COV support has a criteria class whose tracked and reported properties the object declares", floor=25, engines="E3 table agreement")
def r6(ctx):
    prog = ctx.prog
    T = Tables(prog)
    m = prog.module(MOD)
    v = m.consts.get("criteria_type_map")
    if not v or not isinstance(v[0], ast.Dict):
        raise AnchorMissing("service.cov.criteria_type_map")
    cmap = {}
    for k, val in zip(v[0].keys, v[0].values):
        cmap[prog.const(m, k)] = (prog.resolve_class_expr(m, val), k)
    ot = T.enumerations(prog.cls("primitivedata", "ObjectType"))
    for key, (klass, node) in sorted(cmap.items()):
        ctx.check("criteria_type_map[%s]:is-object-type" % key, key in ot, where(m, node), "'%s' is not an object type name: no object can ever select this entry (the lookup uses the object identifier's type)" % key)
        ctx.check("criteria_type_map[%s]:class" % key, klass is not None and any(x.name == "COVDetection" for x in prog.mro(klass)), where(m, node), "the entry must name a COVDetection class")
    om = prog.module("object")
    n = 0
    for c in om.classes.values():
        sup = prog.class_attr(c, "_object_supports_cov")
        if not sup or prog.try_const(sup[0].module, sup[1]) is not True or "_object_supports_cov" not in c.attrs:
            continue
        n += 1
        otype = prog.try_const(om, c.attrs.get("objectType"), c) if "objectType" in c.attrs else None
        ent = cmap.get(otype)
        ctx.check("%s:has-criteria" % c.name, ent is not None, c.where(),
                  "%s declares _object_supports_cov but criteria_type_map has no entry for its object type '%s': SubscribeCOV is refused with covSubscriptionFailed" % (c.name, otype))
        if ent is None or ent[0] is None:
            continue
        declared = set()
        for x in prog.mro(c):
            pn = x.attrs.get("properties")
            if isinstance(pn, ast.List):
                for e in pn.elts:
                    if isinstance(e, ast.Call) and e.args:
                        pid = prog.try_const(x.module, e.args[0])
                        if isinstance(pid, str):
                            declared.add(pid)
        for attr in ("properties_tracked", "properties_reported"):
            r = prog.class_attr(ent[0], attr)
            props = prog.try_const(r[0].module, r[1], r[0]) if r else ()
            missing = [p for p in (props or ()) if p not in declared]
            ctx.check("%s:%s-declared" % (c.name, attr), not missing, c.where(), "%s.%s names %r which %s does not declare: the detection cannot bind / the notification cannot be built" % (ent[0].name, attr, missing, c.name))
    ctx.count("cov_object_classes", n)
    if n < 20:
        raise ShapeError("only %d COV-capable object classes found" % n)


@rule("C16.R7", "a renewal takes over what it says: the confirmed flag is stored whenever it is given (True or False), kept only when absent; overriding criteria chain to the nearest definition of the method they override",
      floor=4, engines="E1 paths + E5, E0 MRO")
def r7(ctx):
    prog = ctx.prog
    sub = prog.cls(MOD, "Subscription")
    m = sub.module
    f = sub.methods.get("renew_subscription")
    if f is None:
        raise AnchorMissing("Subscription.renew_subscription")
    ev = Evaluator(prog, m, sub)
    from .common import path_value
    names = [a.arg for a in f.args.args[1:]]
    flag = names[1] if len(names) > 1 else "confirmed"
    for given in (True, False, None):
        env = {"%s is not None" % flag: given is not None, "%s is None" % flag: given is None, "self.isScheduled": False, names[0]: 60}
        if given is not None:
            env[flag] = given
        outs = set()
        for p_ in enumerate_paths(f):
            if p_.term == "raise":
                continue
            k_, v_ = path_value(p_, ev, env, "self.confirmed")
            if k_ == "infeasible":
                continue
            outs.add("kept" if k_ == "absent" else v_ if k_ == "value" else "?")
        want = {"kept"} if given is None else {given}
        ctx.check("Subscription.renew_subscription:confirmed[%r]" % (given,), outs == want, where(m, f),
                  "a renewal asking for confirmed=%r must leave the flag %s (found %s)" % (given, "as it was" if given is None else "at that value", sorted(map(str, outs))))
    # explicit base calls in overriding methods go to the next definition in the MRO (skipping a level loses what that level does)
    n = 0
    for cname, c in sorted(m.classes.items()):
        mro = prog.mro(c)
        for mname, fn in sorted(c.methods.items()):
            for x in calls_in(fn):
                if isinstance(x.func, ast.Attribute) and x.func.attr == mname and isinstance(x.func.value, ast.Name) and x.args and norm(x.args[0]) == "self":
                    tgt = prog.resolve_class_expr(m, x.func.value)
                    if tgt is None or tgt is c or tgt not in mro:
                        continue
                    nxt = next((k for k in mro[1:] if mname in k.methods), None)
                    got = prog.find_method(tgt, mname)
                    n += 1
                    ctx.check("%s.%s:chains-to-nearest[%s]" % (cname, mname, tgt.name), nxt is not None and got is not None and got[0] is nxt, where(m, x),
                              "%s.%s calls %s.%s, but the nearest definition it overrides is %s.%s: what that level does (e.g. remembering the reported value) is skipped"
                              % (cname, mname, tgt.name, mname, nxt.name if nxt else "?", mname))
    if n < 1:
        raise ShapeError("service.cov: no explicit base call found")
