"""C12 - what is sent respects the peer's limits: segment size bound,
capability guards before a segmented send, peer values taken from the peer,
window negotiation and range."""
import ast
import itertools

from ..report import rule
from ..model import norm, NotConst, calls_in, stores_in, ShapeError, AnchorMissing, is_self_attr
from ..paths import enumerate_paths, facts_at, walk_shallow, enclosing_stmt, statements_before
from ..guards import Evaluator, atom_texts, int_constants, probe_points
from .common import where, self_call, feasible, path_nodes, same_function, grid, attr_stores, subst_locals

MOD = "appservice"
SEG = ["noSegmentation", "segmentedTransmit", "segmentedReceive", "segmentedBoth"]
# APCI header octets of a *segmented* frame (clause 20.1.2 / 20.1.5): type+flags, [max-segs/max-resp], invoke id, seq, window, service
HDR = {"ClientSSM": 6, "ServerSSM": 5}


def _abort_names(ctx):
    c = ctx.prog.cls("apdu", "AbortReason")
    return {v: k for k, v in ctx.prog.const(c.module, c.attrs["enumerations"], c).items()}


@rule("C12.R1", "the payload of a frame plus its fixed header fits the maximum APDU length the peer announced", floor=5, engines="E5 finite-domain evaluation")
def r1(ctx):
    prog = ctx.prog
    for cname, mname in (("ClientSSM", "indication"), ("ServerSSM", "confirmation")):
        c = prog.cls(MOD, cname)
        f = c.methods.get(mname)
        if f is None:
            raise AnchorMissing("%s.%s" % (cname, mname))
        ev = Evaluator(prog, c.module, c)
        sts = [s for t, s in attr_stores(f, "segmentSize")]
        if not sts:
            raise ShapeError("%s.%s does not store segmentSize" % (cname, mname))
        for s in sts:
            e = s.value
            # sources mentioned
            srcs = sorted({norm(n) for n in ast.walk(e) if isinstance(n, ast.Attribute) and n.attr in ("maxApduLengthAccepted", "maxNpduLength")})
            envs = grid(**{k: [50, 128, 480, 1476] for k in srcs}) if srcs else [{}]
            ok = True
            worst = None
            okb = True
            for env in envs:
                try:
                    v = ev.value(e, env)
                except NotConst:
                    okb = False
                    break
                if srcs and v > min(env[k] for k in srcs):
                    okb = False
                    break
            ctx.check("%s.%s:segmentSize-bounded[%s]" % (cname, mname, ",".join(x.replace("self.", "") for x in srcs)), okb and bool(srcs), where(c.module, s),
                      "segmentSize must not exceed any of the limits it is derived from (max APDU of the peer, max NPDU of the path): %s" % norm(e))
            for env in envs:
                try:
                    v = ev.value(e, env)
                except NotConst:
                    ok = False
                    worst = "not evaluable"
                    break
                peer = min(env[k] for k in srcs if k.endswith("maxApduLengthAccepted")) if any(k.endswith("maxApduLengthAccepted") for k in srcs) else None
                if peer is None or v + HDR[cname] > peer:
                    ok = False
                    worst = (env, v)
                    break
            ctx.check("%s.%s:segmentSize[%s]" % (cname, mname, ",".join(x.replace("self.", "") for x in srcs)), ok, where(c.module, s),
                      "each frame carries up to segmentSize octets of data plus a %d-octet APCI header, so segmentSize must leave room for the header below the peer's maximum APDU length; here %r"
                      % (HDR[cname], worst), facts={"sources": srcs})
        # the peer's value is used when it is known (client side)
        if cname == "ClientSSM":
            for s in sts:
                fa = facts_at(s)
                known = not ev.may_hold(fa, {"self.device_info": False}) and not ev.may_hold(fa, {"self.device_info": True, "self.device_info.maxApduLengthAccepted": None})
                if known:
                    ctx.check("%s.%s:uses-peer-max" % (cname, mname), "self.device_info.maxApduLengthAccepted" in norm(s.value), where(c.module, s),
                              "when the peer's maximum APDU length is known it must bound the segment size")
        else:
            for s in sts:
                ctx.check("%s.%s:uses-request-max" % (cname, mname), "self.maxApduLengthAccepted" in norm(s.value), where(c.module, s),
                          "the response segment size must be bounded by the maximum the request announced")
        # segmentSize is decided before the count is computed
        dm = [x for x in calls_in(f) if isinstance(x.func, ast.Name) and x.func.id == "divmod"]
        for d in dm:
            before = statements_before(d, f)
            has = any(isinstance(t, ast.Attribute) and t.attr == "segmentSize" for b in before for t, _ in stores_in(b))
            ctx.check("%s.%s:size-before-count" % (cname, mname), has, where(c.module, d), "segment count computed before the segment size was chosen")


def _outcomes(ctx, c, f, ev, env, send_pred, names):
    outs = set()
    for p in enumerate_paths(f):
        if p.term == "raise" or not feasible(p, ev, env):
            continue
        if any(e.kind == "except" for e in p.events):
            continue        # exception handling (a header field that cannot be decoded) is not a capability decision; C10.R7 covers it
        nodes = path_nodes(p)
        ab = [n for n in nodes if isinstance(n, ast.Call) and self_call(n) == "abort"]
        sends = [n for n in nodes if isinstance(n, ast.Call) and send_pred(n)]
        if ab:
            r = ctx.prog.try_const(c.module, ab[0].args[0], default=None) if ab[0].args else None
            told = [n for n in nodes if isinstance(n, ast.Call) and self_call(n) == "response" and n.args and isinstance(n.args[0], ast.Name)]
            outs.add("abort:%s%s" % (names.get(r, r), "" if told and not sends else ":not-reported" if not told else ":and-sent"))
        elif sends:
            outs.add("send")
        else:
            outs.add("nothing")
    return outs


@rule("C12.R2", "a segmented send is reached only if both sides can do it and the segment count is within the peer's limit; otherwise the requester gets the matching abort",
      floor=40, engines="E1 paths + E5 finite-domain guard evaluation")
def r2(ctx):
    prog = ctx.prog
    names = _abort_names(ctx)
    # ---- client
    c = prog.cls(MOD, "ClientSSM")
    f = c.methods.get("indication")
    if f is None:
        raise AnchorMissing("ClientSSM.indication")
    ev = Evaluator(prog, c.module, c)
    apdu = f.args.args[1].arg
    send = lambda n: self_call(n) == "request" and n.args and isinstance(n.args[0], ast.Call) and self_call(n.args[0]) == "get_segment"
    base = {"%s.apduType" % apdu: 0, "%s.pduData" % apdu: True, "more": 1, "self.device_info.maxApduLengthAccepted": 480, "self.device_info.maxNpduLength": None}
    n = 0
    for count in (1, 3, 5):
        for own in SEG:
            for di in (False, True):
                for peer in (SEG if di else [None]):
                    for mx in ((None, 0, 2, 4, 64) if di else (None,)):
                        env = dict(base)
                        env.update({"self.segmentCount": count, "self.segmentationSupported": own, "self.device_info": di})
                        if di:
                            env["self.device_info.segmentationSupported"] = peer
                            env["self.device_info.maxSegmentsAccepted"] = mx
                        outs = _outcomes(ctx, c, f, ev, env, send, names)
                        if count == 1:
                            want = "send"
                        elif own not in ("segmentedTransmit", "segmentedBoth"):
                            want = "abort:segmentationNotSupported"
                        elif di and peer not in ("segmentedReceive", "segmentedBoth"):
                            want = "abort:segmentationNotSupported"
                        elif di and mx and count > mx:
                            want = "abort:apduTooLong"
                        else:
                            want = "send"
                        n += 1
                        ctx.check("ClientSSM.indication:cap[count=%d,own=%s,known=%s,peer=%s,maxsegs=%s]" % (count, own, di, peer, mx), outs == {want}, where(c.module, f),
                                  "expected %s, the code does %s" % (want, sorted(outs)), facts={"env": {k: repr(v) for k, v in env.items()}})
    ctx.count("capability_cases", n)
    # ---- server
    c = prog.cls(MOD, "ServerSSM")
    f = c.methods.get("confirmation")
    if f is None:
        raise AnchorMissing("ServerSSM.confirmation")
    ev = Evaluator(prog, c.module, c)
    apdu = f.args.args[1].arg
    send = lambda n: self_call(n) == "response" and n.args and ((isinstance(n.args[0], ast.Call) and self_call(n.args[0]) == "get_segment") or norm(n.args[0]) == apdu)
    for count in (1, 3, 5):
        for own in SEG:
            for acc in (True, False):
                for mx in (None, 2, 4, 64):
                    env = {"%s.apduType" % apdu: 3, "%s.pduData" % apdu: True, "more": 1, "self.segmentCount": count, "self.segmentationSupported": own,
                           "self.segmented_response_accepted": acc, "self.maxSegmentsAccepted": mx, "self.device_info": False, "self.state": 3}
                    outs = _outcomes(ctx, c, f, ev, env, send, names)
                    if count == 1:
                        want = "send"
                    elif own not in ("segmentedTransmit", "segmentedBoth"):
                        want = "abort:segmentationNotSupported"
                    elif not acc:
                        want = "abort:segmentationNotSupported"
                    elif mx is not None and count > mx:
                        want = "abort:apduTooLong"
                    else:
                        want = "send"
                    n += 1
                    ctx.check("ServerSSM.confirmation:cap[count=%d,own=%s,accepted=%s,maxsegs=%s]" % (count, own, acc, mx), outs == {want}, where(c.module, f),
                              "expected %s, the code does %s" % (want, sorted(outs)))
    ctx.count("capability_cases", n)
    # a segmented request from a client is refused when we cannot receive segments
    f = c.methods.get("idle")
    if f is None:
        raise AnchorMissing("ServerSSM.idle")
    apdu = f.args.args[1].arg
    for own in SEG:
        env = {"isinstance:%s" % apdu: "ConfirmedRequestPDU", "%s.apduSeg" % apdu: True, "self.segmentationSupported": own, "self.device_info": False, "%s.apduSA" % apdu: False}
        sendack = lambda n: norm(n.func) == "SegmentAckPDU"
        outs = _outcomes(ctx, c, f, ev, env, sendack, names)
        want = "send" if own in ("segmentedReceive", "segmentedBoth") else "abort:segmentationNotSupported"
        ctx.check("ServerSSM.idle:cap[own=%s]" % own, outs == {want}, where(c.module, f), "segmented request with own support %s: expected %s, found %s" % (own, want, sorted(outs)))
    # client receiving a segmented ack without being able to
    c = prog.cls(MOD, "ClientSSM")
    f = c.methods.get("await_confirmation")
    ev = Evaluator(prog, c.module, c)
    apdu = f.args.args[1].arg
    for own in SEG:
        env = {"%s.apduType" % apdu: 3, "%s.apduSeg" % apdu: True, "%s.apduSeq" % apdu: 0, "self.segmentationSupported": own}
        sendack = lambda n: norm(n.func) == "SegmentAckPDU"
        outs = _outcomes(ctx, c, f, ev, env, sendack, names)
        want = "send" if own in ("segmentedReceive", "segmentedBoth") else "abort:segmentationNotSupported"
        ctx.check("ClientSSM.await_confirmation:cap[own=%s]" % own, outs == {want}, where(c.module, f), "segmented ack with own support %s: expected %s, found %s" % (own, want, sorted(outs)))


def _arg_kind(prog, cls, expr, depth=0):
    """Coarse kind of an expression handed to the device-info cache: 'DeviceInfo' (a
    cache record), 'Address', 'int', or None when it cannot be told."""
    t = norm(expr)
    if isinstance(expr, ast.Call) and isinstance(expr.func, ast.Attribute) and expr.func.attr in ("get_device_info", "acquire"):
        return "DeviceInfo"
    if isinstance(expr, ast.Constant) and isinstance(expr.value, int):
        return "int"
    if isinstance(expr, ast.Attribute) and expr.attr in ("pduSource", "pduDestination", "address"):
        return "Address"
    if isinstance(expr, ast.Attribute) and expr.attr == "deviceIdentifier":
        return "int"
    if depth > 3:
        return None
    if is_self_attr(expr):
        kinds = set()
        for k in prog.mro(cls):
            for m in k.methods.values():
                for tgt, s in attr_stores(m, expr.attr):
                    if isinstance(s, ast.Assign):
                        v = s.value
                        if isinstance(v, ast.Name) and v.id in [a.arg for a in m.args.args]:
                            kinds.add(_param_kind(prog, k, m, v.id, depth + 1))
                        else:
                            kinds.add(_arg_kind(prog, k, v, depth + 1))
        kinds.discard(None)
        return kinds.pop() if len(kinds) == 1 else None
    return None


def _param_kind(prog, cls, m, pname, depth):
    """Kind of a constructor parameter, from the construction sites of the class family in the module."""
    if m.name != "__init__":
        return None
    idx = [a.arg for a in m.args.args].index(pname) - 1
    kinds = set()
    for name, k in cls.module.classes.items():
        for mm in k.methods.values():
            for call in calls_in(mm):
                if isinstance(call.func, ast.Name) and idx < len(call.args):
                    tgt = prog.resolve_class_expr(cls.module, call.func) if call.func.id in cls.module.classes else None
                    if tgt is not None and cls in prog.mro(tgt):
                        kinds.add(_arg_kind(prog, k, call.args[idx], depth + 1))
    kinds.discard(None)
    return kinds.pop() if len(kinds) == 1 else None


@rule("C12.R3","the peer's limits are taken from the peer (request header, I-Am) and our own are announced truthfully", floor=9, engines="E0/E1")
def r3(ctx):
    prog = ctx.prog
    c = prog.cls(MOD, "ServerSSM")
    f = c.methods.get("idle")
    if f is None:
        raise AnchorMissing("ServerSSM.idle")
    apdu = f.args.args[1].arg
    want = {"segmented_response_accepted": "%s.apduSA" % apdu,
            "maxApduLengthAccepted": "decode_max_apdu_length_accepted(%s.apduMaxResp)" % apdu,
            "maxSegmentsAccepted": "decode_max_segments_accepted(%s.apduMaxSegs)" % apdu}
    handoffs = [x for x in calls_in(f) if self_call(x) in ("set_state", "request")]
    first = min((x.lineno for x in handoffs), default=None)
    for fld, src in want.items():
        sts = [s for t, s in attr_stores(f, fld)]
        prim = [s for s in sts if norm(s.value) == src]
        ok = len(prim) == 1 and not [x for x in facts_at(prim[0]) if x.origin == "arm"] and (first is None or prim[0].lineno < first)
        ctx.check("ServerSSM.idle:%s" % fld, ok, where(c.module, f), "%s must be taken from the request header (%s) on every path before the request is handed on" % (fld, src))
    # DeviceInfoCache.iam_device_info
    dc = prog.cls("app", "DeviceInfoCache")
    f = dc.methods.get("iam_device_info")
    if f is None:
        raise AnchorMissing("DeviceInfoCache.iam_device_info")
    apdu = f.args.args[1].arg
    for fld, src in (("maxApduLengthAccepted", "maxAPDULengthAccepted"), ("segmentationSupported", "segmentationSupported"), ("vendorID", "vendorID"), ("address", "pduSource")):
        sts = [s for t, s in stores_in(f) if isinstance(t, ast.Attribute) and t.attr == fld and isinstance(s, ast.Assign)]
        ok = len(sts) == 1 and norm(sts[0].value) == "%s.%s" % (apdu, src) and not [x for x in facts_at(sts[0]) if x.origin == "arm"]
        ctx.check("DeviceInfoCache.iam_device_info:%s" % fld, ok, where(dc.module, f), "device info %s must be copied from the I-Am's %s" % (fld, src))
    upd = [x for x in calls_in(f) if self_call(x) == "update_device_info"]
    ctx.check("DeviceInfoCache.iam_device_info:stored", len(upd) == 1 and not [x for x in facts_at(upd[0]) if x.origin == "arm"], where(dc.module, f), "the learned record must be put into the cache")
    # ... on every path that accepts the I-Am: no way out of the method (other than refusing a non-I-Am) skips the copy
    # of the limits or the hand-over to the cache - a later I-Am with smaller limits must replace what an earlier one said
    from ..paths import enumerate_paths
    skipped = []
    for p_ in enumerate_paths(f):
        if p_.term == "raise":
            continue
        done = set()
        for e in p_.events:
            if e.kind != "stmt":
                continue
            nd = e.node
            if isinstance(nd, ast.Assign) and isinstance(nd.targets[0], ast.Attribute) and nd.targets[0].attr in ("maxApduLengthAccepted", "segmentationSupported", "address"):
                done.add(nd.targets[0].attr)
            if any(self_call(x) == "update_device_info" for x in calls_in(nd)):
                done.add("update_device_info")
        if done != {"maxApduLengthAccepted", "segmentationSupported", "address", "update_device_info"}:
            skipped.append(p_.describe()[:160])
    ctx.check("DeviceInfoCache.iam_device_info:every-announcement-counts", not skipped, where(dc.module, f),
              "an accepted I-Am leaves the method without refreshing the peer's limits / the cache on the path %s" % (skipped[:1],))
    # a record the cache has never seen (no _cache_keys yet) must become retrievable under both keys
    f = dc.methods.get("update_device_info")
    if f is None:
        raise AnchorMissing("DeviceInfoCache.update_device_info")
    rec = f.args.args[1].arg
    ev = Evaluator(prog, dc.module, dc)
    oldkeys = {}
    for s in ast.walk(f):
        if isinstance(s, ast.Assign) and isinstance(s.targets[0], ast.Tuple) and "_cache_keys" in norm(s.value):
            for e in s.targets[0].elts:
                if isinstance(e, ast.Name):
                    oldkeys[e.id] = None
    for fld in ("deviceIdentifier", "address"):
        sts = [s for t, s in stores_in(f) if isinstance(t, ast.Subscript) and norm(t.value) == "self.cache" and norm(t.slice) == "%s.%s" % (rec, fld)
               and isinstance(s, ast.Assign) and norm(s.value) == rec]
        env = dict(oldkeys)
        env["%s.%s" % (rec, fld)] = 7
        ok = bool(oldkeys) and any(ev.may_hold(facts_at(s), env) for s in sts)
        ctx.check("DeviceInfoCache.update_device_info:new-record-stored[%s]" % fld, ok, where(dc.module, f),
                  "a record without previous cache keys is never stored under its %s: what an I-Am announced is lost and get_device_info() keeps answering None" % fld)
    # the SSMs use the cache through its key contract: acquire() takes what its isinstance tests accept
    acq = dc.methods.get("acquire")
    if acq is None:
        raise AnchorMissing("DeviceInfoCache.acquire")
    key = acq.args.args[1].arg
    accepted = set()
    for n in ast.walk(acq):
        if isinstance(n, ast.Call) and norm(n.func) == "isinstance" and norm(n.args[0]) == key:
            tt = n.args[1].elts if isinstance(n.args[1], ast.Tuple) else [n.args[1]]
            accepted |= {norm(x) for x in tt}
    nsite = 0
    for cname in ("ClientSSM", "ServerSSM"):
        sc = prog.cls(MOD, cname)
        for mname, m in sc.methods.items():
            for call in calls_in(m):
                if isinstance(call.func, ast.Attribute) and call.func.attr == "acquire" and "deviceInfoCache" in norm(call.func.value):
                    nsite += 1
                    kind = _arg_kind(prog, sc, call.args[0]) if call.args else None
                    ctx.check("%s.%s:acquire-key-kind" % (cname, mname), kind in accepted, where(sc.module, call),
                              "acquire() accepts %s but is called with %s (%s): the transaction dies with TypeError as soon as the cache knows the peer" % (sorted(accepted), norm(call.args[0]) if call.args else None, kind))
    ctx.check("SSM:acquire-sites", nsite >= 2, where(dc.module, acq), "both state machines acquire the peer's record")
    # our own limits in requests
    c = prog.cls(MOD, "SSM")
    f = c.methods["get_segment"]
    for fld, src in (("apduMaxSegs", "encode_max_segments_accepted(self.maxSegmentsAccepted)"), ("apduMaxResp", "encode_max_apdu_length_accepted(self.maxApduLengthAccepted)")):
        sts = [s for t, s in stores_in(f) if isinstance(t, ast.Attribute) and t.attr == fld]
        ctx.check("SSM.get_segment:%s" % fld, len(sts) == 1 and norm(sts[0].value) == src, where(c.module, f), "requests must announce %s" % src)
    sts = [s for t, s in stores_in(f) if isinstance(t, ast.Attribute) and t.attr == "apduSA"]
    ok = len(sts) == 1
    if ok:
        ev = Evaluator(prog, c.module, c)
        ok, cx = same_function(ev, sts[0].value, grid(**{"self.segmentationSupported": SEG}), lambda e: e["self.segmentationSupported"] in ("segmentedReceive", "segmentedBoth"))
    ctx.check("SSM.get_segment:apduSA", ok, where(c.module, f), "segmented-response-accepted must be announced iff we can receive segments")
    init = c.methods["__init__"]
    for fld, src in (("segmentationSupported", "segmentationSupported"), ("maxSegmentsAccepted", "maxSegmentsAccepted"), ("maxApduLengthAccepted", "maxApduLengthAccepted")):
        st = [s for t, s in attr_stores(init, fld)]
        ok = len(st) == 1 and isinstance(st[0].value, ast.Call) and norm(st[0].value.func) == "getattr" and prog.try_const(c.module, st[0].value.args[1]) == src
        ctx.check("SSM.__init__:%s" % fld, ok, where(c.module, init), "%s must come from the local device object" % fld)


def window_agreement(ctx):
    """the window both sides use is the negotiated one (also registered as C05.R9)"""
    prog = ctx.prog
    # negotiation: the receiver of the first segment answers min(proposed by sender, own)
    for cname, mname in (("ServerSSM", "idle"), ("ClientSSM", "segmented_request")):
        c = prog.cls(MOD, cname)
        f = c.methods[mname]
        ev = Evaluator(prog, c.module, c)
        apdu = f.args.args[1].arg
        sts = [s for t, s in attr_stores(f, "actualWindowSize") if isinstance(s, ast.Assign) and "proposedWindowSize" in norm(s.value)]
        ok = len(sts) == 1
        if ok:
            k1, k2 = "%s.apduWin" % apdu, "self.ssmSAP.proposedWindowSize"
            ok, cx = same_function(ev, sts[0].value, grid(**{k1: [1, 2, 8, 127], k2: [1, 2, 16, 127]}), lambda e: min(e[k1], e[k2]))
        ctx.check("%s.%s:window=min" % (cname, mname), ok, where(c.module, f), "the actual window must be min(window proposed by the sender, own proposedWindowSize)")
    # the value acknowledged back is the actual window
    for cname in ("ClientSSM", "ServerSSM"):
        c = prog.cls(MOD, cname)
        for name, f in c.methods.items():
            for call in calls_in(f):
                if norm(call.func) == "SegmentAckPDU" and len(call.args) == 5:
                    ctx.check("%s.%s:ack-window" % (cname, name), norm(call.args[4]) == "self.actualWindowSize", where(c.module, call), "segment-acks must carry the actual window size")


@rule("C12.R4", "window sizes: the receiver answers min(proposed, own); a received window size is range-checked (1..127) before it is used", floor=6, engines="E5")
def r4(ctx):
    prog = ctx.prog
    n = 0
    for cname in ("ClientSSM", "ServerSSM"):
        c = prog.cls(MOD, cname)
        ev = Evaluator(prog, c.module, c)
        for name, f in sorted(c.methods.items()):
            for tgt, st in attr_stores(f, "actualWindowSize"):
                if not isinstance(st, ast.Assign):
                    continue
                rx = [norm(x) for x in ast.walk(st.value) if isinstance(x, ast.Attribute) and x.attr == "apduWin"]
                if not rx:
                    continue
                n += 1
                key = rx[0]
                fa = facts_at(st)
                pts = [-1, 0, 1, 2, 127, 128, 255]
                reach = [v for v in pts if ev.may_hold(fa, {key: v})]
                ctx.check("%s.%s:window-range[%s]" % (cname, name, "min-with-own-proposal" if "proposedWindowSize" in norm(st.value) else "as-received"), reach == [1, 2, 127], where(c.module, st),
                          "a window size received from the peer is used without a 1..127 range check (values reaching the store: %r); 0 stalls the transfer, >127 breaks the modulo-256 window arithmetic" % reach,
                          facts={"guards": [repr(x) for x in fa]})
    if n == 0:
        raise ShapeError("no store of a received window size found")
    # the sender follows the window of EVERY ack (the receiver may shrink it): the store must not depend on what is already stored
    for cname, mname in (("ClientSSM", "segmented_request"), ("ServerSSM", "segmented_response")):
        c = prog.cls(MOD, cname)
        f = c.methods[mname]
        apdu = f.args.args[1].arg
        sts = [st for tgt, st in attr_stores(f, "actualWindowSize") if isinstance(st, ast.Assign) and norm(st.value) == "%s.apduWin" % apdu]
        first = sts[0] if sts else None
        latched = [repr(z) for z in facts_at(first)] if first is not None else []
        ok = first is not None and not any("actualWindowSize" in z for z in latched) and any(("%s.apduType == SegmentAckPDU.pduType" % apdu, True) == tp or "SegmentAckPDU" in tp[0] for tp in atom_texts(facts_at(first)))
        ctx.check("%s.%s:window-follows-every-ack" % (cname, mname), ok, where(c.module, first if first is not None else f),
                  "the window announced in a segment-ack must be adopted for every ack (guards found: %s): a receiver that shrinks its window is otherwise overrun" % latched)
    window_agreement(ctx)
    # own proposal is a legal window
    sm = prog.cls(MOD, "StateMachineAccessPoint")
    st = [s for t, s in attr_stores(sm.methods["__init__"], "proposedWindowSize")]
    v = prog.try_const(sm.module, st[0].value) if len(st) == 1 else None
    ctx.check("SMAP.__init__:proposedWindowSize", isinstance(v, int) and 1 <= v <= 127, where(sm.module, sm.methods["__init__"]), "default proposed window must be within 1..127 (found %r)" % (v,))


@rule("C12.R5", "the window in use is honoured when sending: one burst is exactly actualWindowSize consecutive segments", floor=2, engines="E5 (shared with C05.R5)")
def r5(ctx):
    from .c05 import fill_window_loop, burst_bound
    c, f, lp, seq = fill_window_loop(ctx)
    burst_bound(ctx, c, f, lp, seq)
    # before the first segment-ack the peer has granted nothing: the client starts a segmented request with no window
    # (None: only segment 0 may be repeated, never a burst) or with a window of exactly 1
    prog = ctx.prog
    cl = prog.cls(MOD, "ClientSSM")
    ind = cl.methods["indication"]
    ev = Evaluator(prog, cl.module, cl)
    sts = [st for tgt, st in attr_stores(ind, "actualWindowSize") if isinstance(st, ast.Assign)]
    vals = [prog.try_const(cl.module, st.value) if not (isinstance(st.value, ast.Constant) and st.value.value is None) else None for st in sts]
    ok = len(sts) >= 1 and all((isinstance(st.value, ast.Constant) and st.value.value is None) or v == 1 for st, v in zip(sts, vals))
    ctx.check("ClientSSM.indication:no-window-before-first-ack", ok, where(cl.module, sts[0] if sts else ind),
              "a segmented request starts with no agreed window (None) or a window of 1, never with the client's own proposal")
    to = cl.methods["segmented_request_timeout"]
    from ..paths import enumerate_paths
    from .common import path_value
    bursts = []
    if any(v is None for v in vals) or not sts:
        for p_ in enumerate_paths(to):
            if p_.term == "raise":
                continue
            kind, _ = path_value(p_, ev, {"self.initialSequenceNumber": 0}, "<feasibility>")
            if kind == "infeasible":
                continue
            if any(self_call(x) == "fill_window" for x in p_.calls()):
                bursts.append(p_.describe()[:140])
    ctx.check("ClientSSM.segmented_request_timeout:single-segment-before-first-ack", not bursts, where(cl.module, to),
              "while nothing has been acknowledged (initial sequence number 0, no window agreed) a timeout may repeat segment 0 only: %s" % bursts[:1])


@rule("C12.R6", "every transmission of a request passes the capability decision, also a retry: what the peer announced in between (a new I-Am) is honoured", floor=1, engines="E1 paths")
def r6(ctx):
    prog = ctx.prog
    c = prog.cls(MOD, "ClientSSM")
    f = c.methods.get("await_confirmation_timeout")
    if f is None:
        raise AnchorMissing("ClientSSM.await_confirmation_timeout")
    n = 0
    for p_ in enumerate_paths(f):
        if p_.term == "raise":
            continue
        calls = p_.calls()
        if any(self_call(x) == "abort" for x in calls):
            continue
        n += 1
        again = [x for x in calls if self_call(x) == "indication" and len(x.args) == 1 and norm(x.args[0]) == "self.segmentAPDU"]
        direct = [x for x in calls if self_call(x) in ("request", "fill_window")]
        ctx.check("ClientSSM.await_confirmation_timeout:retry-decides-again", len(again) == 1 and not direct, where(c.module, f),
                  "a retry must go through indication(), where the request is measured against the peer's current limits; re-sending the stored frame directly ignores an I-Am that arrived since")
    if n == 0:
        raise ShapeError("ClientSSM.await_confirmation_timeout: no retry path found")
