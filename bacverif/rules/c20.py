"""C20 - schedules: return shape of the evaluator, wildcard handling in every
date matcher, special-octet tables, evaluation order, timer re-arming."""
import ast

from ..report import rule
from ..model import norm, NotConst, calls_in, stores_in, ShapeError, AnchorMissing, is_self_attr
from ..paths import enumerate_paths, facts_at, walk_shallow, enclosing_stmt, enclosing_loops
from ..guards import Evaluator, atom_texts, atoms_of_facts
from .common import where, path_nodes, feasible, same_function, grid, self_call

MOD = "local.schedule"


def _fn(ctx, name):
    m = ctx.prog.module(MOD)
    f = m.functions.get(name)
    if f is None:
        raise AnchorMissing("%s.%s" % (MOD, name))
    return m, f


@rule("C20.R1", "the evaluator's result is used in a shape every return can have (a missing result outside the effective period is handled, not unpacked)", floor=2, engines="E1 return-shape vs unpacking")
def r1(ctx):
    prog = ctx.prog
    c = prog.cls(MOD, "LocalScheduleInterpreter")
    m = c.module
    ev_f = c.methods.get("eval")
    if ev_f is None:
        raise AnchorMissing("LocalScheduleInterpreter.eval")
    rets = [r for r in walk_shallow(ev_f) if isinstance(r, ast.Return)]
    shapes = set()
    for r in rets:
        if r.value is None or (isinstance(r.value, ast.Constant) and r.value.value is None):
            shapes.add("None")
        elif isinstance(r.value, ast.Tuple):
            shapes.add("tuple%d" % len(r.value.elts))
        else:
            shapes.add("other")
    n = 0
    for mod, cls, fn in prog.all_functions():
        if mod is not m:
            continue
        for call in calls_in(fn):
            if not (self_call(call) == "eval" or norm(call.func).endswith("._task.eval")):
                continue
            n += 1
            st = enclosing_stmt(call)
            q = "%s.%s" % (cls.name if cls else mod.name, fn.name)
            if isinstance(st, ast.Assign) and isinstance(st.targets[0], (ast.Tuple, ast.List)) and st.value is call:
                k = len(st.targets[0].elts)
                ok = shapes <= {"tuple%d" % k}
                ctx.check("%s:unpacks-eval" % q, ok, where(m, st),
                          "the result of eval() is unpacked into %d names but eval() can return %s: outside the effective period the unpack raises TypeError and the schedule's timer is never re-armed" % (k, sorted(shapes)),
                          facts={"return_shapes": sorted(shapes)})
            elif isinstance(st, ast.Assign) and isinstance(st.targets[0], ast.Name):
                var = st.targets[0].id
                evl = Evaluator(prog, m, cls)
                ok = True
                for s in walk_shallow(fn):
                    if isinstance(s, ast.Assign) and isinstance(s.targets[0], (ast.Tuple, ast.List)) and norm(s.value) == var and s.lineno > st.lineno:
                        if "None" in shapes and evl.may_hold(facts_at(s), {var: None, "%s is None" % var: True, "%s is not None" % var: False}):
                            ok = False
                ctx.check("%s:unpacks-eval" % q, ok, where(m, st), "the result of eval() may be None when it is unpacked", facts={"return_shapes": sorted(shapes)})
            else:
                ctx.ok("%s:uses-eval" % q, where(m, st))
    if n == 0:
        raise ShapeError("no caller of eval() found")
    ctx.check("eval:tuple-arity", all(s in ("None", "tuple2") for s in shapes), where(m, ev_f), "eval() returns (value, next transition) pairs (found shapes %s)" % sorted(shapes))


def _is_wild(prog, m, node):
    v = prog.try_const(m, node)
    if v == 255:
        return True
    if isinstance(v, tuple) and v and all(x == 255 for x in v):
        return True
    return False


@rule("C20.R2", "every date matcher tests a pattern field for the 'unspecified' octet (255) before comparing it", floor=8, engines="E1 facts (sibling rule)")
def r2(ctx):
    prog = ctx.prog
    for fname in ("match_date", "match_weeknday", "match_date_range"):
        m, f = _fn(ctx, fname)
        n = 0
        params = [a.arg for a in f.args.args]
        pat_param = params[1]
        # names that carry pattern data: unpacked from / sliced from the pattern parameter
        pat_names = set()
        for s in walk_shallow(f):
            if isinstance(s, ast.Assign) and pat_param in {x.id for x in ast.walk(s.value) if isinstance(x, ast.Name)}:
                for t in s.targets:
                    for x in ast.walk(t):
                        if isinstance(x, ast.Name):
                            pat_names.add(x.id)
        changed = True
        while changed:
            changed = False
            for s in walk_shallow(f):
                if isinstance(s, ast.Assign) and {x.id for x in ast.walk(s.value) if isinstance(x, ast.Name)} & pat_names:
                    for t in s.targets:
                        for x in ast.walk(t):
                            if isinstance(x, ast.Name) and x.id not in pat_names:
                                pat_names.add(x.id)
                                changed = True
        for cmpn in [x for x in walk_shallow(f) if isinstance(x, ast.Compare)]:
            for side in [cmpn.left] + list(cmpn.comparators):
                names = {x.id for x in ast.walk(side) if isinstance(x, ast.Name)}
                is_pat = bool(names & pat_names) or (pat_param in names)
                if not is_pat:
                    continue
                other = [s_ for s_ in [cmpn.left] + list(cmpn.comparators) if s_ is not side]
                if any(isinstance(o, ast.Constant) or prog.try_const(m, o) is not None for o in other):
                    continue        # comparison of the pattern with a constant (this *is* a special-value test)
                n += 1
                key = norm(side)
                guarded = False
                # a pattern used as an *upper* bound (d <= p) needs no test: 255 is larger than every real date octet
                if len(cmpn.ops) == 1:
                    op = cmpn.ops[0]
                    # does a true comparison mean "matches" (expression form) or "rejects" (if <cmp>: return False)?
                    stc = enclosing_stmt(cmpn)
                    reject = isinstance(stc, ast.If) and any(x is cmpn for x in ast.walk(stc.test)) and stc.body and isinstance(stc.body[-1], ast.Return) \
                        and prog.try_const(m, stc.body[-1].value, default=1) is False
                    p_right_small = side is cmpn.comparators[0] and isinstance(op, (ast.LtE, ast.Lt))      # d <= p
                    p_left_big = side is cmpn.left and isinstance(op, (ast.GtE, ast.Gt))                    # p >= d
                    p_right_big = side is cmpn.comparators[0] and isinstance(op, (ast.GtE, ast.Gt))        # d >= p
                    p_left_small = side is cmpn.left and isinstance(op, (ast.LtE, ast.Lt))                  # p <= d
                    upper = (p_right_small or p_left_big) if not reject else (p_right_big or p_left_small)
                    if upper:
                        guarded = True
                for a, pol in atoms_of_facts(facts_at(cmpn)):
                    if isinstance(a, ast.Compare) and len(a.ops) == 1:
                        l, r = a.left, a.comparators[0]
                        if (norm(l) == key and _is_wild(prog, m, r)) or (norm(r) == key and _is_wild(prog, m, l)):
                            if (isinstance(a.ops[0], ast.Eq) and not pol) or (isinstance(a.ops[0], ast.NotEq) and pol):
                                guarded = True
                # short circuit in the same boolean expression:  (p == WILD) or (d >= p)   /   (p != WILD) and (d < p)
                p = getattr(cmpn, "_parent", None)
                child = cmpn
                while p is not None and not isinstance(p, ast.stmt):
                    if isinstance(p, ast.BoolOp):
                        idx = [i for i, v in enumerate(p.values) if v is child or any(x is child for x in ast.walk(v))]
                        for v in p.values[: idx[0] if idx else 0]:
                            if isinstance(v, ast.Compare) and len(v.ops) == 1:
                                l, r = v.left, v.comparators[0]
                                hit = (norm(l) == key and _is_wild(prog, m, r)) or (norm(r) == key and _is_wild(prog, m, l))
                                if hit and ((isinstance(p.op, ast.Or) and isinstance(v.ops[0], ast.Eq)) or (isinstance(p.op, ast.And) and isinstance(v.ops[0], ast.NotEq))):
                                    guarded = True
                    child = p
                    p = getattr(p, "_parent", None)
                ctx.check("%s:wildcard-before-compare[%s]" % (fname, key), guarded, where(m, cmpn),
                          "the pattern value %s is compared (%s) without first being tested for the unspecified octet 255: an unspecified field (e.g. an open-ended date range) then never matches" % (key, norm(cmpn)))
        if n == 0:
            raise ShapeError("%s: no pattern comparison found" % fname)


def _outcomes(ps, ev, env):
    outs = set()
    for p in ps:
        if feasible(p, ev, env):
            if p.term == "return":
                r = [e.node for e in p.events if e.kind == "return"][-1]
                if r.value is not None and not isinstance(r.value, ast.Constant):
                    # a computed result (return not (a or b)): evaluated with the locals of the path followed
                    from .common import path_return_value
                    kind, val = path_return_value(p, ev, env)
                    if kind == "value" and isinstance(val, bool):
                        outs.add(str(val))
                        continue
                outs.add(norm(r.value))
            else:
                outs.add(p.term)
    return outs


@rule("C20.R3", "special pattern octets mean what clause 21 says: month 13/14 odd/even, day 32 last / 33 odd / 34 even, week-of-month 1..9", floor=20, engines="E1 paths + E5 finite-domain guard evaluation")
def r3(ctx):
    prog = ctx.prog
    m, f = _fn(ctx, "match_date")
    ev = Evaluator(prog, m)
    ps = enumerate_paths(f)
    ctx.count("paths", len(ps))
    base = {"year_p": 255, "month_p": 255, "day_p": 255, "day_of_week_p": 255, "year": 120, "month": 6, "day": 15, "day_of_week": 1, "last_day": 30}
    def match(env):
        e = dict(base)
        e.update(env)
        o = _outcomes(ps, ev, e)
        return o
    # month
    for mp, want in ((13, lambda mo: mo % 2 == 1), (14, lambda mo: mo % 2 == 0), (6, lambda mo: mo == 6), (255, lambda mo: True)):
        got = {mo for mo in range(1, 13) if match({"month_p": mp, "month": mo}) == {"True"}}
        bad = {mo for mo in range(1, 13) if match({"month_p": mp, "month": mo}) not in ({"True"}, {"False"})}
        ctx.check("match_date:month[%d]" % mp, got == {mo for mo in range(1, 13) if want(mo)} and not bad, where(m, f),
                  "month pattern %d matches months %s, clause 21 prescribes %s" % (mp, sorted(got), sorted(mo for mo in range(1, 13) if want(mo))))
    for dp, want in ((32, lambda d, L: d == L), (33, lambda d, L: d % 2 == 1), (34, lambda d, L: d % 2 == 0), (15, lambda d, L: d == 15), (255, lambda d, L: True)):
        for L in (28, 31):
            got = {d for d in range(1, L + 1) if match({"day_p": dp, "day": d, "last_day": L}) == {"True"}}
            ctx.check("match_date:day[%d,month-length=%d]" % (dp, L), got == {d for d in range(1, L + 1) if want(d, L)}, where(m, f),
                      "day pattern %d matches days %s of a %d-day month" % (dp, sorted(got), L))
    ld = [s for s in walk_shallow(f) if isinstance(s, ast.Assign) and norm(s.targets[0]) == "last_day"]
    ctx.check("match_date:last-day-source", len(ld) == 1 and _is_month_length(ev, ld[0].value), where(m, f), "the last day must be that of the date's own month and year")
    for yp, y, want in ((255, 120, True), (120, 120, True), (121, 120, False)):
        ctx.check("match_date:year[%d,%d]" % (yp, y), match({"year_p": yp, "year": y}) == {str(want)}, where(m, f), "year pattern %d against year %d" % (yp, y))
    for wp, w, want in ((255, 3, True), (3, 3, True), (4, 3, False)):
        ctx.check("match_date:dow[%d,%d]" % (wp, w), match({"day_of_week_p": wp, "day_of_week": w}) == {str(want)}, where(m, f), "day-of-week pattern %d against %d" % (wp, w))
    # week and day
    m2, g = _fn(ctx, "match_weeknday")
    ev2 = Evaluator(prog, m2)
    ps2 = enumerate_paths(g)
    ctx.count("paths", len(ps2))
    base2 = {"month_p": 255, "week_of_month_p": 255, "day_of_week_p": 255, "month": 6, "day": 15, "day_of_week": 1, "last_day": 30}
    def wk(L, w):
        if w == 255:
            return set(range(1, L + 1))
        if w <= 5:
            return {d for d in range(1, L + 1) if 7 * (w - 1) + 1 <= d <= 7 * w}
        k = w - 6
        return {d for d in range(1, L + 1) if L - 6 - 7 * k <= d <= L - 7 * k}
    for w in (255, 1, 2, 3, 4, 5, 6, 7, 8, 9):
        for L in (28, 29, 30, 31):
            e0 = dict(base2)
            e0.update({"week_of_month_p": w, "last_day": L})
            got = set()
            for d in range(1, L + 1):
                e = dict(e0)
                e["day"] = d
                if _outcomes(ps2, ev2, e) == {"True"}:
                    got.add(d)
            ctx.check("match_weeknday:week[%d,month-length=%d]" % (w, L), got == wk(L, w), where(m2, g),
                      "week-of-month %d in a %d-day month matches days %s, clause 21 prescribes %s" % (w, L, _rng(got), _rng(wk(L, w))))
    for mp, want in ((13, lambda mo: mo % 2 == 1), (14, lambda mo: mo % 2 == 0), (255, lambda mo: True)):
        got = set()
        for mo in range(1, 13):
            e = dict(base2)
            e.update({"month_p": mp, "month": mo})
            if _outcomes(ps2, ev2, e) == {"True"}:
                got.add(mo)
        ctx.check("match_weeknday:month[%d]" % mp, got == {mo for mo in range(1, 13) if want(mo)}, where(m2, g), "month pattern %d matches months %s" % (mp, sorted(got)))
    ld2 = [s for s in walk_shallow(g) if isinstance(s, ast.Assign) and norm(s.targets[0]) == "last_day"]
    ctx.check("match_weeknday:last-day-source", len(ld2) == 1 and _is_month_length(ev2, ld2[0].value), where(m2, g),
              "the last day must be that of the date's own month and year (February has 29 days in leap years)")
    up = [s for s in walk_shallow(g) if isinstance(s, ast.Assign) and isinstance(s.targets[0], ast.Tuple) and [norm(e) for e in s.targets[0].elts] == ["month_p", "week_of_month_p", "day_of_week_p"]]
    ctx.check("match_weeknday:octet-order", len(up) == 1, where(m2, g), "a BACnetWeekNDay is month, week-of-month, day-of-week in this order")
    # date ranges: an unspecified end leaves that side open, otherwise the bounds are inclusive
    m4, r = _fn(ctx, "match_date_range")
    ev4 = Evaluator(prog, m4)
    ps4 = enumerate_paths(r)
    dpar, rpar = [a.arg for a in r.args.args][:2]
    names = {}
    for s in walk_shallow(r):
        if isinstance(s, ast.Assign) and isinstance(s.targets[0], ast.Name):
            for fld in ("startDate", "endDate"):
                if norm(s.value) == "%s.%s[:3]" % (rpar, fld):
                    names[fld] = s.targets[0].id
    WILD = (255, 255, 255)
    for start in (WILD, (110, 3, 10), (120, 6, 15)):
        for end in (WILD, (120, 6, 15), (130, 9, 20)):
            if start != WILD and end != WILD and start > end:
                continue
            got, und = set(), set()
            dates = [(100, 1, 1), (110, 3, 9), (110, 3, 10), (120, 6, 14), (120, 6, 15), (120, 6, 16), (130, 9, 20), (130, 9, 21), (140, 12, 31)]
            for d in dates:
                e = {"%s[:3]" % dpar: d, "%s.startDate[:3]" % rpar: start, "%s.endDate[:3]" % rpar: end}
                if "startDate" in names:
                    e[names["startDate"]] = start
                if "endDate" in names:
                    e[names["endDate"]] = end
                o = _outcomes(ps4, ev4, e)
                if o == {"True"}:
                    got.add(d)
                elif o != {"False"}:
                    und.add(d)
            want = {d for d in dates if (start == WILD or d >= start) and (end == WILD or d <= end)}
            lab = lambda t: "any" if t == WILD else "%d-%d-%d" % (t[0] + 1900, t[1], t[2])
            ctx.check("match_date_range:range[%s..%s]" % (lab(start), lab(end)), got == want and not und, where(m4, r),
                      "range %s..%s matches %s of the probe dates, clause 21 prescribes %s%s" % (lab(start), lab(end), sorted(lab(x) for x in got), sorted(lab(x) for x in want),
                                                                                               "; undecided for %s" % sorted(lab(x) for x in und) if und else ""))
    # calendar entry dispatch
    m3, h = _fn(ctx, "date_in_calendar_entry")
    want = {"calendar_entry.date": "match_date", "calendar_entry.dateRange": "match_date_range", "calendar_entry.weekNDay": "match_weeknday"}
    got = {}
    for call in calls_in(h):
        if isinstance(call.func, ast.Name) and call.func.id.startswith("match_"):
            got[norm(call.args[1])] = call.func.id
            at = atom_texts(facts_at(call))
            ctx.check("date_in_calendar_entry:%s-guard" % call.func.id, (norm(call.args[1]), True) in at, where(m3, call), "%s must be used exactly when the entry carries that alternative" % call.func.id)
    ctx.check("date_in_calendar_entry:dispatch", got == want, where(m3, h), "calendar entry alternatives must go to their own matcher (found %r)" % got)


def _is_month_length(ev, v):
    """calendar.monthrange(<gregorian year of the date>, <its month>)[1]: the length of that very month (29 in a leap February)"""
    if not (isinstance(v, ast.Subscript) and isinstance(v.value, ast.Call) and norm(v.value.func) in ("calendar.monthrange", "monthrange") and len(v.value.args) == 2):
        return False
    try:
        return ev.value(v.slice, {}) == 1 and ev.value(v.value.args[0], {"year": 120}) == 2020 and ev.value(v.value.args[0], {"year": 0}) == 1900 and ev.value(v.value.args[1], {"month": 2}) == 2
    except (NotConst, TypeError):
        return False


def _rng(s):
    s = sorted(s)
    return "%d-%d" % (s[0], s[-1]) if s and s == list(range(s[0], s[-1] + 1)) else str(s)


@rule("C20.R4", "evaluation order: effective period, exception events by priority, then the weekday's list, then the default; entries apply while time <= now; Null relinquishes", floor=8, engines="E1")
def r4(ctx):
    prog = ctx.prog
    c = prog.cls(MOD, "LocalScheduleInterpreter")
    m = c.module
    f = c.methods["eval"]
    ev = Evaluator(prog, m, c)
    d, t = f.args.args[1].arg, f.args.args[2].arg
    loops = [l for l in walk_shallow(f) if isinstance(l, ast.For)]
    exc = [l for l in loops if norm(l.iter).endswith(".exceptionSchedule")]
    sel = [l for l in loops if norm(l.iter).startswith("zip(")]
    wk = [l for l in loops if norm(l.iter).endswith(".daySchedule")]
    ok = len(exc) == 1 and len(sel) == 1 and len(wk) == 1 and exc[0].lineno < sel[0].lineno < wk[0].lineno
    ctx.check("eval:order", ok, where(m, f), "exception events are collected first, a winner is selected, and only then the weekly schedule is consulted")
    if not ok:
        return
    # priority slot
    pr = [s for s in ast.walk(exc[0]) if isinstance(s, ast.Assign) and norm(s.targets[0]) == "priority"]
    okp = len(pr) == 1
    if okp:
        okp, cx = same_function(ev, pr[0].value, grid(**{"special_event.eventPriority": [1, 2, 16]}), lambda e: e["special_event.eventPriority"] - 1)
    ctx.check("eval:priority-slot", okp, where(m, f), "event priority p (1..16) uses slot p-1 of the 16 slots")
    sizes = [s for s in walk_shallow(f) if isinstance(s, ast.Assign) and isinstance(s.value, ast.BinOp) and isinstance(s.value.op, ast.Mult) and norm(s.value.left) == "[None]"]
    ctx.check("eval:sixteen-slots", len(sizes) == 2 and all(prog.try_const(m, s.value.right) == 16 for s in sizes), where(m, f), "16 priority slots for values and for transitions")
    # unmatched events are skipped
    cont = [n for n in ast.walk(exc[0]) if isinstance(n, ast.Continue)]
    ok = any(("match", False) in atom_texts(facts_at(n, stop=exc[0])) for n in cont)
    ctx.check("eval:unmatched-event-skipped", ok, where(m, f), "an event whose period does not match the date must not contribute")
    # time comparison: entries apply while tval <= etime, in both loops
    for name, lp in (("exception", [l for l in ast.walk(exc[0]) if isinstance(l, ast.For) and norm(l.iter).endswith(".listOfTimeValues")]), ("weekly", wk)):
        ok = len(lp) == 1
        if ok:
            tests = [s for s in lp[0].body if isinstance(s, ast.If) and isinstance(s.test, ast.Compare)]
            ok = len(tests) == 1
            if ok:
                cmpn = tests[0].test
                pts = [((8, 0, 0, 0), (8, 0, 0, 0)), ((7, 59, 0, 0), (8, 0, 0, 0)), ((8, 0, 0, 1), (8, 0, 0, 0))]
                l, r = norm(cmpn.left), norm(cmpn.comparators[0])
                other = l if r == t else r if l == t else None
                ok = other is not None
                if ok:
                    got = [ev.eval3(cmpn, {other: a, t: b}) for a, b in pts]
                    ok = got == [True, True, False]
                # else branch: records the next transition and stops
                ok = ok and any(isinstance(x, ast.Break) for s_ in tests[0].orelse for x in ast.walk(s_))
        ctx.check("eval:%s-applies-while-time<=now" % name, ok, where(m, f), "a time-value applies from its time on (inclusive); the first later entry gives the next transition and ends the scan")
    # Null relinquishes
    nulls = [s for s in ast.walk(exc[0]) if isinstance(s, ast.Assign) and norm(s.targets[0]) == "event_priority[priority]" and prog.try_const(m, s.value, default=0) is None]
    ok = len(nulls) == 1 and any("isinstance(time_value.value, Null)" == tx and p for tx, p in atom_texts(facts_at(nulls[0], stop=exc[0])))
    ctx.check("eval:null-relinquishes-event", ok, where(m, f), "a Null value in an exception list releases that priority slot")
    nulls = [s for s in ast.walk(wk[0]) if isinstance(s, ast.Assign) and norm(s.targets[0]) == "daily_value" and norm(s.value).endswith(".scheduleDefault")]
    ok = len(nulls) == 1 and any("isinstance(time_value.value, Null)" == tx and p for tx, p in atom_texts(facts_at(nulls[0], stop=wk[0])))
    ctx.check("eval:null-returns-to-default", ok, where(m, f), "a Null value in the weekly list returns to the schedule default")
    # selection: first non-None in slot order, earliest transition among the slots passed so far
    rs = [r for r in ast.walk(sel[0]) if isinstance(r, ast.Return)]
    ok = len(rs) == 1 and isinstance(rs[0].value, ast.Tuple) and norm(rs[0].value.elts[0]) == norm(sel[0].target.elts[0]) and norm(sel[0].iter) == "zip(event_priority, next_transition_time)"
    if ok:
        at_ = atom_texts(facts_at(rs[0], stop=sel[0]))
        ok = at_ == [("%s is not None" % norm(sel[0].target.elts[0]), True)] or at_ == [("%s is None" % norm(sel[0].target.elts[0]), False)]
    ctx.check("eval:highest-priority-wins", ok, where(m, f), "the first (lowest numbered) slot holding a value decides")
    mins = [s for s in walk_shallow(f) if isinstance(s, ast.Assign) and norm(s.targets[0]) == "earliest_transition" and isinstance(s.value, ast.Call) and norm(s.value.func) == "min"]
    ctx.check("eval:earliest-transition", len(mins) == 2 and all("earliest_transition" in [norm(a) for a in s.value.args] for s in mins), where(m, f), "the reported transition is the minimum over the pending ones (and midnight)")
    # every result reports the accumulated minimum, and a slot's own transition is folded in before the slot can decide
    for i, r in enumerate([x for x in walk_shallow(f) if isinstance(x, ast.Return) and isinstance(x.value, ast.Tuple) and len(x.value.elts) == 2]):
        ctx.check("eval:return#%d:reports-earliest" % (i + 1), norm(r.value.elts[1]) == "earliest_transition", where(m, r),
                  "eval returns %s as the next transition instead of the minimum over all pending transitions: a higher-priority entry that starts earlier is slept through" % norm(r.value.elts[1]))
    if sel and rs and len(rs) == 1:
        folded = [s_ for s_ in mins if any(s_ is y for y in ast.walk(sel[0]))]
        ok = len(folded) == 1 and folded[0].lineno < rs[0].lineno
        ctx.check("eval:slot-transition-folded-before-decision", ok, where(m, sel[0]), "inside the priority scan the slot's next transition must be merged into the minimum before the slot's value is returned")
    nd = [s for s in walk_shallow(f) if isinstance(s, ast.Assign) and norm(s.targets[0]) == "next_day"]
    ctx.check("eval:midnight", len(nd) == 1 and prog.try_const(m, nd[0].value) == (24, 0, 0, 0), where(m, f), "without a later entry the next transition is midnight (24:00)")
    # weekday index
    idx = [n for n in walk_shallow(f) if isinstance(n, ast.Subscript) and norm(n.value).endswith(".weeklySchedule")]
    ctx.check("eval:weekday-index", len(idx) == 1 and norm(idx[0].slice) == "%s[3]" % d, where(m, f), "the weekly list is indexed by the day-of-week element of the date")
    # default
    dv = [s for s in walk_shallow(f) if isinstance(s, ast.Assign) and norm(s.targets[0]) == "daily_value" and norm(s.value).endswith(".scheduleDefault") and not enclosing_loops(s)]
    ctx.check("eval:default", len(dv) == 1, where(m, f), "without any applicable entry the value is the schedule default")
    # effective period first
    ep = [x for x in calls_in(f) if norm(x.func) == "match_date_range"]
    ok = len(ep) == 1 and norm(ep[0].args[0]) == d and norm(ep[0].args[1]).endswith(".effectivePeriod") and ep[0].lineno < exc[0].lineno
    ctx.check("eval:effective-period-first", ok, where(m, f), "the effective period is tested before anything else")


@rule("C20.R5", "the interpreter re-arms its timer at the computed transition on every path that evaluated the schedule", floor=3, engines="E1 paths")
def r5(ctx):
    prog = ctx.prog
    c = prog.cls(MOD, "LocalScheduleInterpreter")
    m = c.module
    f = c.methods.get("process_task")
    if f is None:
        raise AnchorMissing("LocalScheduleInterpreter.process_task")
    ev = Evaluator(prog, m, c)
    n = 0
    for p in enumerate_paths(f):
        if p.term == "raise":
            continue
        nodes = path_nodes(p)
        evals = [x for x in nodes if isinstance(x, ast.Call) and self_call(x) == "eval"]
        if not evals:
            # fault path: nothing evaluated, nothing scheduled
            ok = feasible(p, ev, {"self.sched_obj.reliability": "configurationError"}) and not feasible(p, ev, {"self.sched_obj.reliability": "noFaultDetected"})
            ctx.check("process_task:fault-path", ok, where(m, f), "only an unreliable schedule may skip the evaluation")
            continue
        n += 1
        inst = [x for x in nodes if isinstance(x, ast.Call) and self_call(x) == "install_task"]
        ok = len(inst) == 1 and len(evals) == 1 and nodes.index(inst[0]) > nodes.index(evals[0])
        ctx.check("process_task:re-arms", ok, where(m, f), "a path that evaluated the schedule does not re-install the task exactly once afterwards: the schedule stops running (%s)" % p.describe()[:200])
        if ok:
            a = inst[0].args[0] if inst[0].args else {k.arg: k.value for k in inst[0].keywords}.get("when")
            src = [s for s in nodes if isinstance(s, ast.Assign) and a is not None and norm(s.targets[0]) == norm(a)]
            ok2 = bool(src) and isinstance(src[-1].value, ast.Call) and norm(src[-1].value.func) == "datetime_to_time" and len(src[-1].value.args) == 2
            if ok2:
                a0, a1 = src[-1].value.args
                # the transition comes from eval()'s second result (or is midnight when there was none)
                defs = [s for s in nodes if isinstance(s, ast.Assign) and any(norm(a1) in [norm(e) for e in (t.elts if isinstance(t, ast.Tuple) else [t])] for t in s.targets)]
                okd = bool(defs)
                for dfn in defs:
                    t0 = dfn.targets[0]
                    if isinstance(t0, ast.Tuple):
                        okd = okd and len(t0.elts) == 2 and norm(t0.elts[1]) == norm(a1)
                    else:
                        okd = okd and prog.try_const(m, dfn.value) == (24, 0, 0, 0)
                ok2 = okd and norm(a0) == "current_date"
            ctx.check("process_task:at-transition", ok2, where(m, f), "the task must be installed at datetime_to_time(date, next transition)")
    if n == 0:
        raise ShapeError("process_task never calls eval()")
    # the date and time evaluated are the current ones
    ca = [x for x in calls_in(f) if self_call(x) == "eval"]
    ctx.check("process_task:evaluates-now", len(ca) == 1 and [norm(a) for a in ca[0].args] == ["current_date", "current_time"], where(m, f), "the schedule is evaluated at the current date and time")
    m2, g = _fn(ctx, "datetime_to_time")
    tt = [s for s in walk_shallow(g) if isinstance(s, ast.Assign) and isinstance(s.value, ast.Tuple) and len(s.value.elts) == 9]
    dd, t2 = g.args.args[0].arg, g.args.args[1].arg
    want = ["%s[0] + 1900" % dd, "%s[1]" % dd, "%s[2]" % dd, "%s[0]" % t2, "%s[1]" % t2, "%s[2]" % t2]
    ctx.check("datetime_to_time:fields", len(tt) == 1 and [norm(e) for e in tt[0].value.elts[:6]] == want and prog.try_const(m2, tt[0].value.elts[8]) == -1, where(m2, g),
              "the transition instant is (year+1900, month, day, hour, minute, second) in local time with DST resolved by mktime")


@rule("C20.R6", "every value the evaluator and the matchers read was assigned on every way to the read, within the current loop iteration (no flag left over from the previous exception or entry)", floor=6, engines="definite-assignment dataflow")
def r6(ctx):
    from ..defassign import maybe_undefined, stale_loop_flags
    prog = ctx.prog
    m = prog.module(MOD)
    fns = [(None, f) for f in m.functions.values()]
    for c in m.classes.values():
        fns += [(c, f) for f in c.methods.values()]
    if len(fns) < 8:
        raise ShapeError("local.schedule: only %d functions found" % len(fns))
    from .common import check_names_bound
    check_names_bound(ctx, [MOD])
    for c, f in fns:
        name = "%s.%s" % (c.name, f.name) if c else f.name
        und = maybe_undefined(f)
        stale = stale_loop_flags(f)
        ctx.check("%s:assigned-before-read" % name, not und and not stale, where(m, (und or stale or [(None, f)])[0][1]),
                  "; ".join(["'%s' (line %d) may be read before it is assigned" % (n, x.lineno) for n, x in und] +
                            ["'%s' (line %d) is only assigned conditionally inside the loop at line %d: the read may see the value of the previous iteration" % (n, x.lineno, lp.lineno) for n, x, lp in stale]))


@rule("C20.R7", "a change of the schedule is evaluated with the reliability that change produces: the object's reliability monitors are registered before the interpreter's", floor=2, engines="E0 statement order")
def r7(ctx):
    prog = ctx.prog
    so = prog.cls(MOD, "LocalScheduleObject")
    it = prog.cls(MOD, "LocalScheduleInterpreter")
    m = so.module
    init = so.methods.get("__init__")
    iinit = it.methods.get("__init__")
    if init is None or iinit is None:
        raise AnchorMissing("LocalScheduleObject.__init__ / LocalScheduleInterpreter.__init__")
    # properties the interpreter listens to for re-evaluation
    heard = set()
    for x in ast.walk(iinit):
        if isinstance(x, ast.Call) and isinstance(x.func, ast.Attribute) and x.func.attr == "append" and "_property_monitors" in norm(x.func.value) and x.args and norm(x.args[0]) == "self.schedule_changed":
            k = x.func.value.slice if isinstance(x.func.value, ast.Subscript) else None
            v = prog.try_const(m, k) if k is not None else None
            if isinstance(v, str):
                heard.add(v)
    if not heard:
        raise ShapeError("LocalScheduleInterpreter.__init__: no schedule_changed monitors found")
    make = [st for st in init.body if any(isinstance(x, ast.Call) and norm(x.func) == "LocalScheduleInterpreter" for x in ast.walk(st))]
    reg = [st for st in init.body if any(isinstance(x, ast.Call) and isinstance(x.func, ast.Attribute) and x.func.attr == "append" and "_property_monitors" in norm(x.func.value)
                                       and x.args and norm(x.args[0]) == "self._check_reliability" for x in ast.walk(st))]
    ok = len(make) == 1 and len(reg) == 1 and init.body.index(reg[0]) < init.body.index(make[0])
    ctx.check("LocalScheduleObject.__init__:reliability-monitor-first", ok, where(m, make[0] if make else init),
              "monitors run in registration order: the interpreter (listening to %s) is created before the reliability check is registered, so it evaluates a changed schedule with the reliability of the old one - a schedule repaired at run time is never evaluated again" % sorted(heard))
    covered = set()
    if reg:
        for x in ast.walk(reg[0]):
            if isinstance(x, ast.For) and isinstance(x.iter, (ast.Tuple, ast.List)):
                covered |= {prog.try_const(m, e) for e in x.iter.elts}
    ctx.check("LocalScheduleObject.__init__:reliability-covers-what-the-interpreter-hears", heard <= covered, where(m, init),
              "the interpreter re-evaluates on %s but the reliability is re-checked only on %s" % (sorted(heard), sorted(x for x in covered if x)))
    pt = it.methods.get("process_task")
    rel = [x for x in walk_shallow(pt) if isinstance(x, ast.Return)] if pt else []
    first = rel[0] if rel else None
    ok = first is not None and any("reliability" in t for t, p in atom_texts(facts_at(first)))
    ctx.check("LocalScheduleInterpreter.process_task:faulty-configuration-not-evaluated", ok, where(m, pt or it.node), "a schedule with a configuration fault must not drive the present value")


@rule("C20.R8", "the clock the interpreter reads gives BACnet dates and times: year - 1900, month, day, weekday 1 (Monday) .. 7 (Sunday); hour, minute, second", floor=2, engines="E5 evaluation on a sample struct_time")
def r8(ctx):
    prog = ctx.prog
    pm = prog.module("primitivedata")
    # 2024-03-13 10:20:30, a Wednesday: tm_wday 2, BACnet weekday 3
    sample = (2024, 3, 13, 10, 20, 30, 2, 73, 0)
    names = ("tm_year", "tm_mon", "tm_mday", "tm_hour", "tm_min", "tm_sec", "tm_wday", "tm_yday", "tm_isdst")
    for cname, want in (("Date", (124, 3, 13, 3)), ("Time", (10, 20, 30))):
        c = prog.cls("primitivedata", cname)
        f = c.methods.get("now")
        if f is None:
            raise AnchorMissing("%s.now" % cname)
        ev = Evaluator(prog, pm, c)
        src = [s_ for s_ in walk_shallow(f) if isinstance(s_, ast.Assign) and isinstance(s_.value, ast.Call) and norm(s_.value.func) in ("time.localtime", "localtime")]
        st = [s_ for t_, s_ in stores_in(f) if is_self_attr(t_, "value") and isinstance(s_, ast.Assign)]
        ok = len(src) == 1 and len(st) == 1 and isinstance(src[0].targets[0], ast.Name)
        got = None
        if ok:
            nm = src[0].targets[0].id
            env = {nm: sample, "when": 1710325230.25}
            for i_, a_ in enumerate(names):
                env["%s.%s" % (nm, a_)] = sample[i_]
            try:
                got = ev.value(st[0].value, env)
            except (NotConst, TypeError, ValueError, IndexError) as ex:
                got = "not evaluable: %s" % ex
            ok = isinstance(got, tuple) and tuple(got[:len(want)]) == want
        ctx.check("%s.now:fields" % cname, ok, where(pm, f), "for Wednesday 2024-03-13 10:20:30 the value must start with %r (found %r)" % (want, got))
